(** * C12 (2D): the grid builders produce a well-formed regular mesh for every size.

    A 2D cell-structured map: K darts per cell, dart (ix, iy, k) has identifier
    1 + K * (ix + nx * iy) + k; beta0 / beta1 stay inside the cell (local tables l0, l1);
    beta2 goes to the neighbour cell given by the table nb (dx, dy, k') or is null on the rim.
    The tables generated from grid.rs are proved to be instances, for all sizes. *)
From Coq Require Import ZArith List Lia Bool.
From HC Require Import Build.GenGrid.
Import ListNotations.
Open Scope Z_scope.

Record cellspec := {
  cK : Z;                            (* darts per cell *)
  cl0 : Z -> Z; cl1 : Z -> Z;        (* local beta0 / beta1 on 0..K-1 *)
  cnb : Z -> Z * Z * Z               (* beta2: (dx, dy, k') *)
}.

Definition did (K nx ix iy k : Z) : Z := 1 + K * (ix + nx * iy) + k.
Definition in_grid (nx ny ix iy : Z) : bool := (0 <=? ix) && (ix <? nx) && (0 <=? iy) && (iy <? ny).

Definition spec_b2 (S : cellspec) (nx ny ix iy k : Z) : Z :=
  let '(dx, dy, k') := cnb S k in
  if in_grid nx ny (ix + dx) (iy + dy) then did (cK S) nx (ix + dx) (iy + dy) k' else 0.

Definition spec_row (S : cellspec) (nx ny ix iy k : Z) : list Z :=
  [did (cK S) nx ix iy (cl0 S k); did (cK S) nx ix iy (cl1 S k); spec_b2 S nx ny ix iy k].

(** the finite facts a cell specification must satisfy (checked by computation per instance) *)
Definition ks (S : cellspec) : list Z := map Z.of_nat (seq 0 (Z.to_nat (cK S))).
Definition spec_ok (S : cellspec) : bool :=
  (0 <? cK S) &&
  forallb (fun k =>
    let '(dx, dy, k') := cnb S k in
    (0 <=? cl0 S k) && (cl0 S k <? cK S) && (0 <=? cl1 S k) && (cl1 S k <? cK S) &&
    (cl0 S (cl1 S k) =? k) && (cl1 S (cl0 S k) =? k) &&
    (0 <=? k') && (k' <? cK S) &&
    (-1 <=? dx) && (dx <=? 1) && (-1 <=? dy) && (dy <=? 1) &&
    (* the neighbour's entry points back; no dart is its own 2-image *)
    (let '(ex, ey, k'') := cnb S k' in (ex =? - dx) && (ey =? - dy) && (k'' =? k)) &&
    negb ((dx =? 0) && (dy =? 0) && (k' =? k)))
  (ks S).

Lemma in_ks S k : In k (ks S) <-> 0 <= k < cK S.
Proof.
  unfold ks. rewrite in_map_iff. split.
  - intros (j & <- & Hj). apply in_seq in Hj. lia.
  - intros Hk. exists (Z.to_nat k). split; [lia|]. apply in_seq. lia.
Qed.

Ltac nthz := change (Z.to_nat 0) with 0%nat; change (Z.to_nat 1) with 1%nat; change (Z.to_nat 2) with 2%nat;
  cbn [nth spec_row].

(** ** the map as functions on dart identifiers *)
Section Map.
Variable S : cellspec.
Variables nx ny : Z.
Hypothesis Hok : spec_ok S = true.
Hypothesis Hnx : 0 < nx.
Hypothesis Hny : 0 < ny.

Definition ndarts : Z := cK S * nx * ny + 1.          (* slots, null dart included *)
Definition dk (d : Z) : Z := (d - 1) mod cK S.
Definition dc (d : Z) : Z := (d - 1) / cK S.
Definition dix (d : Z) : Z := dc d mod nx.
Definition diy (d : Z) : Z := dc d / nx.

Definition gbeta (i d : Z) : Z :=
  if (1 <=? d) && (d <? ndarts) then nth (Z.to_nat i) (spec_row S nx ny (dix d) (diy d) (dk d)) 0 else 0.

Lemma K_pos : 0 < cK S.
Proof. unfold spec_ok in Hok. apply andb_true_iff in Hok as [H _]. lia. Qed.

Lemma spec_at k : 0 <= k < cK S ->
  let '(dx, dy, k') := cnb S k in
  0 <= cl0 S k < cK S /\ 0 <= cl1 S k < cK S /\ cl0 S (cl1 S k) = k /\ cl1 S (cl0 S k) = k /\
  0 <= k' < cK S /\ -1 <= dx <= 1 /\ -1 <= dy <= 1 /\
  cnb S k' = (- dx, - dy, k) /\ ~ (dx = 0 /\ dy = 0 /\ k' = k).
Proof.
  intros Hk. unfold spec_ok in Hok. apply andb_true_iff in Hok as [_ H].
  rewrite forallb_forall in H. specialize (H k (proj2 (in_ks S k) Hk)).
  destruct (cnb S k) as [[dx dy] k'] eqn:E.
  destruct (cnb S k') as [[ex ey] k''] eqn:E'.
  repeat (apply andb_true_iff in H as [H ?]).
  repeat match goal with H : negb _ = true |- _ => apply negb_true_iff in H end.
  assert (ex = - dx /\ ey = - dy /\ k'' = k) as (-> & -> & ->) by lia.
  repeat split; try lia.
Qed.

(** decoding an identifier *)
Lemma decode d : 1 <= d < ndarts ->
  0 <= dk d < cK S /\ 0 <= dix d < nx /\ 0 <= diy d < ny /\ d = did (cK S) nx (dix d) (diy d) (dk d).
Proof.
  intros Hd. pose proof K_pos as HK. unfold ndarts, dk, dix, diy, dc, did in *.
  assert (H1 : 0 <= (d - 1) / cK S < nx * ny).
  { split; [apply Z.div_pos; lia|]. apply Z.div_lt_upper_bound; nia. }
  pose proof (Z.mod_pos_bound (d - 1) (cK S) HK).
  pose proof (Z.mod_pos_bound ((d - 1) / cK S) nx Hnx).
  assert (0 <= (d - 1) / cK S / nx < ny).
  { split; [apply Z.div_pos; lia|]. apply Z.div_lt_upper_bound; nia. }
  repeat split; try lia.
  pose proof (Z.div_mod (d - 1) (cK S) ltac:(lia)).
  pose proof (Z.div_mod ((d - 1) / cK S) nx ltac:(lia)).
  nia.
Qed.

Lemma did_range ix iy k : 0 <= ix < nx -> 0 <= iy < ny -> 0 <= k < cK S ->
  1 <= did (cK S) nx ix iy k < ndarts.
Proof.
  intros Hx Hy Hk. unfold did, ndarts.
  assert (A : 0 <= ix + nx * iy) by nia.
  assert (B : ix + nx * iy <= nx * ny - 1) by nia.
  assert (C : cK S * (ix + nx * iy) <= cK S * (nx * ny - 1)) by (apply Z.mul_le_mono_nonneg_l; lia).
  assert (D : 0 <= cK S * (ix + nx * iy)) by (apply Z.mul_nonneg_nonneg; lia).
  nia.
Qed.

Lemma did_decode ix iy k : 0 <= ix < nx -> 0 <= iy < ny -> 0 <= k < cK S ->
  dk (did (cK S) nx ix iy k) = k /\ dix (did (cK S) nx ix iy k) = ix /\ diy (did (cK S) nx ix iy k) = iy.
Proof.
  intros Hx Hy Hk. pose proof K_pos as HK. unfold dk, dix, diy, dc, did.
  replace (1 + cK S * (ix + nx * iy) + k - 1) with (k + (ix + nx * iy) * cK S) by ring.
  rewrite Z.mod_add, Z.div_add by lia. rewrite Z.mod_small, Z.div_small by lia.
  replace (0 + (ix + nx * iy)) with (ix + iy * nx) by ring.
  rewrite Z.mod_add, Z.div_add by lia. rewrite Z.mod_small, Z.div_small by lia. lia.
Qed.

Lemma gbeta_at ix iy k i : 0 <= ix < nx -> 0 <= iy < ny -> 0 <= k < cK S ->
  gbeta i (did (cK S) nx ix iy k) = nth (Z.to_nat i) (spec_row S nx ny ix iy k) 0.
Proof.
  intros Hx Hy Hk. unfold gbeta. pose proof (did_range ix iy k Hx Hy Hk).
  destruct (did_decode ix iy k Hx Hy Hk) as (-> & -> & ->).
  replace ((1 <=? did (cK S) nx ix iy k) && (did (cK S) nx ix iy k <? ndarts)) with true; [reflexivity|].
  symmetry. apply andb_true_iff. split; [apply Z.leb_le|apply Z.ltb_lt]; lia.
Qed.

Lemma in_grid_spec ix iy : in_grid nx ny ix iy = true <-> 0 <= ix < nx /\ 0 <= iy < ny.
Proof. unfold in_grid. rewrite !andb_true_iff, !Z.leb_le, !Z.ltb_lt. lia. Qed.

(** ** well-formedness, for every size *)
Theorem grid_null_inert i : gbeta i 0 = 0.
Proof. unfold gbeta. cbn. reflexivity. Qed.

Theorem grid_in_range i d : 0 <= i < 3 -> 0 <= d < ndarts -> 0 <= gbeta i d < ndarts.
Proof.
  intros Hi Hd. pose proof K_pos. unfold gbeta.
  destruct ((1 <=? d) && (d <? ndarts)) eqn:E; [|unfold ndarts; nia].
  apply andb_true_iff in E as [E1 E2]. apply Z.leb_le in E1. apply Z.ltb_lt in E2.
  destruct (decode d ltac:(lia)) as (Hk & Hx & Hy & _).
  pose proof (spec_at _ Hk) as Sp. unfold spec_row, spec_b2.
  destruct (cnb S (dk d)) as [[dx dy] k'] eqn:En. destruct Sp as (A & B & _ & _ & C & _).
  assert (Hc : i = 0 \/ i = 1 \/ i = 2) by lia.
  destruct Hc as [->|[->| ->]]; nthz.
  - pose proof (did_range _ _ _ Hx Hy A). lia.
  - pose proof (did_range _ _ _ Hx Hy B). lia.
  - destruct (in_grid nx ny (dix d + dx) (diy d + dy)) eqn:Eg; [|unfold ndarts; nia].
    apply in_grid_spec in Eg as [G1 G2]. pose proof (did_range _ _ _ G1 G2 C). lia.
Qed.

Theorem grid_b1_then_b0 d : 1 <= d < ndarts -> gbeta 0 (gbeta 1 d) = d /\ gbeta 1 d <> 0.
Proof.
  intros Hd. destruct (decode d Hd) as (Hk & Hx & Hy & Ed).
  pose proof (spec_at _ Hk) as Sp. destruct (cnb S (dk d)) as [[dx dy] k']. destruct Sp as (A & B & C & D & _).
  rewrite Ed at 1 3. rewrite (gbeta_at _ _ _ 1 Hx Hy Hk). nthz.
  rewrite (gbeta_at _ _ _ 0 Hx Hy B). nthz. rewrite C.
  split; [symmetry; exact Ed|]. pose proof (did_range _ _ _ Hx Hy B). lia.
Qed.

Theorem grid_b0_then_b1 d : 1 <= d < ndarts -> gbeta 1 (gbeta 0 d) = d /\ gbeta 0 d <> 0.
Proof.
  intros Hd. destruct (decode d Hd) as (Hk & Hx & Hy & Ed).
  pose proof (spec_at _ Hk) as Sp. destruct (cnb S (dk d)) as [[dx dy] k']. destruct Sp as (A & B & C & D & _).
  rewrite Ed at 1 3. rewrite (gbeta_at _ _ _ 0 Hx Hy Hk). nthz.
  rewrite (gbeta_at _ _ _ 1 Hx Hy A). nthz. rewrite D.
  split; [symmetry; exact Ed|]. pose proof (did_range _ _ _ Hx Hy A). lia.
Qed.

Theorem grid_b2_invol d : 1 <= d < ndarts -> gbeta 2 d <> 0 ->
  gbeta 2 (gbeta 2 d) = d /\ gbeta 2 d <> d.
Proof.
  intros Hd Hne. destruct (decode d Hd) as (Hk & Hx & Hy & Ed).
  pose proof (spec_at _ Hk) as Sp.
  assert (E2 : gbeta 2 d = spec_b2 S nx ny (dix d) (diy d) (dk d)).
  { rewrite Ed at 1. rewrite (gbeta_at _ _ _ 2 Hx Hy Hk). reflexivity. }
  rewrite E2 in *. unfold spec_b2 in *.
  destruct (cnb S (dk d)) as [[dx dy] k'] eqn:En. destruct Sp as (_ & _ & _ & _ & C & Hdx & Hdy & Eback & Hnf).
  destruct (in_grid nx ny (dix d + dx) (diy d + dy)) eqn:Eg; [|congruence].
  apply in_grid_spec in Eg as [G1 G2].
  rewrite (gbeta_at _ _ _ 2 G1 G2 C). nthz. unfold spec_b2. rewrite Eback.
  replace (dix d + dx + - dx) with (dix d) by ring. replace (diy d + dy + - dy) with (diy d) by ring.
  replace (in_grid nx ny (dix d) (diy d)) with true by (symmetry; apply in_grid_spec; lia).
  split; [symmetry; exact Ed|].
  intros Heq.
  destruct (did_decode _ _ _ G1 G2 C) as (K1 & K2 & K3).
  rewrite Heq in K1, K2, K3.
  apply Hnf. repeat split; lia.
Qed.

(** ** cells: the darts of cell (ix, iy) are closed under beta1; faces are the cycles of l1 *)
Theorem grid_b1_same_cell d : 1 <= d < ndarts -> dix (gbeta 1 d) = dix d /\ diy (gbeta 1 d) = diy d.
Proof.
  intros Hd. destruct (decode d Hd) as (Hk & Hx & Hy & Ed).
  pose proof (spec_at _ Hk) as Sp. destruct (cnb S (dk d)) as [[dx dy] k']. destruct Sp as (A & B & _).
  rewrite Ed at 1 3. rewrite (gbeta_at _ _ _ 1 Hx Hy Hk). nthz.
  destruct (did_decode _ _ _ Hx Hy B) as (_ & -> & ->). auto.
Qed.

(** neighbours are glued exactly along shared sides; the rim is free *)
Theorem grid_b2_neighbour d : 1 <= d < ndarts ->
  let '(dx, dy, k') := cnb S (dk d) in
  if in_grid nx ny (dix d + dx) (diy d + dy)
  then gbeta 2 d = did (cK S) nx (dix d + dx) (diy d + dy) k'
  else gbeta 2 d = 0.
Proof.
  intros Hd. destruct (decode d Hd) as (Hk & Hx & Hy & Ed).
  assert (E2 : gbeta 2 d = spec_b2 S nx ny (dix d) (diy d) (dk d)).
  { rewrite Ed at 1. rewrite (gbeta_at _ _ _ 2 Hx Hy Hk). reflexivity. }
  unfold spec_b2 in E2. destruct (cnb S (dk d)) as [[dx dy] k'].
  destruct (in_grid nx ny (dix d + dx) (diy d + dy)); exact E2.
Qed.
End Map.

(** ** the two 2D instances *)
Definition sq_spec : cellspec :=
  {| cK := 4;
     cl0 := fun k => match k with 0 => 3 | 1 => 0 | 2 => 1 | _ => 2 end;
     cl1 := fun k => match k with 0 => 1 | 1 => 2 | 2 => 3 | _ => 0 end;
     cnb := fun k => match k with 0 => (0, -1, 2) | 1 => (1, 0, 3) | 2 => (0, 1, 0) | _ => (-1, 0, 1) end |}.

Definition tri_spec : cellspec :=
  {| cK := 6;
     cl0 := fun k => match k with 0 => 2 | 1 => 0 | 2 => 1 | 3 => 5 | 4 => 3 | _ => 4 end;
     cl1 := fun k => match k with 0 => 1 | 1 => 2 | 2 => 0 | 3 => 4 | 4 => 5 | _ => 3 end;
     cnb := fun k => match k with
                     | 0 => (0, -1, 5) | 1 => (0, 0, 3) | 2 => (-1, 0, 4)
                     | 3 => (0, 0, 1) | 4 => (1, 0, 2) | _ => (0, 1, 0) end |}.

Lemma sq_spec_ok : spec_ok sq_spec = true. Proof. vm_compute. reflexivity. Qed.
Lemma tri_spec_ok : spec_ok tri_spec = true. Proof. vm_compute. reflexivity. Qed.

(** the tables generated from grid.rs ARE these specifications, for all sizes and cells *)
Section Match.
Variables nx ny ix iy : Z.
Hypothesis Hx : 0 <= ix < nx.
Hypothesis Hy : 0 <= iy < ny.

Lemma ig_same : in_grid nx ny (ix + 0) (iy + 0) = true.
Proof. apply in_grid_spec; lia. Qed.
Lemma ig_down : in_grid nx ny (ix + 0) (iy + -1) = negb (iy =? 0).
Proof. unfold in_grid. destruct (Z.eqb_spec iy 0); cbn [negb]; lia. Qed.
Lemma ig_up : in_grid nx ny (ix + 0) (iy + 1) = negb (iy =? ny - 1).
Proof. unfold in_grid. destruct (Z.eqb_spec iy (ny - 1)); cbn [negb]; lia. Qed.
Lemma ig_right : in_grid nx ny (ix + 1) (iy + 0) = negb (ix =? nx - 1).
Proof. unfold in_grid. destruct (Z.eqb_spec ix (nx - 1)); cbn [negb]; lia. Qed.
Lemma ig_left : in_grid nx ny (ix + -1) (iy + 0) = negb (ix =? 0).
Proof. unfold in_grid. destruct (Z.eqb_spec ix 0); cbn [negb]; lia. Qed.

Ltac rows :=
  unfold spec_row, spec_b2; cbn [cK cl0 cl1 cnb];
  rewrite ?ig_same, ?ig_down, ?ig_up, ?ig_right, ?ig_left; unfold did;
  repeat match goal with
  | |- context [if ?a =? ?b then _ else _] => destruct (Z.eqb_spec a b); cbn [negb]
  end;
  repeat (f_equal; try ring).

Theorem gen_square_rows_spec :
  gen_square_rows nx ny ix iy = map (spec_row sq_spec nx ny ix iy) [0; 1; 2; 3].
Proof. unfold gen_square_rows. cbn [map]. unfold sq_spec. rows. Qed.

Theorem gen_tris_rows_spec :
  gen_tris_rows nx ny ix iy = map (spec_row tri_spec nx ny ix iy) [0; 1; 2; 3; 4; 5].
Proof. unfold gen_tris_rows. cbn [map]. unfold tri_spec. rows. Qed.
End Match.
