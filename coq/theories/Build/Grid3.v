(** * C12 (3D): the hexahedral grid builder produces a well-formed 3-map, mirrored faces included, for every size.

    A 3D cell-structured map: K darts per cell, dart (ix, iy, iz, k) has identifier
    1 + K * (ix + nx * iy + nx * ny * iz) + k; beta0 / beta1 / beta2 stay inside the cell (local tables);
    beta3 goes to the neighbour cell given by the table nb (dx, dy, dz, k') or is null on the rim.
    The table generated from grid.rs (GenGrid.gen_hex_rows) is proved to be an instance, for all sizes. *)
From Coq Require Import ZArith List Lia Bool.
From HC Require Import Build.GenGrid.
Import ListNotations.
Open Scope Z_scope.

Record cellspec3 := {
  c3K : Z;
  c3l0 : Z -> Z; c3l1 : Z -> Z; c3l2 : Z -> Z;   (* local beta0 / beta1 / beta2 on 0..K-1 *)
  c3nb : Z -> Z * Z * Z * Z                      (* beta3: (dx, dy, dz, k') *)
}.

Definition did3 (K nx ny ix iy iz k : Z) : Z := 1 + K * (ix + nx * iy + nx * ny * iz) + k.
Definition in_grid3 (nx ny nz ix iy iz : Z) : bool :=
  (0 <=? ix) && (ix <? nx) && (0 <=? iy) && (iy <? ny) && (0 <=? iz) && (iz <? nz).

Definition spec_b3 (S : cellspec3) (nx ny nz ix iy iz k : Z) : Z :=
  let '(dx, dy, dz, k') := c3nb S k in
  if in_grid3 nx ny nz (ix + dx) (iy + dy) (iz + dz) then did3 (c3K S) nx ny (ix + dx) (iy + dy) (iz + dz) k' else 0.

Definition spec_row3 (S : cellspec3) (nx ny nz ix iy iz k : Z) : list Z :=
  [did3 (c3K S) nx ny ix iy iz (c3l0 S k); did3 (c3K S) nx ny ix iy iz (c3l1 S k);
   did3 (c3K S) nx ny ix iy iz (c3l2 S k); spec_b3 S nx ny nz ix iy iz k].

Definition ks3 (S : cellspec3) : list Z := map Z.of_nat (seq 0 (Z.to_nat (c3K S))).
Definition inK (S : cellspec3) (k : Z) : bool := (0 <=? k) && (k <? c3K S).
(** the finite facts (checked by computation per instance); the last one is the mirror clause: the darts of
    a face all look at the same neighbour cell, and the successor's image precedes the image *)
Definition spec3_ok (S : cellspec3) : bool :=
  (0 <? c3K S) &&
  forallb (fun k =>
    let '(dx, dy, dz, k') := c3nb S k in
    inK S (c3l0 S k) && inK S (c3l1 S k) && inK S (c3l2 S k) && inK S k' &&
    (c3l0 S (c3l1 S k) =? k) && (c3l1 S (c3l0 S k) =? k) &&
    (c3l2 S (c3l2 S k) =? k) && negb (c3l2 S k =? k) &&
    (-1 <=? dx) && (dx <=? 1) && (-1 <=? dy) && (dy <=? 1) && (-1 <=? dz) && (dz <=? 1) &&
    (let '(ex, ey, ez, k'') := c3nb S k' in (ex =? - dx) && (ey =? - dy) && (ez =? - dz) && (k'' =? k)) &&
    negb ((dx =? 0) && (dy =? 0) && (dz =? 0)) &&
    (let '(fx, fy, fz, t') := c3nb S (c3l1 S k) in (fx =? dx) && (fy =? dy) && (fz =? dz) && (c3l1 S t' =? k')))
  (ks3 S).

Lemma in_ks3 S k : In k (ks3 S) <-> 0 <= k < c3K S.
Proof.
  unfold ks3. rewrite in_map_iff. split.
  - intros (j & <- & Hj). apply in_seq in Hj. lia.
  - intros Hk. exists (Z.to_nat k). split; [lia|]. apply in_seq. lia.
Qed.

Ltac nthz3 := change (Z.to_nat 0) with 0%nat; change (Z.to_nat 1) with 1%nat; change (Z.to_nat 2) with 2%nat;
  change (Z.to_nat 3) with 3%nat; cbn [nth spec_row3].

Section Map3.
Variable S : cellspec3.
Variables nx ny nz : Z.
Hypothesis Hok : spec3_ok S = true.
Hypothesis Hnx : 0 < nx.
Hypothesis Hny : 0 < ny.
Hypothesis Hnz : 0 < nz.

Definition ndarts3 : Z := c3K S * nx * ny * nz + 1.
Definition ek (d : Z) : Z := (d - 1) mod c3K S.
Definition ec (d : Z) : Z := (d - 1) / c3K S.
Definition eix (d : Z) : Z := ec d mod nx.
Definition eiy (d : Z) : Z := (ec d / nx) mod ny.
Definition eiz (d : Z) : Z := ec d / nx / ny.

Definition gbeta3 (i d : Z) : Z :=
  if (1 <=? d) && (d <? ndarts3) then nth (Z.to_nat i) (spec_row3 S nx ny nz (eix d) (eiy d) (eiz d) (ek d)) 0 else 0.

Lemma K3_pos : 0 < c3K S.
Proof. unfold spec3_ok in Hok. apply andb_true_iff in Hok as [H _]. lia. Qed.

Lemma inK_spec k : inK S k = true <-> 0 <= k < c3K S.
Proof. unfold inK. rewrite andb_true_iff, Z.leb_le, Z.ltb_lt. tauto. Qed.

Lemma spec3_at k : 0 <= k < c3K S ->
  let '(dx, dy, dz, k') := c3nb S k in
  0 <= c3l0 S k < c3K S /\ 0 <= c3l1 S k < c3K S /\ 0 <= c3l2 S k < c3K S /\ 0 <= k' < c3K S /\
  c3l0 S (c3l1 S k) = k /\ c3l1 S (c3l0 S k) = k /\ c3l2 S (c3l2 S k) = k /\ c3l2 S k <> k /\
  -1 <= dx <= 1 /\ -1 <= dy <= 1 /\ -1 <= dz <= 1 /\
  c3nb S k' = (- dx, - dy, - dz, k) /\ ~ (dx = 0 /\ dy = 0 /\ dz = 0) /\
  exists t', c3nb S (c3l1 S k) = (dx, dy, dz, t') /\ c3l1 S t' = k'.
Proof.
  intros Hk. unfold spec3_ok in Hok. apply andb_true_iff in Hok as [_ H].
  rewrite forallb_forall in H. specialize (H k (proj2 (in_ks3 S k) Hk)).
  destruct (c3nb S k) as [[[dx dy] dz] k'] eqn:E.
  destruct (c3nb S k') as [[[ex ey] ez] k''] eqn:E'.
  destruct (c3nb S (c3l1 S k)) as [[[fx fy] fz] t'] eqn:E''.
  repeat (apply andb_true_iff in H as [H ?]).
  repeat match goal with H : negb _ = true |- _ => apply negb_true_iff in H end.
  repeat match goal with H : inK S _ = true |- _ => apply inK_spec in H end.
  assert (ex = - dx /\ ey = - dy /\ ez = - dz /\ k'' = k) as (-> & -> & -> & ->) by lia.
  assert (fx = dx /\ fy = dy /\ fz = dz) as (-> & -> & ->) by lia.
  repeat split; try lia. exists t'. split; [reflexivity|lia].
Qed.

Lemma decode3 d : 1 <= d < ndarts3 ->
  0 <= ek d < c3K S /\ 0 <= eix d < nx /\ 0 <= eiy d < ny /\ 0 <= eiz d < nz /\
  d = did3 (c3K S) nx ny (eix d) (eiy d) (eiz d) (ek d).
Proof.
  intros Hd. pose proof K3_pos as HK. unfold ndarts3, ek, eix, eiy, eiz, ec, did3 in *.
  set (c := (d - 1) / c3K S). set (r := c / nx).
  assert (Hc : 0 <= c < nx * ny * nz).
  { unfold c. split; [apply Z.div_pos; lia|]. apply Z.div_lt_upper_bound; [lia|]. nia. }
  assert (Hr : 0 <= r < ny * nz).
  { unfold r. split; [apply Z.div_pos; lia|]. apply Z.div_lt_upper_bound; [lia|]. nia. }
  assert (Hz : 0 <= r / ny < nz).
  { split; [apply Z.div_pos; lia|]. apply Z.div_lt_upper_bound; [lia|]. nia. }
  pose proof (Z.mod_pos_bound (d - 1) (c3K S) HK).
  pose proof (Z.mod_pos_bound c nx Hnx). pose proof (Z.mod_pos_bound r ny Hny).
  repeat split; try lia.
  pose proof (Z.div_mod (d - 1) (c3K S) ltac:(lia)) as D1. fold c in D1.
  pose proof (Z.div_mod c nx ltac:(lia)) as D2. fold r in D2.
  pose proof (Z.div_mod r ny ltac:(lia)) as D3.
  assert (Ec : c = c mod nx + nx * (r mod ny) + nx * ny * (r / ny)) by nia.
  rewrite <- Ec. lia.
Qed.

Lemma cell_bound ix iy iz : 0 <= ix < nx -> 0 <= iy < ny -> 0 <= iz < nz ->
  0 <= ix + nx * iy + nx * ny * iz <= nx * ny * nz - 1.
Proof.
  intros Hx Hy Hz.
  assert (A : 0 <= nx * iy) by nia. assert (B : 0 <= nx * ny * iz) by nia.
  assert (C : nx * iy <= nx * (ny - 1)) by nia.
  assert (D : nx * ny * iz <= nx * ny * (nz - 1)) by (apply Z.mul_le_mono_nonneg_l; nia).
  nia.
Qed.

Lemma did3_range ix iy iz k : 0 <= ix < nx -> 0 <= iy < ny -> 0 <= iz < nz -> 0 <= k < c3K S ->
  1 <= did3 (c3K S) nx ny ix iy iz k < ndarts3.
Proof.
  intros Hx Hy Hz Hk. unfold did3, ndarts3. pose proof (cell_bound ix iy iz Hx Hy Hz) as [A B].
  assert (C : c3K S * (ix + nx * iy + nx * ny * iz) <= c3K S * (nx * ny * nz - 1)) by (apply Z.mul_le_mono_nonneg_l; lia).
  assert (D : 0 <= c3K S * (ix + nx * iy + nx * ny * iz)) by (apply Z.mul_nonneg_nonneg; lia).
  nia.
Qed.

Lemma did3_decode ix iy iz k : 0 <= ix < nx -> 0 <= iy < ny -> 0 <= iz < nz -> 0 <= k < c3K S ->
  ek (did3 (c3K S) nx ny ix iy iz k) = k /\ eix (did3 (c3K S) nx ny ix iy iz k) = ix /\
  eiy (did3 (c3K S) nx ny ix iy iz k) = iy /\ eiz (did3 (c3K S) nx ny ix iy iz k) = iz.
Proof.
  intros Hx Hy Hz Hk. pose proof K3_pos as HK. unfold ek, eix, eiy, eiz, ec, did3.
  replace (1 + c3K S * (ix + nx * iy + nx * ny * iz) + k - 1) with (k + (ix + nx * iy + nx * ny * iz) * c3K S) by ring.
  rewrite Z.mod_add, Z.div_add by lia. rewrite Z.mod_small, Z.div_small by lia.
  replace (0 + (ix + nx * iy + nx * ny * iz)) with (ix + (iy + ny * iz) * nx) by ring.
  rewrite Z.mod_add, Z.div_add by lia. rewrite Z.mod_small, Z.div_small by lia.
  replace (0 + (iy + ny * iz)) with (iy + iz * ny) by ring.
  rewrite Z.mod_add, Z.div_add by lia. rewrite Z.mod_small, Z.div_small by lia. lia.
Qed.

Lemma gbeta3_at ix iy iz k i : 0 <= ix < nx -> 0 <= iy < ny -> 0 <= iz < nz -> 0 <= k < c3K S ->
  gbeta3 i (did3 (c3K S) nx ny ix iy iz k) = nth (Z.to_nat i) (spec_row3 S nx ny nz ix iy iz k) 0.
Proof.
  intros Hx Hy Hz Hk. unfold gbeta3. pose proof (did3_range ix iy iz k Hx Hy Hz Hk).
  destruct (did3_decode ix iy iz k Hx Hy Hz Hk) as (-> & -> & -> & ->).
  replace ((1 <=? did3 (c3K S) nx ny ix iy iz k) && (did3 (c3K S) nx ny ix iy iz k <? ndarts3)) with true; [reflexivity|].
  symmetry. apply andb_true_iff. split; [apply Z.leb_le|apply Z.ltb_lt]; lia.
Qed.

Lemma in_grid3_spec ix iy iz : in_grid3 nx ny nz ix iy iz = true <-> 0 <= ix < nx /\ 0 <= iy < ny /\ 0 <= iz < nz.
Proof. unfold in_grid3. rewrite !andb_true_iff, !Z.leb_le, !Z.ltb_lt. lia. Qed.

(** ** well-formedness of the 3-map, for every size *)
Theorem grid3_null_inert i : gbeta3 i 0 = 0.
Proof. unfold gbeta3. cbn. reflexivity. Qed.

Theorem grid3_in_range i d : 0 <= i < 4 -> 0 <= d < ndarts3 -> 0 <= gbeta3 i d < ndarts3.
Proof.
  intros Hi Hd. pose proof K3_pos. unfold gbeta3.
  assert (Hpos : 0 < ndarts3) by (unfold ndarts3; nia).
  destruct ((1 <=? d) && (d <? ndarts3)) eqn:E; [|lia].
  apply andb_true_iff in E as [E1 E2]. apply Z.leb_le in E1. apply Z.ltb_lt in E2.
  destruct (decode3 d ltac:(lia)) as (Hk & Hx & Hy & Hz & _).
  pose proof (spec3_at _ Hk) as Sp. unfold spec_row3, spec_b3.
  destruct (c3nb S (ek d)) as [[[dx dy] dz] k'] eqn:En. destruct Sp as (A & B & C & D & _).
  assert (Hc : i = 0 \/ i = 1 \/ i = 2 \/ i = 3) by lia.
  destruct Hc as [->|[->|[->| ->]]]; nthz3.
  - pose proof (did3_range _ _ _ _ Hx Hy Hz A). lia.
  - pose proof (did3_range _ _ _ _ Hx Hy Hz B). lia.
  - pose proof (did3_range _ _ _ _ Hx Hy Hz C). lia.
  - destruct (in_grid3 nx ny nz (eix d + dx) (eiy d + dy) (eiz d + dz)) eqn:Eg; [|lia].
    apply in_grid3_spec in Eg as (G1 & G2 & G3). pose proof (did3_range _ _ _ _ G1 G2 G3 D). lia.
Qed.

Theorem grid3_b1_then_b0 d : 1 <= d < ndarts3 -> gbeta3 0 (gbeta3 1 d) = d /\ gbeta3 1 d <> 0.
Proof.
  intros Hd. destruct (decode3 d Hd) as (Hk & Hx & Hy & Hz & Ed).
  pose proof (spec3_at _ Hk) as Sp. destruct (c3nb S (ek d)) as [[[dx dy] dz] k']. destruct Sp as (A & B & _ & _ & C & D & _).
  rewrite Ed at 1 3. rewrite (gbeta3_at _ _ _ _ 1 Hx Hy Hz Hk). nthz3.
  rewrite (gbeta3_at _ _ _ _ 0 Hx Hy Hz B). nthz3. rewrite C.
  split; [symmetry; exact Ed|]. pose proof (did3_range _ _ _ _ Hx Hy Hz B). lia.
Qed.

Theorem grid3_b0_then_b1 d : 1 <= d < ndarts3 -> gbeta3 1 (gbeta3 0 d) = d /\ gbeta3 0 d <> 0.
Proof.
  intros Hd. destruct (decode3 d Hd) as (Hk & Hx & Hy & Hz & Ed).
  pose proof (spec3_at _ Hk) as Sp. destruct (c3nb S (ek d)) as [[[dx dy] dz] k']. destruct Sp as (A & B & _ & _ & C & D & _).
  rewrite Ed at 1 3. rewrite (gbeta3_at _ _ _ _ 0 Hx Hy Hz Hk). nthz3.
  rewrite (gbeta3_at _ _ _ _ 1 Hx Hy Hz A). nthz3. rewrite D.
  split; [symmetry; exact Ed|]. pose proof (did3_range _ _ _ _ Hx Hy Hz A). lia.
Qed.

Theorem grid3_b2_invol d : 1 <= d < ndarts3 -> gbeta3 2 (gbeta3 2 d) = d /\ gbeta3 2 d <> d /\ gbeta3 2 d <> 0.
Proof.
  intros Hd. destruct (decode3 d Hd) as (Hk & Hx & Hy & Hz & Ed).
  pose proof (spec3_at _ Hk) as Sp. destruct (c3nb S (ek d)) as [[[dx dy] dz] k'].
  destruct Sp as (_ & _ & C & _ & _ & _ & I2 & N2 & _).
  assert (E2 : gbeta3 2 d = did3 (c3K S) nx ny (eix d) (eiy d) (eiz d) (c3l2 S (ek d))).
  { rewrite Ed at 1. rewrite (gbeta3_at _ _ _ _ 2 Hx Hy Hz Hk). reflexivity. }
  pose proof (did3_range _ _ _ _ Hx Hy Hz C) as R2.
  rewrite E2. rewrite (gbeta3_at _ _ _ _ 2 Hx Hy Hz C). nthz3. rewrite I2.
  split; [symmetry; exact Ed|]. split; [|lia].
  intros Heq. destruct (did3_decode _ _ _ _ Hx Hy Hz C) as (K1 & _). rewrite Heq in K1. congruence.
Qed.

Lemma gb3_at d : 1 <= d < ndarts3 -> gbeta3 3 d = spec_b3 S nx ny nz (eix d) (eiy d) (eiz d) (ek d).
Proof.
  intros Hd. destruct (decode3 d Hd) as (Hk & Hx & Hy & Hz & Ed).
  rewrite Ed at 1. rewrite (gbeta3_at _ _ _ _ 3 Hx Hy Hz Hk). reflexivity.
Qed.

Theorem grid3_b3_invol d : 1 <= d < ndarts3 -> gbeta3 3 d <> 0 ->
  gbeta3 3 (gbeta3 3 d) = d /\ gbeta3 3 d <> d.
Proof.
  intros Hd Hne. destruct (decode3 d Hd) as (Hk & Hx & Hy & Hz & Ed).
  pose proof (spec3_at _ Hk) as Sp. rewrite (gb3_at d Hd) in *. unfold spec_b3 in *.
  destruct (c3nb S (ek d)) as [[[dx dy] dz] k'] eqn:En.
  destruct Sp as (_ & _ & _ & C & _ & _ & _ & _ & Hdx & Hdy & Hdz & Eback & Hnf & _).
  destruct (in_grid3 nx ny nz (eix d + dx) (eiy d + dy) (eiz d + dz)) eqn:Eg; [|congruence].
  apply in_grid3_spec in Eg as (G1 & G2 & G3).
  rewrite (gbeta3_at _ _ _ _ 3 G1 G2 G3 C). nthz3. unfold spec_b3. rewrite Eback.
  replace (eix d + dx + - dx) with (eix d) by ring. replace (eiy d + dy + - dy) with (eiy d) by ring.
  replace (eiz d + dz + - dz) with (eiz d) by ring.
  replace (in_grid3 nx ny nz (eix d) (eiy d) (eiz d)) with true by (symmetry; apply in_grid3_spec; lia).
  split; [symmetry; exact Ed|].
  intros Heq. destruct (did3_decode _ _ _ _ G1 G2 G3 C) as (K1 & K2 & K3 & K4).
  rewrite Heq in K1, K2, K3, K4. apply Hnf. lia.
Qed.

(** faces glued through beta3 mirror each other *)
Theorem grid3_mirror d : 1 <= d < ndarts3 ->
  gbeta3 3 d <> 0 -> gbeta3 3 (gbeta3 1 d) <> 0 -> gbeta3 1 (gbeta3 3 (gbeta3 1 d)) = gbeta3 3 d.
Proof.
  intros Hd H3d H3t. destruct (decode3 d Hd) as (Hk & Hx & Hy & Hz & Ed).
  pose proof (spec3_at _ Hk) as Sp.
  destruct (c3nb S (ek d)) as [[[dx dy] dz] k'] eqn:En.
  destruct Sp as (_ & B & _ & C & _ & _ & _ & _ & _ & _ & _ & _ & _ & (t' & Et & Lt)).
  assert (E1 : gbeta3 1 d = did3 (c3K S) nx ny (eix d) (eiy d) (eiz d) (c3l1 S (ek d))).
  { rewrite Ed at 1. rewrite (gbeta3_at _ _ _ _ 1 Hx Hy Hz Hk). reflexivity. }
  pose proof (did3_range _ _ _ _ Hx Hy Hz B) as Rt.
  rewrite (gb3_at d Hd) in *. rewrite E1 in *. rewrite (gb3_at _ Rt) in *.
  destruct (did3_decode _ _ _ _ Hx Hy Hz B) as (K1 & K2 & K3 & K4). rewrite K1, K2, K3, K4 in *.
  unfold spec_b3 in *. rewrite En, Et in *.
  destruct (in_grid3 nx ny nz (eix d + dx) (eiy d + dy) (eiz d + dz)) eqn:Eg; [|congruence].
  apply in_grid3_spec in Eg as (G1 & G2 & G3).
  pose proof (spec3_at _ B) as Sp'. rewrite Et in Sp'. destruct Sp' as (_ & _ & _ & Ct & _).
  rewrite (gbeta3_at _ _ _ _ 1 G1 G2 G3 Ct). nthz3. rewrite Lt. reflexivity.
Qed.

End Map3.

(** ** the hexahedral instance: the 24 darts of a cell, four per face; faces in the order
    y-, z-, x+, z+, x-, y+ (read off grid.rs; the theorem below re-checks every entry against the generated table) *)
Definition hex_spec : cellspec3 :=
  {| c3K := 24;
     c3l0 := fun k => match k with
       | 0 => 3 | 1 => 0 | 2 => 1 | 3 => 2 | 4 => 7 | 5 => 4 | 6 => 5 | 7 => 6
       | 8 => 11 | 9 => 8 | 10 => 9 | 11 => 10 | 12 => 15 | 13 => 12 | 14 => 13 | 15 => 14
       | 16 => 19 | 17 => 16 | 18 => 17 | 19 => 18 | 20 => 23 | 21 => 20 | 22 => 21 | _ => 22 end;
     c3l1 := fun k => match k with
       | 0 => 1 | 1 => 2 | 2 => 3 | 3 => 0 | 4 => 5 | 5 => 6 | 6 => 7 | 7 => 4
       | 8 => 9 | 9 => 10 | 10 => 11 | 11 => 8 | 12 => 13 | 13 => 14 | 14 => 15 | 15 => 12
       | 16 => 17 | 17 => 18 | 18 => 19 | 19 => 16 | 20 => 21 | 21 => 22 | 22 => 23 | _ => 20 end;
     c3l2 := fun k => match k with
       | 0 => 4 | 1 => 8 | 2 => 12 | 3 => 16 | 4 => 0 | 5 => 19 | 6 => 20 | 7 => 9
       | 8 => 1 | 9 => 7 | 10 => 23 | 11 => 13 | 12 => 2 | 13 => 11 | 14 => 22 | 15 => 17
       | 16 => 3 | 17 => 15 | 18 => 21 | 19 => 5 | 20 => 6 | 21 => 18 | 22 => 14 | _ => 10 end;
     c3nb := fun k => match k with
       | 0 => (0, -1, 0, 20) | 1 => (0, -1, 0, 23) | 2 => (0, -1, 0, 22) | 3 => (0, -1, 0, 21)
       | 4 => (0, 0, -1, 12) | 5 => (0, 0, -1, 15) | 6 => (0, 0, -1, 14) | 7 => (0, 0, -1, 13)
       | 8 => (1, 0, 0, 16) | 9 => (1, 0, 0, 19) | 10 => (1, 0, 0, 18) | 11 => (1, 0, 0, 17)
       | 12 => (0, 0, 1, 4) | 13 => (0, 0, 1, 7) | 14 => (0, 0, 1, 6) | 15 => (0, 0, 1, 5)
       | 16 => (-1, 0, 0, 8) | 17 => (-1, 0, 0, 11) | 18 => (-1, 0, 0, 10) | 19 => (-1, 0, 0, 9)
       | 20 => (0, 1, 0, 0) | 21 => (0, 1, 0, 3) | 22 => (0, 1, 0, 2) | _ => (0, 1, 0, 1) end |}.

Lemma hex_spec_ok : spec3_ok hex_spec = true. Proof. vm_compute. reflexivity. Qed.

(** the table generated from grid.rs IS this specification, for all sizes and cells *)
Section Match3.
Variables nx ny nz ix iy iz : Z.
Hypothesis Hx : 0 <= ix < nx.
Hypothesis Hy : 0 <= iy < ny.
Hypothesis Hz : 0 <= iz < nz.

Lemma ig3_ym : in_grid3 nx ny nz (ix + 0) (iy + -1) (iz + 0) = negb (iy =? 0).
Proof. unfold in_grid3. destruct (Z.eqb_spec iy 0); cbn [negb]; lia. Qed.
Lemma ig3_yp : in_grid3 nx ny nz (ix + 0) (iy + 1) (iz + 0) = negb (iy =? ny - 1).
Proof. unfold in_grid3. destruct (Z.eqb_spec iy (ny - 1)); cbn [negb]; lia. Qed.
Lemma ig3_zm : in_grid3 nx ny nz (ix + 0) (iy + 0) (iz + -1) = negb (iz =? 0).
Proof. unfold in_grid3. destruct (Z.eqb_spec iz 0); cbn [negb]; lia. Qed.
Lemma ig3_zp : in_grid3 nx ny nz (ix + 0) (iy + 0) (iz + 1) = negb (iz =? nz - 1).
Proof. unfold in_grid3. destruct (Z.eqb_spec iz (nz - 1)); cbn [negb]; lia. Qed.
Lemma ig3_xm : in_grid3 nx ny nz (ix + -1) (iy + 0) (iz + 0) = negb (ix =? 0).
Proof. unfold in_grid3. destruct (Z.eqb_spec ix 0); cbn [negb]; lia. Qed.
Lemma ig3_xp : in_grid3 nx ny nz (ix + 1) (iy + 0) (iz + 0) = negb (ix =? nx - 1).
Proof. unfold in_grid3. destruct (Z.eqb_spec ix (nx - 1)); cbn [negb]; lia. Qed.

Theorem gen_hex_rows_spec :
  gen_hex_rows nx ny nz ix iy iz =
  map (spec_row3 hex_spec nx ny nz ix iy iz) (map Z.of_nat (seq 0 24)).
Proof.
  unfold gen_hex_rows. cbn [map seq Z.of_nat Pos.of_succ_nat Pos.succ]. unfold spec_row3, spec_b3, hex_spec.
  cbn [c3K c3l0 c3l1 c3l2 c3nb].
  rewrite ?ig3_ym, ?ig3_yp, ?ig3_zm, ?ig3_zp, ?ig3_xm, ?ig3_xp. unfold did3.
  destruct (Z.eqb_spec iy 0), (Z.eqb_spec iz 0), (Z.eqb_spec ix (nx - 1)), (Z.eqb_spec iz (nz - 1)),
           (Z.eqb_spec ix 0), (Z.eqb_spec iy (ny - 1)); cbn [negb];
    repeat (f_equal; try ring).
Qed.
End Match3.

(** beta_i(d) as the 3D builder writes it: row (d-1) mod 24 of the table of cell (d-1) / 24 *)
Definition table_beta3 (nx ny nz i d : Z) : Z :=
  if (1 <=? d) && (d <? 24 * nx * ny * nz + 1) then
    let k := (d - 1) mod 24 in let c := (d - 1) / 24 in
    nth (Z.to_nat i) (nth (Z.to_nat k) (gen_hex_rows nx ny nz (c mod nx) ((c / nx) mod ny) (c / nx / ny)) []) 0
  else 0.

Lemma nth_map_ks3 {A} (f : Z -> A) (dflt : A) (K : nat) k : 0 <= k < Z.of_nat K ->
  nth (Z.to_nat k) (map f (map Z.of_nat (seq 0 K))) dflt = f k.
Proof.
  intros Hk. rewrite map_map. rewrite (nth_indep _ dflt (f (Z.of_nat 0))) by (rewrite map_length, seq_length; lia).
  rewrite (map_nth (fun j => f (Z.of_nat j)) (seq 0 K) 0%nat). rewrite seq_nth by lia. f_equal. lia.
Qed.

Theorem hex_table_is_spec nx ny nz i d : 0 < nx -> 0 < ny -> 0 < nz ->
  table_beta3 nx ny nz i d = gbeta3 hex_spec nx ny nz i d.
Proof.
  intros Hnx Hny Hnz. unfold table_beta3, gbeta3, ndarts3. cbn [c3K hex_spec].
  destruct ((1 <=? d) && (d <? 24 * nx * ny * nz + 1)) eqn:E; [|reflexivity].
  apply andb_true_iff in E as [E1 E2]. apply Z.leb_le in E1. apply Z.ltb_lt in E2.
  destruct (decode3 hex_spec nx ny nz hex_spec_ok Hnx Hny Hnz d) as (Hk & Hx & Hy & Hz & _);
    [unfold ndarts3; cbn [c3K hex_spec]; lia|].
  unfold ek, eix, eiy, eiz, ec in *. cbn [c3K hex_spec] in *.
  rewrite (gen_hex_rows_spec nx ny nz _ _ _ Hx Hy Hz).
  rewrite nth_map_ks3 by (cbn; lia). reflexivity.
Qed.

(** ** the 3-map the builder writes is well formed (clauses of wf3 on integers), for every size *)
Record wfZ3 (n : Z) (b : Z -> Z -> Z) : Prop := {
  z3_null : forall i, b i 0 = 0;
  z3_range : forall i d, 0 <= i < 4 -> 0 <= d < n -> 0 <= b i d < n;
  z3_b1b0 : forall d, 1 <= d < n -> b 0 (b 1 d) = d /\ b 1 d <> 0;
  z3_b0b1 : forall d, 1 <= d < n -> b 1 (b 0 d) = d /\ b 0 d <> 0;
  z3_b2 : forall d, 1 <= d < n -> b 2 (b 2 d) = d /\ b 2 d <> d /\ b 2 d <> 0;
  z3_b3 : forall d, 1 <= d < n -> b 3 d <> 0 -> b 3 (b 3 d) = d /\ b 3 d <> d;
  z3_mirror : forall d, 1 <= d < n -> b 3 d <> 0 -> b 3 (b 1 d) <> 0 -> b 1 (b 3 (b 1 d)) = b 3 d }.

Lemma wfZ3_ext n b b' : (forall i d, b' i d = b i d) -> wfZ3 n b -> wfZ3 n b'.
Proof. intros E [A B C D F G M]. constructor; intros; rewrite ?E in *; auto. Qed.

Theorem hex_grid_wf nx ny nz : 0 < nx -> 0 < ny -> 0 < nz ->
  wfZ3 (24 * nx * ny * nz + 1) (table_beta3 nx ny nz).
Proof.
  intros Hnx Hny Hnz. eapply wfZ3_ext; [intros; apply hex_table_is_spec; assumption|].
  pose proof hex_spec_ok as Hok.
  change (24 * nx * ny * nz + 1) with (ndarts3 hex_spec nx ny nz).
  constructor.
  - intros i. apply grid3_null_inert.
  - intros i d. apply grid3_in_range; assumption.
  - intros d. apply grid3_b1_then_b0; assumption.
  - intros d. apply grid3_b0_then_b1; assumption.
  - intros d. apply grid3_b2_invol; assumption.
  - intros d. apply grid3_b3_invol; assumption.
  - intros d. apply grid3_mirror; assumption.
Qed.

(** every face of a cell is a quadrilateral, every dart is 2-sewn inside its cell (closed hexahedra) *)
Lemma hex_faces_are_quads :
  forallb (fun k => c3l1 hex_spec (c3l1 hex_spec (c3l1 hex_spec (c3l1 hex_spec k))) =? k) (ks3 hex_spec) = true /\
  forallb (fun k => negb (c3l1 hex_spec (c3l1 hex_spec k) =? k)) (ks3 hex_spec) = true.
Proof. split; vm_compute; reflexivity. Qed.
