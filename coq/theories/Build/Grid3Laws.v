(** * C12 (3D, partial): finite facts on the translated tables of the hexahedral builder. *)
From Coq Require Import ZArith List Lia Bool.
From HC Require Import Build.GenGrid.
Import ListNotations.
Open Scope Z_scope.

(** ** 3D: the corner table of generate_hex_offset (translated) is well-formed: component i of
    the offset uses the i-th cell index and the i-th cell length, shifted by 0 or 1, and the
    24 local darts of a hexahedron cover its 8 corners three times each. *)
Definition hex_corner_ok (p : Z) : bool :=
  match gen_hex_corner p with
  | Some ((0, a, 0), (1, b, 1), (2, c, 2)) => ((a =? 0) || (a =? 1)) && ((b =? 0) || (b =? 1)) && ((c =? 0) || (c =? 1))
  | _ => false
  end.
Definition hex_corner_code (p : Z) : Z :=
  match gen_hex_corner p with Some ((_, a, _), (_, b, _), (_, c, _)) => a + 2 * b + 4 * c | None => -1 end.
Lemma hex_corner_table_ok :
  forallb hex_corner_ok (map Z.of_nat (seq 0 24)) = true /\
  forallb (fun c => Nat.eqb (length (filter (fun p => hex_corner_code p =? c) (map Z.of_nat (seq 0 24)))) 3)
          (map Z.of_nat (seq 0 8)) = true.
Proof. split; vm_compute; reflexivity. Qed.
