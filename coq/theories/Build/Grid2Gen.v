(** * C12 (2D): the map built from the GENERATED tables is the specified regular mesh. *)
From Coq Require Import ZArith List Lia Bool.
From HC Require Import Build.GenGrid Build.Grid2.
Import ListNotations.
Open Scope Z_scope.

(** beta_i(d) as the builder writes it: row (d-1) mod K of the table of cell (d-1) / K *)
Definition table_beta (rows : Z -> Z -> Z -> Z -> list (list Z)) (K nx ny i d : Z) : Z :=
  if (1 <=? d) && (d <? K * nx * ny + 1) then
    let k := (d - 1) mod K in let c := (d - 1) / K in
    nth (Z.to_nat i) (nth (Z.to_nat k) (rows nx ny (c mod nx) (c / nx)) []) 0
  else 0.

Lemma nth_map_ks {A} (f : Z -> A) (dflt : A) (K : nat) k : 0 <= k < Z.of_nat K ->
  nth (Z.to_nat k) (map f (map Z.of_nat (seq 0 K))) dflt = f k.
Proof.
  intros Hk. rewrite map_map. rewrite (nth_indep _ dflt (f (Z.of_nat 0))) by (rewrite map_length, seq_length; lia).
  rewrite (map_nth (fun j => f (Z.of_nat j)) (seq 0 K) 0%nat). rewrite seq_nth by lia. f_equal. lia.
Qed.

Theorem square_table_is_spec nx ny i d : 0 < nx -> 0 < ny ->
  table_beta gen_square_rows 4 nx ny i d = gbeta sq_spec nx ny i d.
Proof.
  intros Hnx Hny. unfold table_beta, gbeta, ndarts. cbn [cK sq_spec].
  destruct ((1 <=? d) && (d <? 4 * nx * ny + 1)) eqn:E; [|reflexivity].
  apply andb_true_iff in E as [E1 E2]. apply Z.leb_le in E1. apply Z.ltb_lt in E2.
  destruct (decode sq_spec nx ny sq_spec_ok Hnx Hny d) as (Hk & Hx & Hy & _); [unfold ndarts; cbn [cK sq_spec tri_spec]; lia|].
  unfold dk, dix, diy, dc in *. cbn [cK sq_spec] in *.
  rewrite (gen_square_rows_spec nx ny _ _ Hx Hy).
  change [0; 1; 2; 3] with (map Z.of_nat (seq 0 4)). rewrite nth_map_ks by lia. reflexivity.
Qed.

Theorem tris_table_is_spec nx ny i d : 0 < nx -> 0 < ny ->
  table_beta gen_tris_rows 6 nx ny i d = gbeta tri_spec nx ny i d.
Proof.
  intros Hnx Hny. unfold table_beta, gbeta, ndarts. cbn [cK tri_spec].
  destruct ((1 <=? d) && (d <? 6 * nx * ny + 1)) eqn:E; [|reflexivity].
  apply andb_true_iff in E as [E1 E2]. apply Z.leb_le in E1. apply Z.ltb_lt in E2.
  destruct (decode tri_spec nx ny tri_spec_ok Hnx Hny d) as (Hk & Hx & Hy & _); [unfold ndarts; cbn [cK sq_spec tri_spec]; lia|].
  unfold dk, dix, diy, dc in *. cbn [cK tri_spec] in *.
  rewrite (gen_tris_rows_spec nx ny _ _ Hx Hy).
  change [0; 1; 2; 3; 4; 5] with (map Z.of_nat (seq 0 6)). rewrite nth_map_ks by lia. reflexivity.
Qed.

(** ** well-formedness of what the builders write, for every size *)
Record wfZ (n : Z) (b : Z -> Z -> Z) : Prop := {
  z_null : forall i, b i 0 = 0;
  z_range : forall i d, 0 <= i < 3 -> 0 <= d < n -> 0 <= b i d < n;
  z_b1b0 : forall d, 1 <= d < n -> b 0 (b 1 d) = d /\ b 1 d <> 0;
  z_b0b1 : forall d, 1 <= d < n -> b 1 (b 0 d) = d /\ b 0 d <> 0;
  z_b2 : forall d, 1 <= d < n -> b 2 d <> 0 -> b 2 (b 2 d) = d /\ b 2 d <> d }.

Lemma spec_wfZ S nx ny : spec_ok S = true -> 0 < nx -> 0 < ny -> wfZ (ndarts S nx ny) (gbeta S nx ny).
Proof.
  intros Hok Hnx Hny. constructor.
  - intros i. apply grid_null_inert.
  - intros i d. apply grid_in_range; assumption.
  - intros d. apply grid_b1_then_b0; assumption.
  - intros d. apply grid_b0_then_b1; assumption.
  - intros d. apply grid_b2_invol; assumption.
Qed.

Lemma wfZ_ext n b b' : (forall i d, b' i d = b i d) -> wfZ n b -> wfZ n b'.
Proof. intros E [A B C D F]. constructor; intros; rewrite ?E in *; auto. Qed.

Theorem square_grid_wf nx ny : 0 < nx -> 0 < ny ->
  wfZ (4 * nx * ny + 1) (table_beta gen_square_rows 4 nx ny).
Proof.
  intros Hnx Hny. eapply wfZ_ext; [intros; apply square_table_is_spec; assumption|].
  exact (spec_wfZ sq_spec nx ny sq_spec_ok Hnx Hny).
Qed.

Theorem tris_grid_wf nx ny : 0 < nx -> 0 < ny ->
  wfZ (6 * nx * ny + 1) (table_beta gen_tris_rows 6 nx ny).
Proof.
  intros Hnx Hny. eapply wfZ_ext; [intros; apply tris_table_is_spec; assumption|].
  exact (spec_wfZ tri_spec nx ny tri_spec_ok Hnx Hny).
Qed.

(** faces: beta1 never leaves the cell and follows the local cycle(s): one quadrilateral
    (0 1 2 3) per cell, resp. the two triangles (0 1 2) and (3 4 5) *)
Lemma sq_face_cycle : map (cl1 sq_spec) [0; 1; 2; 3] = [1; 2; 3; 0]. Proof. reflexivity. Qed.
Lemma tri_face_cycles : map (cl1 tri_spec) [0; 1; 2; 3; 4; 5] = [1; 2; 0; 4; 5; 3]. Proof. reflexivity. Qed.

