(** * Generic facts about [prog] and [run]: bind, frames, Hoare triples. *)
From Coq Require Import List NArith Bool Lia.
From HC Require Import Stm.Prog.
Import ListNotations.
Open Scope N_scope.

Lemma var_eqb_spec a b : reflect (a = b) (var_eqb a b).
Proof.
  destruct a, b; cbn; try (constructor; congruence).
  - destruct (N.eqb_spec i i0), (N.eqb_spec d d0); cbn; constructor; congruence.
  - destruct (N.eqb_spec d d0); constructor; congruence.
  - destruct (N.eqb_spec d d0); constructor; congruence.
  - destruct (N.eqb_spec k k0), (N.eqb_spec d d0); cbn; constructor; congruence.
Qed.

Section Facts.
Context `{Sig}.

Lemma upd_same s v x : upd s v x v = x.
Proof. unfold upd. destruct (var_eqb_spec v v); congruence. Qed.

Lemma upd_other s v x w : w <> v -> upd s v x w = s w.
Proof. unfold upd. destruct (var_eqb_spec w v); congruence. Qed.

(** ** bind *)
Lemma run_bind {X Y} E (p : prog X) (f : X -> prog Y) c w cnt :
  run E (bind p f) c w cnt =
  match run E p c w cnt with
  | (Done x, w', cnt') => run E (f x) c w' cnt'
  | (Failed e, w', cnt') => (Failed e, w', cnt')
  | (Retried, w', cnt') => (Retried, w', cnt')
  | (Panicked q, w', cnt') => (Panicked q, w', cnt')
  end.
Proof.
  revert w cnt. induction p as [x|v k IH|v x k IH|v k IH|k IH|e| |q]; intros w cnt; cbn;
    try reflexivity.
  - destruct (e_dom E v); [apply IH | reflexivity].
  - destruct (e_dom E v); [apply IH | reflexivity].
  - destruct (e_dom E v); [apply IH | reflexivity].
  - apply IH.
Qed.

Lemma bind_assoc {X Y Z} (p : prog X) (f : X -> prog Y) (g : Y -> prog Z) :
  forall E c w cnt, run E (bind (bind p f) g) c w cnt = run E (bind p (fun x => bind (f x) g)) c w cnt.
Proof.
  intros E c w cnt. rewrite !run_bind.
  destruct (run E p c w cnt) as [[[x|e| |q] w'] cnt']; try reflexivity.
  now rewrite run_bind.
Qed.

(** ** frames: all writes of [p] target variables in [S] *)
Fixpoint writes_in {X} (S : var -> Prop) (p : prog X) : Prop :=
  match p with
  | Ret _ | Fail _ | Retry | Panic _ => True
  | Rd _ k | RdAtomic _ k => forall a, writes_in S (k a)
  | Wr v _ k => S v /\ writes_in S k
  | Tick k => forall b, writes_in S (k b)
  end.

Lemma writes_in_bind {X Y} S (p : prog X) (f : X -> prog Y) :
  writes_in S p -> (forall x, writes_in S (f x)) -> writes_in S (bind p f).
Proof.
  intros Hp Hf. induction p as [x|v k IH|v x k IH|v k IH|k IH|e| |q]; cbn in *; auto.
  destruct Hp; split; auto.
Qed.

Lemma writes_in_weaken {X} (S T : var -> Prop) (p : prog X) :
  (forall v, S v -> T v) -> writes_in S p -> writes_in T p.
Proof.
  intros HST. induction p as [x|v k IH|v x k IH|v k IH|k IH|e| |q]; cbn; auto.
  intros [? ?]; split; auto.
Qed.

Lemma writes_in_run {X} S E (p : prog X) c w cnt o w' cnt' :
  writes_in S p -> run E p c w cnt = (o, w', cnt') -> forall v, ~ S v -> w' v = w v.
Proof.
  revert w cnt. induction p as [x|v k IH|v x k IH|v k IH|k IH|e| |q]; cbn; intros w cnt Hw Hr u Hu;
    try (injection Hr as <- <- <-; reflexivity).
  - destruct (e_dom E v); [eapply IH; eauto | injection Hr as <- <- <-; reflexivity].
  - destruct Hw as [Hv Hk]. destruct (e_dom E v); [| injection Hr as <- <- <-; reflexivity].
    rewrite (IH _ _ Hk Hr u Hu). apply upd_other. intros ->. contradiction.
  - destruct (e_dom E v); [eapply IH; eauto | injection Hr as <- <- <-; reflexivity].
  - eapply IH; eauto.
Qed.

Definition readonly {X} (p : prog X) : Prop := writes_in (fun _ => False) p.

Lemma readonly_run {X} E (p : prog X) c w cnt o w' cnt' :
  readonly p -> run E p c w cnt = (o, w', cnt') -> forall v, w' v = w v.
Proof. intros Hp Hr v. eapply writes_in_run; eauto. Qed.

(** writes never leave the domain *)
Lemma run_dom {X} E (p : prog X) c w cnt o w' cnt' :
  run E p c w cnt = (o, w', cnt') -> forall v, e_dom E v = false -> w' v = w v.
Proof.
  revert w cnt. induction p as [x|v k IH|v x k IH|v k IH|k IH|e| |q]; cbn; intros w cnt Hr u Hu;
    try (injection Hr as <- <- <-; reflexivity).
  - destruct (e_dom E v); [eapply IH; eauto | injection Hr as <- <- <-; reflexivity].
  - destruct (e_dom E v) eqn:Ev; [| injection Hr as <- <- <-; reflexivity].
    rewrite (IH _ _ Hr u Hu). apply upd_other. intros ->. congruence.
  - destruct (e_dom E v); [eapply IH; eauto | injection Hr as <- <- <-; reflexivity].
  - eapply IH; eauto.
Qed.

(** ** Hoare triples over views.  [Qd] after normal termination, [Qf] after [Failed].
    [Retried]/[Panicked] attempts are dropped by [atomically]: nothing is required. *)
Definition triple {X} (E : env) (P : store -> Prop) (p : prog X)
           (Qd : X -> store -> Prop) (Qf : store -> Prop) : Prop :=
  forall c w cnt o w' cnt', P w -> run E p c w cnt = (o, w', cnt') ->
    match o with Done x => Qd x w' | Failed _ => Qf w' | _ => True end.

Lemma triple_bind {X Y} E P (p : prog X) (f : X -> prog Y) Qm Qd Qf :
  triple E P p Qm Qf -> (forall x, triple E (Qm x) (f x) Qd Qf) -> triple E P (bind p f) Qd Qf.
Proof.
  intros Hp Hf c w cnt o w' cnt' HP Hr. rewrite run_bind in Hr.
  destruct (run E p c w cnt) as [[[x|e| |q] w1] cnt1] eqn:Ep;
    pose proof (Hp _ _ _ _ _ _ HP Ep) as H1; cbn in H1.
  - eapply Hf; eauto.
  - injection Hr as <- <- <-. exact H1.
  - injection Hr as <- <- <-. exact I.
  - injection Hr as <- <- <-. exact I.
Qed.

Lemma triple_conseq {X} E (P P' : store -> Prop) (p : prog X) (Qd Qd' : X -> store -> Prop) (Qf Qf' : store -> Prop) :
  (forall w, P' w -> P w) -> (forall x w, Qd x w -> Qd' x w) -> (forall w, Qf w -> Qf' w) ->
  triple E P p Qd Qf -> triple E P' p Qd' Qf'.
Proof.
  intros HP HQd HQf Ht c w cnt o w' cnt' HP' Hr.
  specialize (Ht c w cnt o w' cnt' (HP _ HP') Hr). destruct o; auto.
Qed.

Lemma triple_ret {X} E (P : store -> Prop) (x : X) Qf : triple E P (Ret x) (fun y w => y = x /\ P w) Qf.
Proof. intros c w cnt o w' cnt' HP Hr. cbn in Hr. injection Hr as <- <- <-. auto. Qed.

Lemma triple_fail {X} E (P : store -> Prop) e Qd : triple E P (@Fail _ X e) Qd P.
Proof. intros c w cnt o w' cnt' HP Hr. cbn in Hr. injection Hr as <- <- <-. auto. Qed.

Lemma triple_ret' {X} E (P : store -> Prop) (x : X) (Qd : X -> store -> Prop) Qf :
  (forall w, P w -> Qd x w) -> triple E P (Ret x) Qd Qf.
Proof. intros HQ c w cnt o w' cnt' HP Hr. cbn in Hr. injection Hr as <- <- <-. auto. Qed.

Lemma triple_fail' {X} E (P : store -> Prop) e (Qd : X -> store -> Prop) (Qf : store -> Prop) :
  (forall w, P w -> Qf w) -> triple E P (Fail e) Qd Qf.
Proof. intros HQ c w cnt o w' cnt' HP Hr. cbn in Hr. injection Hr as <- <- <-. auto. Qed.

(** a program whose writes avoid everything [P] depends on preserves [P] *)
Lemma triple_frame {X} E S (P : store -> Prop) (p : prog X) :
  writes_in S p ->
  (forall w w', P w -> (forall v, ~ S v -> w' v = w v) -> P w') ->
  triple E P p (fun _ => P) P.
Proof.
  intros Hw Hext c w cnt o w' cnt' HP Hr.
  assert (P w') by (eapply Hext; eauto; eapply writes_in_run; eauto).
  destruct o; auto.
Qed.

End Facts.
