(** * Facts about [atomically]: errors publish nothing (C06), blocks compose (C08). *)
From Coq Require Import List NArith Bool Lia.
From HC Require Import Stm.Prog Stm.ProgFacts.
Import ListNotations.
Open Scope N_scope.

Section Atomic.
Context `{Sig}.

(** ** C06: whatever is not a normal return publishes nothing *)
Theorem atomically_not_ok_noop {X} E (p : prog X) st r st' :
  atomically E p st = (r, st') -> (forall x, r <> ROk x) -> st' = st.
Proof.
  unfold atomically. destruct (run E p st st 0) as [[[x|e| |q] w] cnt]; intros E0 Hr;
    injection E0 as <- <-; try reflexivity. exfalso. eapply Hr. reflexivity.
Qed.

Corollary atomically_err_noop {X} E (p : prog X) st e st' :
  atomically E p st = (RErr e, st') -> st' = st.
Proof. intros E0. eapply atomically_not_ok_noop; [exact E0|]. intros x; discriminate. Qed.

(** the program syntax has no handler: a failure inside a sequence is the failure of the sequence *)
Lemma bind_fail {X Y} e (f : X -> prog Y) : bind (Fail e) f = Fail e.
Proof. reflexivity. Qed.

Lemma run_bind_failed {X Y} E (p : prog X) (f : X -> prog Y) c w cnt e w' cnt' :
  run E p c w cnt = (Failed e, w', cnt') -> run E (bind p f) c w cnt = (Failed e, w', cnt').
Proof. intros Hr. rewrite run_bind, Hr. reflexivity. Qed.

(** ** C08: programs without non-transactional reads *)
Fixpoint no_atomic {X} (p : prog X) : Prop :=
  match p with
  | Ret _ | Fail _ | Retry | Panic _ => True
  | Rd _ k => forall a, no_atomic (k a)
  | Wr _ _ k => no_atomic k
  | RdAtomic _ _ => False
  | Tick k => forall b, no_atomic (k b)
  end.

Lemma no_atomic_bind {X Y} (p : prog X) (f : X -> prog Y) :
  no_atomic p -> (forall x, no_atomic (f x)) -> no_atomic (bind p f).
Proof. induction p; cbn; intros Hp Hf; auto; try contradiction. Qed.

(** such a program never looks at the committed store *)
Lemma run_no_atomic {X} E (p : prog X) : no_atomic p ->
  forall c c' w cnt, run E p c w cnt = run E p c' w cnt.
Proof.
  induction p as [x|v k IH|v x k IH|v k IH|k IH|e| |q]; cbn [no_atomic run]; intros Hn c c' w cnt; auto.
  - destruct (e_dom E v); auto.
  - destruct (e_dom E v); auto.
  - contradiction.
Qed.

(** without fault injection the law-call counter does not influence the run *)
Lemma run_cnt_irrel {X} E (p : prog X) : e_fail_at E = None ->
  forall c w cnt cnt', fst (run E p c w cnt) = fst (run E p c w cnt').
Proof.
  intros Hf. induction p as [x|v k IH|v x k IH|v k IH|k IH|e| |q]; cbn [run]; intros c w cnt cnt'; auto.
  - destruct (e_dom E v); auto.
  - destruct (e_dom E v); auto.
  - destruct (e_dom E v); auto.
  - rewrite Hf. apply IH.
Qed.

(** a list of operations, each in its own transaction, all succeeding *)
Fixpoint seq_run (E : env) (ps : list (prog unit)) (st : store) : option store :=
  match ps with
  | [] => Some st
  | p :: rest =>
    match atomically E p st with
    | (ROk _, st1) => seq_run E rest st1
    | _ => None
    end
  end.

Fixpoint block (ps : list (prog unit)) : prog unit :=
  match ps with
  | [] => Ret tt
  | p :: rest => p ;;; block rest
  end.

Lemma block_run E : e_fail_at E = None -> forall ps, Forall no_atomic ps ->
  forall c w cnt st', seq_run E ps w = Some st' ->
  exists cnt', run E (block ps) c w cnt = (Done tt, st', cnt').
Proof.
  intros Hf ps Hps. induction Hps as [|p rest Hp Hrest IH]; intros c w cnt st' Hs; cbn [seq_run block] in *.
  - injection Hs as <-. eexists. reflexivity.
  - unfold atomically in Hs.
    destruct (run E p w w 0) as [[o w1] cnt1] eqn:Er.
    destruct o as [[]|e| |q]; try discriminate Hs.
    rewrite run_bind.
    pose proof (run_cnt_irrel E p Hf c w cnt 0) as Hc.
    rewrite (run_no_atomic E p Hp c w w 0), Er in Hc. cbn [fst] in Hc.
    destruct (run E p c w cnt) as [[o2 w2] cnt2]. cbn [fst] in Hc. injection Hc as -> ->.
    apply IH. exact Hs.
Qed.

(** Running the operations inside one atomic block, when each succeeds on its own, gives
    exactly the state of the one-after-the-other execution, and the block succeeds. *)
Theorem compose_block E ps st st' : e_fail_at E = None -> Forall no_atomic ps ->
  seq_run E ps st = Some st' -> atomically E (block ps) st = (ROk tt, st').
Proof.
  intros Hf Hps Hs. unfold atomically.
  destruct (block_run E Hf ps Hps st st 0 st' Hs) as (cnt' & ->). reflexivity.
Qed.

End Atomic.
