(** * Concurrent transactions at the level of the fast-stm protocol (C07).

    The machine: every transactional variable carries a version (fast-stm: the identity of the
    [Arc] holding the value; every committed write installs a fresh one).  A thread runs its
    transactions one after the other; an attempt logs the first read of each variable with its
    version, keeps its writes in a log, and at the end either validates every logged read against
    the current versions and publishes all its writes in one step, or starts again.  [abort(e)]
    returns without validation and publishes nothing; so do panics.

    Definitions first (executable: the same functions are extracted and replayed against the
    implementation under controlled schedules), then the proofs.  The interleaving is arbitrary:
    a schedule is any list of thread indices. *)
From Coq Require Import List NArith Bool Lia Arith.
From HC Require Import Stm.Prog Stm.ProgFacts Stm.Atomic.
Import ListNotations.

Section Serial.
Context `{Sig}.
Variable R : Type.                       (* the value a transaction returns *)
Variable E : env.

Definition wlog := list (var * val).
Fixpoint wfind (ws : wlog) (v : var) : option val :=
  match ws with [] => None | (w, x) :: r => if var_eqb v w then Some x else wfind r v end.
Definition apply (ws : wlog) (g : store) : store :=
  fun v => match wfind ws v with Some x => x | None => g v end.

Definition gstore := var -> val * nat.
Definition vals (G : gstore) : store := fun v => fst (G v).
Definition rlog := list (var * (val * nat)).
Fixpoint rfind (rs : rlog) (v : var) : option (val * nat) :=
  match rs with [] => None | (w, x) :: r => if var_eqb v w then Some x else rfind r v end.

Record attempt := { origin : prog R; cur : prog R; rs : rlog; ws : wlog }.
Record thread := { pend : list (prog R); att : option attempt; outs : list (result R) }.

Definition validb (G : gstore) (l : rlog) : bool :=
  forallb (fun e => Nat.eqb (snd (G (fst e))) (snd (snd e))) l.
Definition gapply (ws : wlog) (clock : nat) (G : gstore) : gstore :=
  fun v => match wfind ws v with Some x => (x, clock) | None => G v end.

Record cfg := { G : gstore; clock : nat; ths : list thread; hist : list (prog R * R) }.

(** what a micro-step of a thread does to the shared part *)
Inductive effect :=
| ELocal                         (* nothing shared changes *)
| ECommit (p : prog R) (r : R) (w : wlog).

Definition fresh (p : prog R) : attempt := {| origin := p; cur := p; rs := []; ws := [] |}.
Definition with_cur (a : attempt) (p : prog R) : attempt :=
  {| origin := origin a; cur := p; rs := rs a; ws := ws a |}.

(** one micro-step of a thread against the global store *)
Definition tstep (g : gstore) (t : thread) : option (thread * effect) :=
  match att t with
  | None =>
    match pend t with
    | [] => None
    | p :: rest => Some ({| pend := rest; att := Some (fresh p); outs := outs t |}, ELocal)
    end
  | Some a =>
    let continue (a' : attempt) := Some ({| pend := pend t; att := Some a'; outs := outs t |}, ELocal) in
    let finish (r : result R) := Some ({| pend := pend t; att := None; outs := outs t ++ [r] |}, ELocal) in
    let die (q : panic) := Some ({| pend := []; att := None; outs := outs t ++ [RPanic q] |}, ELocal) in
    match cur a with
    | Rd v k =>
      if e_dom E v then
        match wfind (ws a) v with
        | Some x => continue (with_cur a (k x))
        | None =>
          match rfind (rs a) v with
          | Some (x, _) => continue (with_cur a (k x))
          | None => continue {| origin := origin a; cur := k (fst (g v)); rs := (v, g v) :: rs a; ws := ws a |}
          end
        end
      else die OOB
    | Wr v x k =>
      if e_dom E v then continue {| origin := origin a; cur := k; rs := rs a; ws := (v, x) :: ws a |}
      else die OOB
    | RdAtomic v k => if e_dom E v then continue (with_cur a (k (fst (g v)))) else die OOB
    | Tick k => continue (with_cur a (k false))
    | Ret r =>
      if validb g (rs a)
      then Some ({| pend := pend t; att := None; outs := outs t ++ [ROk r] |}, ECommit (origin a) r (ws a))
      else continue (fresh (origin a))
    | Fail e => finish (RErr e)
    | Retry => continue (fresh (origin a))
    | Panic q => die q
    end
  end.

Fixpoint set_nth {X} (l : list X) (i : nat) (x : X) : list X :=
  match l, i with
  | [], _ => []
  | _ :: r, O => x :: r
  | y :: r, S j => y :: set_nth r j x
  end.

Definition cstep (c : cfg) (i : nat) : option cfg :=
  match nth_error (ths c) i with
  | None => None
  | Some t =>
    match tstep (G c) t with
    | None => None
    | Some (t', ELocal) => Some {| G := G c; clock := clock c; ths := set_nth (ths c) i t'; hist := hist c |}
    | Some (t', ECommit p r w) =>
      Some {| G := gapply w (S (clock c)) (G c); clock := S (clock c); ths := set_nth (ths c) i t';
              hist := hist c ++ [(p, r)] |}
    end
  end.

(** a schedule is a list of thread indices; indices of threads that cannot move are skipped *)
Fixpoint run_sched (c : cfg) (s : list nat) : cfg :=
  match s with
  | [] => c
  | i :: r => run_sched (match cstep c i with Some c' => c' | None => c end) r
  end.

Definition init (g0 : store) (ws : list (list (prog R))) : cfg :=
  {| G := fun v => (g0 v, O); clock := O;
     ths := map (fun ps => {| pend := ps; att := None; outs := [] |}) ws; hist := [] |}.

(** one-at-a-time execution of a commit history *)
Inductive serial : store -> list (prog R * R) -> store -> Prop :=
| ser_nil g : serial g [] g
| ser_snoc g h g1 p r g2 : serial g h g1 -> atomically E p g1 = (ROk r, g2) -> serial g (h ++ [(p, r)]) g2.

(** ** Proofs *)
Hypothesis Enofault : e_fail_at E = None.

Definition out_eq (a b : outcome R * store) : Prop := fst a = fst b /\ forall v, snd a v = snd b v.
Definition exec (p : prog R) (c w : store) : outcome R * store := fst (run E p c w 0).

Lemma out_eq_refl a : out_eq a a. Proof. split; auto. Qed.
Lemma out_eq_trans a b c : out_eq a b -> out_eq b c -> out_eq a c.
Proof. intros [A1 A2] [B1 B2]. split; [congruence|]. intros v. now rewrite A2. Qed.
Lemma out_eq_sym a b : out_eq a b -> out_eq b a.
Proof. intros [A1 A2]. split; [congruence|]. intros v. now rewrite A2. Qed.

Lemma run_ext (p : prog R) : forall c1 c2 w1 w2 n, (forall v, c1 v = c2 v) -> (forall v, w1 v = w2 v) ->
  out_eq (fst (run E p c1 w1 n)) (fst (run E p c2 w2 n)).
Proof.
  induction p as [x|v k IH|v x k IH|v k IH|k IH|e| |q]; intros c1 c2 w1 w2 n Hc Hw; cbn [run].
  - split; auto.
  - destruct (e_dom E v); [|split; auto]. rewrite (Hw v). apply IH; auto.
  - destruct (e_dom E v); [|split; auto]. apply IH; auto.
    intros u. unfold upd. destruct (var_eqb u v); auto.
  - destruct (e_dom E v); [|split; auto]. rewrite (Hc v). apply IH; auto.
  - apply IH; auto.
  - split; auto.
  - split; auto.
  - split; auto.
Qed.

Lemma exec_cnt (p : prog R) c w n : fst (run E p c w n) = exec p c w.
Proof. unfold exec. apply run_cnt_irrel. exact Enofault. Qed.

Lemma apply_cons v x l g u : apply ((v, x) :: l) g u = upd (apply l g) v x u.
Proof. unfold apply, upd. cbn [wfind]. destruct (var_eqb u v); reflexivity. Qed.

Definition agrees (g : store) (l : rlog) : Prop := forall v x n, rfind l v = Some (x, n) -> g v = x.

(** the invariant of a running attempt: against any store that agrees with what it has read, the
    transaction run from its start arrives where the attempt is; logged versions are honest *)
Definition att_inv (g : gstore) (clk : nat) (a : attempt) : Prop :=
  no_atomic (origin a) /\ no_atomic (cur a) /\
  (forall s c0, agrees s (rs a) -> out_eq (exec (origin a) c0 s) (exec (cur a) c0 (apply (ws a) s))) /\
  (forall v x n, rfind (rs a) v = Some (x, n) -> (n <= clk)%nat /\ (snd (g v) = n -> fst (g v) = x)) /\
  (forall v x n, In (v, (x, n)) (rs a) -> rfind (rs a) v = Some (x, n)).

Definition th_inv (g : gstore) (clk : nat) (t : thread) : Prop :=
  Forall no_atomic (pend t) /\ match att t with Some a => att_inv g clk a | None => True end.

Definition inv (c : cfg) : Prop :=
  (forall v, (snd (G c v) <= clock c)%nat) /\ Forall (th_inv (G c) (clock c)) (ths c).

Lemma rfind_In l v x : rfind l v = Some x -> In (v, x) l.
Proof.
  induction l as [|[w y] r IH]; cbn; [discriminate|].
  destruct (var_eqb_spec v w); [intros [= <-]; subst; now left | right; auto].
Qed.

Lemma validb_spec g l : validb g l = true -> forall v x n, In (v, (x, n)) l -> snd (g v) = n.
Proof.
  unfold validb. rewrite forallb_forall. intros Hv v x n Hin.
  specialize (Hv _ Hin). cbn in Hv. now apply Nat.eqb_eq in Hv.
Qed.

Lemma fresh_inv g clk p : no_atomic p -> att_inv g clk (fresh p).
Proof.
  intros Hp. unfold att_inv, fresh; cbn [origin cur rs ws].
  refine (conj Hp (conj Hp (conj _ (conj _ _)))).
  - intros s c0 _. apply out_eq_refl.
  - intros v x n. cbn. discriminate.
  - intros v x n [].
Qed.

(** a local step of a thread keeps its invariant (the shared store does not move) *)
Lemma tstep_local_inv g clk t t' : (forall v, (snd (g v) <= clk)%nat) ->
  th_inv g clk t -> tstep g t = Some (t', ELocal) -> th_inv g clk t'.
Proof.
  intros Hclk [Hp Ha]. unfold tstep. destruct (att t) as [a|].
  2:{ destruct (pend t) as [|p rest]; [discriminate|]. intros [= <-]. inversion Hp; subst.
      split; cbn; auto. now apply fresh_inv. }
  destruct Ha as (No & Nc & Rr & Vv & Dd).
  destruct (cur a) as [r|v k|v x k|v k|k|e| |q] eqn:Ec; cbn [no_atomic] in Nc.
  - (* Ret *) destruct (validb g (rs a)); [discriminate|]. intros [= <-]. split; cbn; auto. now apply fresh_inv.
  - (* Rd *) destruct (e_dom E v) eqn:Ed; [|intros [= <-]; split; cbn; auto].
    destruct (wfind (ws a) v) as [x|] eqn:Ew.
    + intros [= <-]. split; cbn [pend att]; auto. unfold att_inv, with_cur; cbn [origin cur rs ws].
      refine (conj No (conj (Nc x) (conj _ (conj Vv Dd)))).
      intros s c0 Hs. eapply out_eq_trans; [apply Rr; auto|].
      unfold exec. cbn [run]. rewrite Ed. unfold apply at 1. rewrite Ew. apply out_eq_refl.
    + destruct (rfind (rs a) v) as [[x n]|] eqn:Er.
      * intros [= <-]. split; cbn [pend att]; auto. unfold att_inv, with_cur; cbn [origin cur rs ws].
        refine (conj No (conj (Nc x) (conj _ (conj Vv Dd)))).
        intros s c0 Hs. eapply out_eq_trans; [apply Rr; auto|].
        unfold exec. cbn [run]. rewrite Ed. unfold apply at 1. rewrite Ew. rewrite (Hs v x n Er). apply out_eq_refl.
      * intros [= <-]. split; cbn [pend att]; auto. unfold att_inv; cbn [origin cur rs ws].
        refine (conj No (conj (Nc _) (conj _ (conj _ _)))).
        -- intros s c0 Hs.
           assert (Hs' : agrees s (rs a)).
           { intros w y m Hw. apply (Hs w y m). cbn [rfind]. destruct (var_eqb_spec w v); [subst; congruence|auto]. }
           eapply out_eq_trans; [apply Rr; auto|].
           unfold exec. cbn [run]. rewrite Ed. unfold apply at 1. rewrite Ew.
           assert (Hv : s v = fst (g v)).
           { apply (Hs v (fst (g v)) (snd (g v))). cbn [rfind]. destruct (var_eqb_spec v v); [|congruence]. now destruct (g v). }
           rewrite Hv. apply out_eq_refl.
        -- intros w y m. cbn [rfind]. destruct (var_eqb_spec w v) as [->|].
           ++ intros E0. injection E0 as E0. pose proof (Hclk v) as Hc. split; [rewrite E0 in Hc; exact Hc|intros _; now rewrite E0].
           ++ apply Vv.
        -- intros w y m [E0|Hin].
           ++ inversion E0; subst. cbn [rfind]. destruct (var_eqb_spec w w); congruence.
           ++ cbn [rfind]. destruct (var_eqb_spec w v) as [->|]; [|auto]. apply Dd in Hin. congruence.
  - (* Wr *) destruct (e_dom E v) eqn:Ed; [|intros [= <-]; split; cbn; auto].
    intros [= <-]. split; cbn [pend att]; auto. unfold att_inv; cbn [origin cur rs ws].
    refine (conj No (conj Nc (conj _ (conj Vv Dd)))).
    intros s c0 Hs. eapply out_eq_trans; [apply Rr; auto|].
    unfold exec. cbn [run]. rewrite Ed. apply run_ext; auto. intros u. symmetry. apply apply_cons.
  - contradiction.
  - (* Tick *) intros [= <-]. split; cbn [pend att]; auto. unfold att_inv, with_cur; cbn [origin cur rs ws].
    refine (conj No (conj (Nc false) (conj _ (conj Vv Dd)))).
    intros s c0 Hs. eapply out_eq_trans; [apply Rr; auto|].
    unfold exec at 1. cbn [run]. rewrite Enofault. rewrite exec_cnt. apply out_eq_refl.
  - (* Fail *) intros [= <-]. split; cbn; auto.
  - (* Retry *) intros [= <-]. split; cbn; auto. now apply fresh_inv.
  - (* Panic *) intros [= <-]. split; cbn; auto.
Qed.

(** when another thread commits, an attempt's invariant survives: versions only grow *)
Lemma att_inv_other g clk w a : (forall v, (snd (g v) <= clk)%nat) ->
  att_inv g clk a -> att_inv (gapply w (S clk) g) (S clk) a.
Proof.
  intros Hclk (No & Nc & Rr & Vv & Dd). refine (conj No (conj Nc (conj Rr (conj _ Dd)))).
  intros v x n Hf. destruct (Vv v x n Hf) as [Hle Himp]. split; [lia|].
  unfold gapply. destruct (wfind w v); cbn [fst snd]; [lia|exact Himp].
Qed.

Lemma set_nth_Forall {X} (P : X -> Prop) l i x : Forall P l -> P x -> Forall P (set_nth l i x).
Proof.
  revert i. induction l as [|y r IH]; intros i Hl Hx; cbn; [constructor|].
  inversion Hl; subst. destruct i; constructor; auto.
Qed.

Lemma nth_error_Forall {X} (P : X -> Prop) l i x : Forall P l -> nth_error l i = Some x -> P x.
Proof. intros Hl Hn. rewrite Forall_forall in Hl. apply Hl. eapply nth_error_In; eauto. Qed.

Theorem cstep_inv c i c' : inv c -> cstep c i = Some c' -> inv c'.
Proof.
  intros [Hclk Hth]. unfold cstep. destruct (nth_error (ths c) i) as [t|] eqn:En; [|discriminate].
  pose proof (nth_error_Forall _ _ _ _ Hth En) as Ht.
  destruct (tstep (G c) t) as [[t' [|p r w]]|] eqn:Es; [| |discriminate]; intros [= <-]; split; cbn [G clock ths hist].
  - exact Hclk.
  - apply set_nth_Forall; auto. eapply tstep_local_inv; eauto.
  - intros v. unfold gapply. destruct (wfind w v); cbn; [lia|]. specialize (Hclk v). lia.
  - apply set_nth_Forall.
    + rewrite Forall_forall in *. intros u Hu. destruct (Hth u Hu) as [Hp Ha]. split; auto.
      destruct (att u); auto. now apply att_inv_other.
    + (* the committing thread is idle afterwards *)
      unfold tstep in Es. destruct Ht as [Hp Ha]. destruct (att t) as [a|]; [|destruct (pend t); discriminate].
      destruct (cur a); try discriminate;
        repeat match type of Es with context [if ?b then _ else _] => destruct b end;
        repeat match type of Es with context [match ?x with _ => _ end] => destruct x end; try discriminate.
      injection Es as <- _ _ _. split; cbn; auto.
Qed.

(** the heart: a commit is a sequential run of the whole transaction on the store of that instant *)
Theorem commit_is_atomic c i t t' p r w :
  inv c -> nth_error (ths c) i = Some t -> tstep (G c) t = Some (t', ECommit p r w) ->
  exists g', atomically E p (vals (G c)) = (ROk r, g') /\
             forall v, g' v = vals (gapply w (S (clock c)) (G c)) v.
Proof.
  intros [Hclk Hth] En Es. pose proof (nth_error_Forall _ _ _ _ Hth En) as [Hp Ha].
  unfold tstep in Es. destruct (att t) as [a|]; [|destruct (pend t); discriminate].
  destruct Ha as (No & Nc & Rr & Vv & Dd).
  destruct (cur a) as [r0|v k|v x k|v k|k|e| |q] eqn:Ec;
    try (repeat match type of Es with context [if ?b then _ else _] => destruct b end;
         repeat match type of Es with context [match ?x with _ => _ end] => destruct x end; discriminate).
  destruct (validb (G c) (rs a)) eqn:Ev; [|discriminate]. injection Es as _ <- <- <-.
  assert (Hag : agrees (vals (G c)) (rs a)).
  { intros v x n Hf. destruct (Vv v x n Hf) as [_ Himp]. apply Himp.
    apply (validb_spec (G c) (rs a) Ev v x n). apply rfind_In. exact Hf. }
  destruct (Rr (vals (G c)) (vals (G c)) Hag) as [Ho Hs]. unfold exec in Ho, Hs. cbn [run fst snd] in Ho, Hs.
  unfold atomically. destruct (run E (origin a) (vals (G c)) (vals (G c)) 0) as [[o g'] n]. cbn [fst snd] in Ho, Hs.
  subst o. exists g'. split; [reflexivity|]. intros v. rewrite Hs. unfold vals, gapply, apply.
  destruct (wfind (ws a) v); reflexivity.
Qed.

Lemma atomically_ext (p : prog R) g1 g2 r g1' : (forall v, g1 v = g2 v) -> atomically E p g1 = (ROk r, g1') ->
  exists g2', atomically E p g2 = (ROk r, g2') /\ forall v, g1' v = g2' v.
Proof.
  intros He. unfold atomically. pose proof (run_ext p g1 g2 g1 g2 0 He He) as [Ho Hs].
  destruct (run E p g1 g1 0) as [[o1 w1] n1]. destruct (run E p g2 g2 0) as [[o2 w2] n2]. cbn [fst snd] in Ho, Hs.
  subst o2. destruct o1; try discriminate. intros [= -> <-]. eexists. split; [reflexivity|exact Hs].
Qed.

Definition serial_ext (g0 : store) (h : list (prog R * R)) (g : store) : Prop :=
  exists g', serial g0 h g' /\ forall v, g' v = g v.

(** C07, protocol level: under EVERY schedule the store is the one-at-a-time execution of the
    committed transactions in commit order, each returning the value it returned *)
Theorem serializable g0 wl s :
  Forall (Forall no_atomic) wl ->
  let c := run_sched (init g0 wl) s in
  inv c /\ serial_ext g0 (hist c) (vals (G c)).
Proof.
  intros Hwl.
  assert (I0 : inv (init g0 wl) /\ serial_ext g0 (hist (init g0 wl)) (vals (G (init g0 wl)))).
  { split.
    - split; cbn; [lia|]. rewrite Forall_map. revert Hwl. apply Forall_impl. intros ps Hps. split; cbn; auto.
    - exists g0. split; [constructor|reflexivity]. }
  revert I0. generalize (init g0 wl). induction s as [|i s IH]; intros c [Ic Sc]; cbn [run_sched]; [split; auto|].
  apply IH. destruct (cstep c i) as [c'|] eqn:Ec; [|split; auto].
  split; [eapply cstep_inv; eauto|].
  unfold cstep in Ec. destruct (nth_error (ths c) i) as [t|] eqn:En; [|discriminate].
  destruct (tstep (G c) t) as [[t' [|p r w]]|] eqn:Es; [| |discriminate]; injection Ec as <-; cbn [G hist]; [exact Sc|].
  destruct Sc as (g' & Sg & Eg).
  destruct (commit_is_atomic c i t t' p r w Ic En Es) as (g1 & Ha & E1).
  destruct (atomically_ext p (vals (G c)) g' r g1 (fun v => eq_sym (Eg v)) Ha) as (g2 & Ha2 & E2).
  exists g2. split; [econstructor; eauto|]. intros v. rewrite <- E2. apply E1.
Qed.

(** nothing but a validated commit ever changes the shared store *)
Theorem only_commit_publishes c i c' : cstep c i = Some c' ->
  (G c' = G c /\ hist c' = hist c) \/
  (exists t t' p r w, nth_error (ths c) i = Some t /\ tstep (G c) t = Some (t', ECommit p r w) /\
                      G c' = gapply w (S (clock c)) (G c) /\ hist c' = hist c ++ [(p, r)]).
Proof.
  unfold cstep. destruct (nth_error (ths c) i) as [t|] eqn:En; [|discriminate].
  destruct (tstep (G c) t) as [[t' [|p r w]]|] eqn:Es; [| |discriminate]; intros [= <-]; cbn; [left; auto|].
  right. exists t, t', p, r, w. auto.
Qed.

(** a commit step only fires on an attempt whose every logged read still has its version *)
Theorem commit_only_if_valid g t t' p r w : tstep g t = Some (t', ECommit p r w) ->
  exists a, att t = Some a /\ cur a = Ret r /\ validb g (rs a) = true /\ origin a = p /\ ws a = w.
Proof.
  unfold tstep. destruct (att t) as [a|]; [|destruct (pend t); discriminate].
  destruct (cur a) eqn:Ec;
    try (repeat match goal with |- context [if ?b then _ else _] => destruct b end;
         repeat match goal with |- context [match ?x with _ => _ end] => destruct x end; discriminate).
  destruct (validb g (rs a)) eqn:Ev; [|discriminate]. intros [= _ <- <- <-]. exists a. auto.
Qed.

End Serial.
