(** * Transactional programs: the effects a honeycomb operation can have on shared state.

    Model only -- no proofs in this file (so it still runs when a proof breaks).
    Every honeycomb function taking [&mut Transaction] is transcribed as a [prog]. *)
From Coq Require Import List NArith Bool.
Import ListNotations.
Open Scope N_scope.

(** The parameters of the whole model: coordinate type, user-attribute value type,
    and the (arbitrary) update laws.  Theorems are stated for every instance. *)
Class Sig := {
  V : Type;                       (* vertex coordinates (Vertex2<T> or Vertex3<T>) *)
  A : Type;                       (* user attribute values, one universal type *)
  (* AttributeUpdate for the built-in coordinates *)
  v_merge      : V -> V -> option V;
  v_merge_inc  : V -> option V;
  v_merge_none : option V;
  v_split      : V -> option (V * V);
  v_split_none : option (V * V);
  (* AttributeUpdate for user attributes, per attribute kind *)
  a_merge      : N -> A -> A -> option A;
  a_merge_inc  : N -> A -> option A;
  a_merge_none : N -> option A;
  a_split      : N -> A -> option (A * A);
  a_split_none : N -> option (A * A);
  (* the 2-sew orientation test of two_sew: arguments l, b1r, b1l, r ; true = refuse *)
  bad_orient   : V -> V -> V -> V -> bool;
  (* geometry used by the kernels; Sc = the scalar type T *)
  Sc : Type;
  sc_in_unit : Sc -> bool;               (* !((t >= 1) | (t <= 0)) *)
  v_lerp : V -> V -> Sc -> V;            (* v1 + (v2 - v1) * t *)
  v_avg : V -> V -> V;                   (* Vertex2::average *)
  v_cross : V -> V -> V -> Sc;           (* Vertex2::cross_product_from_vertices *)
  v_eqb : V -> V -> bool;                (* PartialEq of Vertex2 *)
  sc_signum : Sc -> Sc;
  sc_eqb : Sc -> Sc -> bool;             (* == on T *)
  sc_small : Sc -> bool;                 (* x.abs() < T::epsilon() *)
  sc_pos : Sc -> bool;                   (* x > 0 *)
  sc_neg : Sc -> bool;                   (* x < 0 *)
  (* anchors are attribute values of kinds 4 (vertex), 5 (edge), 6 (face) *)
  anchor_dim : A -> N;
  a_eqb : A -> A -> bool
}.

(** Transactional variables of a map. [XBeta i d] is the TVar holding beta_i(d). *)
Inductive var :=
| XBeta (i d : N)
| XUnused (d : N)
| XVertex (d : N)
| XAttr (k d : N).

Definition var_eqb (a b : var) : bool :=
  match a, b with
  | XBeta i d, XBeta j e => (i =? j) && (d =? e)
  | XUnused d, XUnused e => d =? e
  | XVertex d, XVertex e => d =? e
  | XAttr k d, XAttr l e => (k =? l) && (d =? e)
  | _, _ => false
  end.

Inductive panic := OOB | OutOfFuel | AssertFailed | Unreachable | UnwrapNone.

(** Error classes (payloads dropped: the comparer maps Rust errors to these). *)
Inductive err :=
| ENonFreeBase (i : N) | ENonFreeImage (i : N) | EAlreadyFree (i : N) | EAsymmetrical
| EBadGeometry (i : N)
| EAttr                              (* AttributeError, whatever the payload *)
| EKernel (code : N).                (* kernel-level errors, numbered per kernel *)

Inductive outcome (X : Type) :=
| Done (x : X) | Failed (e : err) | Retried | Panicked (p : panic).
Arguments Done {X}. Arguments Failed {X}. Arguments Retried {X}. Arguments Panicked {X}.

(** Result of a whole transaction as the caller sees it. *)
Inductive result (X : Type) :=
| ROk (x : X) | RErr (e : err) | RHang | RPanic (p : panic).
Arguments ROk {X}. Arguments RErr {X}. Arguments RHang {X}. Arguments RPanic {X}.

Section WithSig.
Context `{Sig}.

Inductive val :=
| VN (n : N) | VB (b : bool) | VV (o : option V) | VA (o : option A).

Definition asN (x : val) : N := match x with VN n => n | _ => 0 end.
Definition asB (x : val) : bool := match x with VB b => b | _ => false end.
Definition asV (x : val) : option V := match x with VV o => o | _ => None end.
Definition asA (x : val) : option A := match x with VA o => o | _ => None end.

Inductive prog (X : Type) : Type :=
| Ret (x : X)
| Rd (v : var) (k : val -> prog X)        (* TVar::read(trans): log first, then memory *)
| Wr (v : var) (x : val) (k : prog X)     (* TVar::write / replace: log only *)
| RdAtomic (v : var) (k : val -> prog X)  (* TVar::read_atomic: bypasses the log *)
| Tick (k : bool -> prog X)               (* a user AttributeUpdate call; true = injected failure *)
| Fail (e : err)                          (* abort(e), or Err propagated with `?` *)
| Retry                                   (* retry() *)
| Panic (p : panic).                      (* assert!, unwrap on None, index out of bounds, fuel *)

Arguments Ret {X}. Arguments Rd {X}. Arguments Wr {X}. Arguments RdAtomic {X}.
Arguments Tick {X}. Arguments Fail {X}. Arguments Retry {X}. Arguments Panic {X}.

Fixpoint bind {X Y} (p : prog X) (f : X -> prog Y) : prog Y :=
  match p with
  | Ret x => f x
  | Rd v k => Rd v (fun a => bind (k a) f)
  | Wr v x k => Wr v x (bind k f)
  | RdAtomic v k => RdAtomic v (fun a => bind (k a) f)
  | Tick k => Tick (fun b => bind (k b) f)
  | Fail e => Fail e
  | Retry => Retry
  | Panic p => Panic p
  end.

(** Stores. A committed store and a transaction's view are both [store]s. *)
Definition store := var -> val.
Definition upd (s : store) (v : var) (x : val) : store :=
  fun w => if var_eqb w v then x else s w.


(** Execution environment: which variables exist (Vec bounds), and fault injection:
    the [fail_at]-th (0-based) user law call of the run fails. *)
Record env := { e_dom : var -> bool; e_fail_at : option N }.

(** Sequential interpretation: [c] is the committed store ([RdAtomic] reads it),
    [w] the view (committed store overlaid with the write log), [cnt] counts law calls. *)
Fixpoint run {X} (E : env) (p : prog X) (c w : store) (cnt : N) : outcome X * store * N :=
  match p with
  | Ret x => (Done x, w, cnt)
  | Rd v k => if e_dom E v then run E (k (w v)) c w cnt else (Panicked OOB, w, cnt)
  | Wr v x k => if e_dom E v then run E k c (upd w v x) cnt else (Panicked OOB, w, cnt)
  | RdAtomic v k => if e_dom E v then run E (k (c v)) c w cnt else (Panicked OOB, w, cnt)
  | Tick k =>
      let inj := match e_fail_at E with Some j => j =? cnt | None => false end in
      run E (k inj) c w (cnt + 1)
  | Fail e => (Failed e, w, cnt)
  | Retry => (Retried, w, cnt)
  | Panic p => (Panicked p, w, cnt)
  end.

(** Result of a whole transaction as the caller sees it. *)

(** [atomically_with_err]: run from an empty log; publish on success, drop the log otherwise.
    A [retry()] in a single-threaded setting blocks for ever: [RHang]. *)
Definition atomically {X} (E : env) (p : prog X) (st : store) : result X * store :=
  match run E p st st 0 with
  | (Done x, w, _) => (ROk x, w)
  | (Failed e, _, _) => (RErr e, st)
  | (Retried, _, _) => (RHang, st)
  | (Panicked q, _, _) => (RPanic q, st)
  end.

(** Number of user law calls made by a run (for fault enumeration). *)
Definition law_calls {X} (E : env) (p : prog X) (st : store) : N :=
  snd (run E p st st 0).

End WithSig.

Arguments Ret {_ X}. Arguments Rd {_ X}. Arguments Wr {_ X}. Arguments RdAtomic {_ X}.
Arguments Tick {_ X}. Arguments Fail {_ X}. Arguments Retry {_ X}. Arguments Panic {_ X}.

Notation "x <- p ;; q" := (bind p (fun x => q))
  (at level 61, p at next level, right associativity).
Notation "p ;;; q" := (bind p (fun _ => q))
  (at level 61, right associativity).

(** Typed accessors. *)
Section Accessors.
Context `{Sig}.
Definition rdB (i d : N) : prog N := Rd (XBeta i d) (fun x => Ret (asN x)).
Definition wrB (i d x : N) : prog unit := Wr (XBeta i d) (VN x) (Ret tt).
Definition rdB_atomic (i d : N) : prog N := RdAtomic (XBeta i d) (fun x => Ret (asN x)).
Definition rdU (d : N) : prog bool := Rd (XUnused d) (fun x => Ret (asB x)).
Definition wrU (d : N) (b : bool) : prog unit := Wr (XUnused d) (VB b) (Ret tt).
Definition rdV (d : N) : prog (option V) := Rd (XVertex d) (fun x => Ret (asV x)).
Definition wrV (d : N) (o : option V) : prog unit := Wr (XVertex d) (VV o) (Ret tt).
Definition rdA (k d : N) : prog (option A) := Rd (XAttr k d) (fun x => Ret (asA x)).
Definition wrA (k d : N) (o : option A) : prog unit := Wr (XAttr k d) (VA o) (Ret tt).

Definition beta (s : store) (i d : N) : N := asN (s (XBeta i d)).
Definition unused (s : store) (d : N) : bool := asB (s (XUnused d)).
Definition vertex (s : store) (d : N) : option V := asV (s (XVertex d)).
Definition attr (s : store) (k d : N) : option A := asA (s (XAttr k d)).
End Accessors.
