(** * A verified worklist: breadth-first closure under a successor function.
    This is the algorithm of CMap2::orbit / CMap3::orbit (push order included). *)
From Coq Require Import NArith Arith List Lia Bool FinFun.
Import ListNotations.
Open Scope N_scope.

Lemma NoDup_app_snoc {A} (l : list A) y : NoDup l -> ~ In y l -> NoDup (l ++ [y]).
Proof.
  induction l as [|a l IH]; cbn; intros ND H; [repeat constructor; auto|].
  inversion ND; subst. constructor.
  - rewrite in_app_iff. cbn. intuition.
  - apply IH; auto.
Qed.

Section BFS.
Variable succ : N -> list N.
Variable n : N.
Hypothesis succ_rng : forall x y, x < n -> In y (succ x) -> y < n.

Definition memb (x : N) (l : list N) : bool := existsb (N.eqb x) l.
Lemma memb_spec x l : reflect (In x l) (memb x l).
Proof.
  unfold memb. destruct (existsb (N.eqb x) l) eqn:E; constructor.
  - apply existsb_exists in E as (y & Hy & Heq). apply N.eqb_eq in Heq. now subst.
  - intros H. assert (existsb (N.eqb x) l = true) by (apply existsb_exists; exists x; split; auto; apply N.eqb_refl). congruence.
Qed.

(* the `check` closure: push y if marked.insert(y) *)
Definition check (st : list N * list N) (y : N) : list N * list N :=
  let '(q, m) := st in if memb y m then (q, m) else (q ++ [y], y :: m).

Fixpoint bfs (fuel : nat) (q m out : list N) : option (list N) :=
  match fuel with
  | O => None
  | S f => match q with
           | [] => Some (rev out)
           | d :: q' => let '(q2, m2) := fold_left check (succ d) (q', m) in bfs f q2 m2 (d :: out)
           end
  end.

Definition orbit (fuel : nat) (d : N) := bfs fuel [d] [d; 0] [].

Inductive reach (d : N) : N -> Prop :=
| reach_refl : reach d d
| reach_step x y : reach d x -> In y (succ x) -> y <> 0 -> reach d y.

(* invariant *)
Record Inv (d : N) (q m out cl : list N) : Prop := {
  i_nodup : NoDup (out ++ q);
  i_mark  : forall x, In x m <-> x = 0 \/ In x (out ++ q);
  i_nz    : ~ In 0 (out ++ q);
  i_reach : forall x, In x (out ++ q) -> reach d x;
  i_closed: forall x y, In x cl -> In y (succ x) -> In y m;
  i_start : In d (out ++ q);
  i_mnd   : NoDup m;
  i_rng   : forall x, In x m -> x < n;
  i_head  : hd_error (rev out ++ q) = Some d }.

Lemma check_fold d x ys cl : forall q m out,
  reach d x -> x < n -> (forall y, In y ys -> In y (succ x)) ->
  Inv d q m out cl ->
  let '(q2, m2) := fold_left check ys (q, m) in
  Inv d q2 m2 out cl /\ (forall y, In y m -> In y m2) /\ (forall y, In y ys -> In y m2) /\
  (exists new, q2 = q ++ new /\ length m2 = (length m + length new)%nat).
Proof.
  induction ys as [|y ys IH]; intros q m out Rx Hxn Hsub I; cbn [fold_left].
  - split; [exact I|]. split; [auto|]. split; [intros ? []|]. exists []. now rewrite app_nil_r, Nat.add_0_r.
  - unfold check at 2. destruct (memb_spec y m) as [Hin|Hnin].
    + specialize (IH q m out Rx Hxn (fun z Hz => Hsub z (or_intror Hz)) I).
      destruct (fold_left check ys (q, m)) as [q2 m2]. destruct IH as (I2 & Hm & Hys & Hnew).
      split; [exact I2|]. split; [exact Hm|]. split; [|exact Hnew]. intros z [<-|Hz]; auto.
    + assert (Hy0 : y <> 0) by (intros ->; apply Hnin, I; auto).
      assert (Hyn : ~ In y (out ++ q)) by (intros H; apply Hnin, I; auto).
      assert (I' : Inv d (q ++ [y]) (y :: m) out cl).
      { destruct I as [ND MK NZ RC CL ST MND i_rng0 HD]. split.
        - rewrite app_assoc. apply NoDup_app_snoc; auto.
        - intros z. cbn [In]. rewrite MK, app_assoc, (in_app_iff (out ++ q)). cbn [In]. intuition.
        - rewrite app_assoc, in_app_iff. cbn [In]. intuition.
        - intros z. rewrite app_assoc, in_app_iff. cbn. intros [H|[<-|[]]]; auto.
          eapply reach_step; eauto. apply Hsub. now left.
        - intros a b Ha Hb. right. eauto.
        - rewrite app_assoc, in_app_iff. auto.
        - constructor; auto.
        - intros z [<-|Hz]; auto. eapply succ_rng; [exact Hxn|apply Hsub; now left].
        - rewrite app_assoc. destruct (rev out ++ q); cbn in *; auto; discriminate. }
      specialize (IH (q ++ [y]) (y :: m) out Rx Hxn (fun z Hz => Hsub z (or_intror Hz)) I').
      destruct (fold_left check ys (q ++ [y], y :: m)) as [q2 m2]. destruct IH as (I2 & Hm & Hys & (new & -> & Hl)).
      split; [exact I2|]. split; [|split].
      * intros z Hz. apply Hm. now right.
      * intros z [<-|Hz]; auto. apply Hm. now left.
      * exists (y :: new). rewrite <- app_assoc. split; auto. cbn in *. lia.
Qed.

Lemma len_bound m : NoDup m -> (forall x, In x m -> x < n) -> (length m <= N.to_nat n)%nat.
Proof.
  intros ND R.
  assert (H : incl (map N.to_nat m) (seq 0 (N.to_nat n))).
  { intros k Hk. apply in_map_iff in Hk as (x & <- & Hx). apply in_seq. specialize (R x Hx). lia. }
  apply NoDup_incl_length in H.
  - now rewrite map_length, seq_length in H.
  - apply FinFun.Injective_map_NoDup; auto. intros a b. apply N2Nat.inj.
Qed.

Lemma bfs_loop d : forall fuel q m out,
  Inv d q m out out -> (2 * (N.to_nat n - length m) + length q < fuel)%nat ->
  exists out' m', bfs fuel q m out = Some (rev out') /\ Inv d [] m' out' out'.
Proof.
  induction fuel as [|f IH]; intros q m out I Hf; [lia|].
  cbn [bfs]. destruct q as [|x q'].
  - exists out, m. split; auto.
  - assert (Rx : reach d x) by (apply I; rewrite in_app_iff; cbn; auto).
    assert (Hx : x < n) by (apply I, I; right; rewrite in_app_iff; cbn; auto).
    assert (I1 : Inv d q' m (x :: out) out).
    { destruct I as [ND MK NZ RC CL ST MND RNG HD]. split; auto.
      - apply NoDup_remove in ND as [ND Hn]. cbn. constructor; auto.
      - intros z. rewrite MK. cbn. rewrite !in_app_iff. cbn. intuition.
      - cbn. rewrite in_app_iff in *. cbn in *. intuition.
      - intros z Hz. apply RC. cbn in Hz. rewrite in_app_iff in *. cbn. intuition.
      - cbn. rewrite in_app_iff in *. cbn in *. intuition.
      - cbn [rev]. rewrite <- app_assoc. exact HD. }
    pose proof (check_fold d x (succ x) out q' m (x :: out) Rx Hx (fun y H => H) I1) as F.
    destruct (fold_left check (succ x) (q', m)) as [q2 m2].
    destruct F as (I2 & Hm & Hys & (new & -> & Hl)).
    assert (I3 : Inv d (q' ++ new) m2 (x :: out) (x :: out)).
    { destruct I2. split; auto. intros a b [<-|Ha] Hb; eauto. }
    apply IH; auto.
    pose proof (len_bound m2 (i_mnd _ _ _ _ _ I3) (i_rng _ _ _ _ _ I3)).
    rewrite app_length. cbn [length] in Hf. lia.
Qed.

Theorem orbit_spec d : d <> 0 -> d < n ->
  exists l, orbit (2 * N.to_nat n + 2) d = Some l /\ hd_error l = Some d /\ NoDup l /\ ~ In 0 l /\
            forall e, In e l <-> reach d e.
Proof.
  intros Hd Hdn. unfold orbit.
  assert (I0 : Inv d [d] [d; 0] [] []).
  { split; cbn.
    - repeat constructor; cbn; intuition.
    - intros x. intuition.
    - intuition.
    - intros x [<-|[]]. constructor.
    - intros ? ? [].
    - auto.
    - repeat constructor; cbn; intuition.
    - intros x [<-|[<-|[]]]; lia.
    - reflexivity. }
  destruct (bfs_loop d (2 * N.to_nat n + 2) [d] [d; 0] [] I0) as (out & m & E & I); [cbn; lia|].
  exists (rev out). split; auto. destruct I as [ND MK NZ RC CL ST MND RNG HD].
  rewrite app_nil_r in *. split; [exact HD|]. split; [now apply NoDup_rev|].
  split; [now rewrite <- in_rev|].
  intros e. rewrite <- in_rev. split; auto.
  induction 1 as [|x y Rxy IH Hy Hy0]; auto.
  specialize (CL x y IH Hy). apply MK in CL as [->|]; [congruence|auto].
Qed.
End BFS.

