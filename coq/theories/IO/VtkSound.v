(** * Soundness of the multiset comparison used by the C11 validator (Extract/VtkOracle.v):
    a positive answer exhibits a permutation of the second list that is elementwise related to the first. *)
From Coq Require Import List Bool Permutation.
From HC Require Import Extract.VtkOracle.
Import ListNotations.

Section MSet.
Variable X : Type.
Variable eqv : X -> X -> bool.
Variable Rel : X -> X -> Prop.
Hypothesis eqv_sound : forall x y, eqv x y = true -> Rel x y.

Lemma remove_first_spec x : forall l l', remove_first eqv x l = Some l' ->
  exists y, Rel x y /\ Permutation l (y :: l').
Proof.
  induction l as [|z r IH]; intros l' Hr; cbn in Hr; [discriminate|].
  destruct (eqv x z) eqn:Ez.
  - injection Hr as <-. exists z. split; [now apply eqv_sound|reflexivity].
  - destruct (remove_first eqv x r) as [r'|] eqn:Er; [|discriminate]. injection Hr as <-.
    destruct (IH r' eq_refl) as (y & Hy & Hp). exists y. split; [exact Hy|].
    rewrite Hp. apply perm_swap.
Qed.

Theorem mset_eqb_sound : forall a b, mset_eqb eqv a b = true ->
  exists b', Permutation b b' /\ Forall2 Rel a b'.
Proof.
  induction a as [|x r IH]; intros b Hb; cbn in Hb.
  - destruct b; [|discriminate]. exists []. split; constructor.
  - destruct (remove_first eqv x b) as [b1|] eqn:Er; [|discriminate].
    destruct (remove_first_spec x b b1 Er) as (y & Hy & Hp).
    destruct (IH b1 Hb) as (b2 & Hp2 & Hf).
    exists (y :: b2). split; [rewrite Hp; now constructor|now constructor].
Qed.
End MSet.
