(** * C10: building from a (lexed) cmap text yields a builder error or a well-formed map,
    never a panic -- for every file.  (After the fix of build_2d_from_cmap_file.) *)
From Coq Require Import List NArith Bool Lia.
From HC Require Import Stm.Prog Stm.ProgFacts Map2.Ops2 Map2.State2 Map2.Wf2 Map2.Wf2Proofs Map2.Wf2Dec
  Map2.Orbit2 IO.CMapText.
Import ListNotations.
Open Scope N_scope.
Arguments N.add : simpl never. Arguments N.eqb : simpl never. Arguments N.ltb : simpl never.
Arguments N.leb : simpl never.

Section Safe.
Context `{Sig}.
Variable mk_vertex : Sc -> Sc -> V.
Variable sc_of_int : BinNums.Z -> Sc.

Lemma in_tl_nrange n d : In d (tl (nrange (n + 1))) <-> 1 <= d <= n.
Proof.
  unfold nrange. replace (N.to_nat (n + 1)) with (S (N.to_nat n)) by lia. cbn [seq map tl].
  rewrite in_map_iff. split.
  - intros (k & <- & Hk). apply in_seq in Hk. lia.
  - intros Hd. exists (N.to_nat d). split; [lia|]. apply in_seq. lia.
Qed.

Lemma beta_rows b0 b1 b2 i d : i < 3 ->
  beta (rows_store b0 b1 b2) i d =
  if d =? 0 then 0 else nthN0 (match i with 0 => b0 | 1 => b1 | _ => b2 end) d.
Proof.
  intros Hi. unfold beta, rows_store.
  assert (Hc : i = 0 \/ i = 1 \/ i = 2) by lia. destruct Hc as [->|[->| ->]]; reflexivity.
Qed.

Lemma rows_store_wf n b0 b1 b2 : rows_valid n b0 b1 b2 = true -> wf2 (n + 1) (rows_store b0 b1 b2).
Proof.
  unfold rows_valid. rewrite !andb_true_iff, forallb_forall. intros (((Z0 & Z1) & Z2) & Hall).
  assert (Hd : forall d, 1 <= d <= n ->
    let i0 := nthN0 b0 d in let i1 := nthN0 b1 d in let i2 := nthN0 b2 d in
    i0 <= n /\ i1 <= n /\ i2 <= n /\ (i1 <> 0 -> nthN0 b0 i1 = d) /\ (i0 <> 0 -> nthN0 b1 i0 = d) /\
    (i2 <> 0 -> i2 <> d /\ nthN0 b2 i2 = d)).
  { intros d Hd. specialize (Hall d (proj2 (in_tl_nrange n d) Hd)). cbv zeta in *.
    rewrite !andb_true_iff, !orb_true_iff, !andb_true_iff, !N.leb_le, !N.eqb_eq, negb_true_iff, N.eqb_neq in Hall.
    intuition. }
  constructor.
  - intros i Hi. rewrite beta_rows by exact Hi. reflexivity.
  - intros i d Hi Hdn. rewrite beta_rows by exact Hi.
    destruct (N.eqb_spec d 0); [lia|]. destruct (Hd d ltac:(lia)) as (A & B & C & _).
    assert (Hc : i = 0 \/ i = 1 \/ i = 2) by lia. destruct Hc as [->|[->| ->]]; lia.
  - intros d Hdn Hne. rewrite !beta_rows in * by lia.
    destruct (N.eqb_spec d 0) as [->|Hd0]; [congruence|].
    destruct (Hd d ltac:(lia)) as (_ & _ & _ & A & _).
    destruct (N.eqb_spec (nthN0 b1 d) 0); [congruence|]. auto.
  - intros d Hdn Hne. rewrite !beta_rows in * by lia.
    destruct (N.eqb_spec d 0) as [->|Hd0]; [congruence|].
    destruct (Hd d ltac:(lia)) as (_ & _ & _ & _ & A & _).
    destruct (N.eqb_spec (nthN0 b0 d) 0); [congruence|]. auto.
  - intros d Hdn Hne. rewrite !beta_rows in * by lia.
    destruct (N.eqb_spec d 0) as [->|Hd0]; [congruence|].
    destruct (Hd d ltac:(lia)) as (_ & _ & _ & _ & _ & A). specialize (A Hne) as [A1 A2].
    destruct (N.eqb_spec (nthN0 b2 d) 0); [congruence|]. auto.
  - intros d Hdn Hu. unfold unused, rows_store in Hu. cbn in Hu. discriminate.
Qed.

Definition safe (n : N) (r : iores state2) : Prop :=
  match r with
  | IPanic => False
  | IErr _ => True
  | IOk st => nd st = n + 1 /\ wf2 (nd st) (mem st)
  end.

Lemma load_unused_safe n : forall ts st, nd st = n + 1 -> wf2 (nd st) (mem st) -> safe n (load_unused n st ts).
Proof.
  induction ts as [|t r IH]; intros st Hn W; cbn [load_unused safe]; [auto|].
  destruct (u32_of t) as [d|]; [|exact I].
  destruct ((d =? 0) || (n <? d)) eqn:E1; [exact I|].
  apply orb_false_iff in E1 as [E1 E2]. apply N.eqb_neq in E1. apply N.ltb_ge in E2.
  destruct (negb (is_free2 (mem st) d) || unused (mem st) d) eqn:E3; [exact I|].
  apply orb_false_iff in E3 as [E3 E4]. apply negb_false_iff in E3.
  unfold remove_free_dart. destruct (N.ltb_spec d (nd st)); [|lia]. cbn [negb]. rewrite E3, E4. cbn [negb].
  apply IH; cbn [with_mem nd mem]; [exact Hn|]. apply wf2_set_unused; auto.
Qed.

Lemma load_vertices_safe n : forall ls st, nd st = n + 1 -> wf2 (nd st) (mem st) ->
  safe n (load_vertices mk_vertex sc_of_int n st ls).
Proof.
  induction ls as [|l r IH]; intros st Hn W; cbn [load_vertices safe]; [auto|].
  destruct l as [|tid [|tx [|ty [|? ?]]]]; try exact I.
  destruct (u32_of tid) as [id|]; [|exact I].
  destruct (f64_of sc_of_int tx) as [x|]; [|exact I].
  destruct (f64_of sc_of_int ty) as [y|]; [|exact I].
  destruct ((id =? 0) || (n <? id)); [exact I|].
  apply IH; cbn [with_mem nd mem]; [exact Hn|].
  eapply wf2_ext; [exact W|]. split; intros; [apply beta_upd_other | apply unused_upd_other]; intros; discriminate.
Qed.

Theorem build_from_file_safe dim n f : safe n (build_from_file mk_vertex sc_of_int dim n f).
Proof.
  unfold build_from_file. destruct (negb (dim =? 2)); [exact I|].
  destruct (f_betas f) as [|r0 [|r1 [|r2 [|? ?]]]]; try exact I.
  destruct (negb _ || negb _ || negb _); [exact I|].
  destruct (parse_row r0) as [b0|]; [|exact I].
  destruct (parse_row r1) as [b1|]; [|exact I].
  destruct (parse_row r2) as [b2|]; [|exact I].
  destruct (rows_valid n b0 b1 b2) eqn:Ev; cbn [negb]; [|exact I].
  pose proof (rows_store_wf n b0 b1 b2 Ev) as W.
  set (st := {| nd := n + 1; mem := rows_store b0 b1 b2; aks := [] |}).
  assert (S0 : safe n (match f_unused f with Some ls => load_unused n st (concat ls) | None => IOk st end)).
  { destruct (f_unused f); [apply load_unused_safe; auto | split; auto]. }
  destruct (match f_unused f with Some ls => load_unused n st (concat ls) | None => IOk st end) as [st1|e|]; cbn [safe] in S0;
    [|exact I|contradiction].
  destruct S0 as [Hn1 W1]. destruct (f_vertices f); [apply load_vertices_safe; auto | split; auto].
Qed.

(** building from any list of items: an error or a well-formed map, never a panic *)
Theorem build_from_items_safe its :
  match build_from_items mk_vertex sc_of_int its with
  | IPanic => False
  | IErr _ => True
  | IOk st => 0 < nd st /\ wf2 (nd st) (mem st)
  end.
Proof.
  unfold build_from_items.
  destruct (parse_file its) as [[[dim n] f]|e|] eqn:Ep; [|exact I|].
  - pose proof (build_from_file_safe dim n f) as S0.
    destruct (build_from_file mk_vertex sc_of_int dim n f); cbn [safe] in S0; auto.
    destruct S0 as [Hn W]. split; [lia|exact W].
  - unfold parse_file in Ep.
    assert (Hs : forall l c acc, split_sections l c acc <> IPanic).
    { induction l as [|[[s|]|ts] l IHl]; intros c acc; cbn [split_sections]; try discriminate.
      - destruct (secs_get acc s); [discriminate|apply IHl].
      - destruct c, ts; apply IHl. }
    destruct (split_sections its None []) as [secs|e|] eqn:Es; [|discriminate|exfalso; eapply Hs; eauto].
    destruct (secs_get secs SMeta); [|discriminate]. destruct (secs_get secs SBetas); [|discriminate].
    destruct (concat l) as [|? [|d0 [|n0 [|? ?]]]]; try discriminate.
    destruct (usize_of d0), (usize_of n0); discriminate.
Qed.

End Safe.
