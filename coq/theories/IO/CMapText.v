(** * The cmap text format at the level of lexed items (C09, C10).
    Sources: cmap/dim2/serialize.rs (serialize), cmap/builder/io.rs (CMapFile::try_from,
    parse_meta, build_2d_from_cmap_file).  Model only, no proofs.

    A text is a list of items: section headers and content lines made of tokens. The lexical
    layer (trim, comment stripping, split on whitespace, padding of columns, decimal and float
    printing / parsing) is outside this model; it is exercised by the correspondence runs. *)
From Coq Require Import List NArith ZArith Bool.
From HC Require Import Stm.Prog Map2.Ops2 Map2.State2 Map2.Wf2 Map2.Orbit2.
Import ListNotations.
Open Scope N_scope.

Section CMapText.
Context `{Sig}.

(** a token as the parsers see it: an integer literal, a float literal, or something else *)
Inductive ctok := CInt (z : Z) | CFloat (v : Sc) | CBad.

(** section names *)
Inductive sect := SMeta | SBetas | SUnused | SVertices.
Inductive item := IHeader (s : option sect)      (* None: a bracketed line that is not a known section *)
                | ILine (ts : list ctok).

Definition sect_eqb (a b : sect) : bool :=
  match a, b with
  | SMeta, SMeta | SBetas, SBetas | SUnused, SUnused | SVertices, SVertices => true
  | _, _ => false
  end.

Record cmapfile := { f_meta : list (list ctok); f_betas : list (list ctok);
                     f_unused : option (list (list ctok)); f_vertices : option (list (list ctok)) }.

Inductive ioerr := EUnknownHeader | EDuplicated | EMissing | EBadMeta | EInconsistent | EBadValue.
Inductive iores (X : Type) := IOk (x : X) | IErr (e : ioerr) | IPanic.
Arguments IOk {X}. Arguments IErr {X}. Arguments IPanic {X}.

(** ** CMapFile::try_from : sections as association list (section, lines in order) *)
Fixpoint secs_get (l : list (sect * list (list ctok))) (s : sect) : option (list (list ctok)) :=
  match l with
  | [] => None
  | (s', c) :: r => if sect_eqb s s' then Some c else secs_get r s
  end.
Fixpoint secs_append (l : list (sect * list (list ctok))) (s : sect) (line : list ctok) :=
  match l with
  | [] => []
  | (s', c) :: r => if sect_eqb s s' then (s', c ++ [line]) :: r else (s', c) :: secs_append r s line
  end.

Fixpoint split_sections (its : list item) (cur : option sect) (acc : list (sect * list (list ctok)))
  : iores (list (sect * list (list ctok))) :=
  match its with
  | [] => IOk acc
  | IHeader None :: _ => IErr EUnknownHeader
  | IHeader (Some s) :: r =>
    match secs_get acc s with
    | Some _ => IErr EDuplicated
    | None => split_sections r (Some s) (acc ++ [(s, [])])
    end
  | ILine ts :: r =>
    match cur, ts with
    | Some s, _ :: _ => split_sections r cur (secs_append acc s ts)
    | _, _ => split_sections r cur acc          (* before the first header / empty after comment removal *)
    end
  end.

Definition usize_of (t : ctok) : option N :=
  match t with CInt z => if (0 <=? z)%Z && (z <? 18446744073709551616)%Z then Some (Z.to_N z) else None | _ => None end.
Definition u32_of (t : ctok) : option N :=
  match t with CInt z => if (0 <=? z)%Z && (z <? 4294967296)%Z then Some (Z.to_N z) else None | _ => None end.

Definition parse_file (its : list item) : iores (N * N * cmapfile) :=     (* (dimension, n darts, file) *)
  match split_sections its None [] with
  | IErr e => IErr e
  | IPanic => IPanic
  | IOk secs =>
    match secs_get secs SMeta, secs_get secs SBetas with
    | None, _ => IErr EMissing
    | _, None => IErr EMissing
    | Some meta, Some betas =>
      match concat meta with
      | [_; d; n] =>
        match usize_of d, usize_of n with
        | Some dim, Some nd => IOk (dim, nd, {| f_meta := meta; f_betas := betas;
                                                f_unused := secs_get secs SUnused; f_vertices := secs_get secs SVertices |})
        | _, _ => IErr EBadMeta
        end
      | _ => IErr EBadMeta
      end
    end
  end.

(** ** build_2d_from_cmap_file *)
Variable mk_vertex : Sc -> Sc -> V.            (* (T::from(x), T::from(y)) *)
Variable sc_of_int : Z -> Sc.                  (* "3".parse::<f64>() *)

Definition f64_of (t : ctok) : option Sc :=
  match t with CInt z => Some (sc_of_int z) | CFloat v => Some v | CBad => None end.

(* each row is parsed completely (first failure aborts), then validated, then loaded *)
Fixpoint parse_row (r : list ctok) : option (list N) :=
  match r with
  | [] => Some []
  | t :: r' => match u32_of t, parse_row r' with Some x, Some l => Some (x :: l) | _, _ => None end
  end.

Definition nthN0 (l : list N) (i : N) : N := nth (N.to_nat i) l 0.

(* null dart inert, images in range, b0 inverse of b1, b2 involution without fixed point *)
Definition rows_valid (n : N) (b0 b1 b2 : list N) : bool :=
  (nthN0 b0 0 =? 0) && (nthN0 b1 0 =? 0) && (nthN0 b2 0 =? 0) &&
  forallb (fun d =>
    let i0 := nthN0 b0 d in let i1 := nthN0 b1 d in let i2 := nthN0 b2 d in
    (i0 <=? n) && (i1 <=? n) && (i2 <=? n) &&
    ((i1 =? 0) || (nthN0 b0 i1 =? d)) && ((i0 =? 0) || (nthN0 b1 i0 =? d)) &&
    ((i2 =? 0) || (negb (i2 =? d) && (nthN0 b2 i2 =? d))))
  (tl (nrange (n + 1))).

Definition rows_store (b0 b1 b2 : list N) : store :=
  fun v => match v with
           | XBeta 0 d => VN (if d =? 0 then 0 else nthN0 b0 d)
           | XBeta 1 d => VN (if d =? 0 then 0 else nthN0 b1 d)
           | XBeta 2 d => VN (if d =? 0 then 0 else nthN0 b2 d)
           | _ => blank v
           end.

Fixpoint load_unused (n : N) (st : state2) (ts : list ctok) : iores state2 :=
  match ts with
  | [] => IOk st
  | t :: r =>
    match u32_of t with
    | None => IErr EBadValue
    | Some d =>
      if (d =? 0) || (n <? d) then IErr EInconsistent
      else if negb (is_free2 (mem st) d) || unused (mem st) d then IErr EInconsistent
      else match remove_free_dart st d with
           | (ROk _, st') => load_unused n st' r
           | _ => IPanic
           end
    end
  end.

Fixpoint load_vertices (n : N) (st : state2) (ls : list (list ctok)) : iores state2 :=
  match ls with
  | [] => IOk st
  | [tid; tx; ty] :: r =>
    match u32_of tid with
    | None => IErr EBadValue
    | Some id =>
      match f64_of tx with
      | None => IErr EBadValue
      | Some x =>
        match f64_of ty with
        | None => IErr EBadValue
        | Some y =>
          if (id =? 0) || (n <? id) then IErr EInconsistent
          else load_vertices n (with_mem st (upd (mem st) (XVertex id) (VV (Some (mk_vertex x y))))) r
        end
      end
    end
  | _ :: _ => IErr EBadValue                     (* "incorrect vertex line format" *)
  end.

Definition build_from_file (dim n : N) (f : cmapfile) : iores state2 :=
  if negb (dim =? 2) then IErr EBadMeta else
  match f_betas f with
  | [r0; r1; r2] =>
    if negb (N.of_nat (length r0) =? n + 1) || negb (N.of_nat (length r1) =? n + 1) || negb (N.of_nat (length r2) =? n + 1)
    then IErr EInconsistent else
    match parse_row r0, parse_row r1, parse_row r2 with
    | Some b0, Some b1, Some b2 =>
      if negb (rows_valid n b0 b1 b2) then IErr EInconsistent else
      let st := {| nd := n + 1; mem := rows_store b0 b1 b2; aks := [] |} in
      match (match f_unused f with Some ls => load_unused n st (concat ls) | None => IOk st end) with
      | IErr e => IErr e
      | IPanic => IPanic
      | IOk st1 =>
        match f_vertices f with
        | Some ls => load_vertices n st1 ls
        | None => IOk st1
        end
      end
    | _, _, _ => IErr EBadValue
    end
  | _ => IErr EInconsistent
  end.

Definition build_from_items (its : list item) : iores state2 :=
  match parse_file its with
  | IOk (dim, n, f) => build_from_file dim n f
  | IErr e => IErr e
  | IPanic => IPanic
  end.

(** ** serialize *)
Variable v_x : V -> Sc.
Variable v_y : V -> Sc.
Variable tok_of_sc : Sc -> ctok.       (* how Display renders a coordinate and how the lexer reads it back *)

Definition ser_items (st : state2) : list item :=
  let n := nd st in let s := mem st in
  let row i := ILine (map (fun d => CInt (Z.of_N (beta s i d))) (nrange n)) in
  [IHeader (Some SMeta); ILine [CBad; CInt 2; CInt (Z.of_N (n - 1))];
   IHeader (Some SBetas); row 0; row 1; row 2;
   IHeader (Some SUnused); ILine (map (fun d => CInt (Z.of_N d)) (filter (unused s) (nrange n)));
   IHeader (Some SVertices)] ++
  flat_map (fun v => match vertex s v with
                     | Some p => [ILine [CInt (Z.of_N v); tok_of_sc (v_x p); tok_of_sc (v_y p)]]
                     | None => []
                     end)
           (iter_vertices2 (env2 st None) n s).

End CMapText.

Arguments IOk {X}. Arguments IErr {X}. Arguments IPanic {X}.
