(** * C09 at the level of lexed items: building a map from the items [serialize] writes gives the same map back.
    For every well-formed 2-map (any number of darts below 2^32, any removed darts, any vertices defined or
    not).  Assumed about the lexical layer (Section hypotheses, exercised by the correspondence runs): a printed
    coordinate is read back as the same value, and a vertex is rebuilt from its two coordinates. *)
From Coq Require Import List NArith ZArith Bool Lia.
From HC Require Import Stm.Prog Stm.ProgFacts Map2.Ops2 Map2.State2 Map2.Wf2 Map2.Wf2Proofs Map2.Wf2Dec
  Map2.Orbit2 Map2.Orbit2Proofs IO.CMapText IO.CMapSafe.
Import ListNotations.
Open Scope N_scope.
Arguments N.add : simpl never. Arguments N.sub : simpl never. Arguments N.eqb : simpl never. Arguments N.ltb : simpl never.
Arguments N.leb : simpl never.

Section Round.
Context `{Sig}.
Variable mk_vertex : Sc -> Sc -> V.
Variable sc_of_int : Z -> Sc.
Variable v_x v_y : V -> Sc.
Variable tok_of_sc : Sc -> ctok.
Hypothesis read_printed : forall v, f64_of sc_of_int (tok_of_sc v) = Some v.
Hypothesis rebuild_vertex : forall p, mk_vertex (v_x p) (v_y p) = p.

(** ** lists *)
Lemma nrange_S n : 0 < n -> exists r, nrange n = 0 :: r.
Proof.
  intros Hn. unfold nrange. destruct (N.to_nat n) as [|k] eqn:Ek; [lia|]. cbn. eauto.
Qed.

Lemma nthN0_map (g : N -> N) n d : d < n -> nthN0 (map g (nrange n)) d = g d.
Proof.
  intros Hd. unfold nthN0, nrange. rewrite map_map.
  rewrite (nth_indep _ 0 (g (N.of_nat 0))) by (rewrite map_length, seq_length; lia).
  rewrite (map_nth (fun k => g (N.of_nat k)) (seq 0 (N.to_nat n)) 0%nat).
  rewrite seq_nth by lia. cbn. now rewrite N2Nat.id.
Qed.

Lemma length_nrange n : N.of_nat (length (nrange n)) = n.
Proof. unfold nrange. rewrite map_length, seq_length. apply N2Nat.id. Qed.

(** ** reading back what was written *)
Lemma u32_of_N x : x < 4294967296 -> u32_of (CInt (Z.of_N x)) = Some x.
Proof.
  intros Hx. unfold u32_of.
  replace ((0 <=? Z.of_N x)%Z && (Z.of_N x <? 4294967296)%Z) with true.
  - now rewrite N2Z.id.
  - symmetry. apply andb_true_iff. split; [apply Z.leb_le; lia|apply Z.ltb_lt; lia].
Qed.
Lemma usize_of_N x : x < 4294967296 -> usize_of (CInt (Z.of_N x)) = Some x.
Proof.
  intros Hx. unfold usize_of.
  replace ((0 <=? Z.of_N x)%Z && (Z.of_N x <? 18446744073709551616)%Z) with true.
  - now rewrite N2Z.id.
  - symmetry. apply andb_true_iff. split; [apply Z.leb_le; lia|apply Z.ltb_lt; lia].
Qed.

Lemma parse_row_map (g : N -> N) l : (forall d, In d l -> g d < 4294967296) ->
  parse_row (map (fun d => CInt (Z.of_N (g d))) l) = Some (map g l).
Proof.
  induction l as [|d l IH]; intros Hg; cbn [map parse_row]; [reflexivity|].
  rewrite u32_of_N by (apply Hg; now left). rewrite IH by (intros; apply Hg; now right). reflexivity.
Qed.

(** ** splitting the sections of what [ser_items] writes *)
Definition acc4 (m b u v : list (list ctok)) : list (sect * list (list ctok)) :=
  [(SMeta, m); (SBetas, b); (SUnused, u); (SVertices, v)].

Lemma split_vertex_lines ls : forall m b u v, (forall l, In l ls -> l <> []) ->
  split_sections (map ILine ls) (Some SVertices) (acc4 m b u v) = IOk (acc4 m b u (v ++ ls)).
Proof.
  induction ls as [|l ls IH]; intros m b u v Hne; cbn [map split_sections].
  - now rewrite app_nil_r.
  - destruct l as [|t l']; [exfalso; apply (Hne []); [now left|reflexivity]|].
    unfold acc4 at 1. cbn [secs_append sect_eqb]. fold (acc4 m b u (v ++ [t :: l'])).
    rewrite IH by (intros; apply Hne; now right). now rewrite <- app_assoc.
Qed.

Definition vertex_lines (st : state2) : list (list ctok) :=
  flat_map (fun v => match vertex (mem st) v with
                     | Some p => [[CInt (Z.of_N v); tok_of_sc (v_x p); tok_of_sc (v_y p)]]
                     | None => []
                     end)
           (iter_vertices2 (env2 st None) (nd st) (mem st)).
Definition beta_row (st : state2) (i : N) : list ctok := map (fun d => CInt (Z.of_N (beta (mem st) i d))) (nrange (nd st)).
Definition unused_line (st : state2) : list ctok := map (fun d => CInt (Z.of_N d)) (filter (unused (mem st)) (nrange (nd st))).

Lemma ser_items_shape st :
  ser_items v_x v_y tok_of_sc st =
  [IHeader (Some SMeta); ILine [CBad; CInt 2; CInt (Z.of_N (nd st - 1))];
   IHeader (Some SBetas); ILine (beta_row st 0); ILine (beta_row st 1); ILine (beta_row st 2);
   IHeader (Some SUnused); ILine (unused_line st);
   IHeader (Some SVertices)] ++ map ILine (vertex_lines st).
Proof.
  unfold ser_items, vertex_lines. f_equal.
  induction (iter_vertices2 (env2 st None) (nd st) (mem st)) as [|v L IH]; [reflexivity|].
  cbn [flat_map]. rewrite map_app, IH. f_equal. destruct (vertex (mem st) v); reflexivity.
Qed.

Lemma vertex_lines_nonempty st l : In l (vertex_lines st) -> l <> [].
Proof.
  unfold vertex_lines. rewrite in_flat_map. intros (v & _ & Hl). destruct (vertex (mem st) v); [|contradiction].
  destruct Hl as [<-|[]]. discriminate.
Qed.

Lemma parse_file_ser st : 0 < nd st -> nd st <= 4294967296 ->
  parse_file (ser_items v_x v_y tok_of_sc st) =
  IOk (2, nd st - 1,
       {| f_meta := [[CBad; CInt 2; CInt (Z.of_N (nd st - 1))]];
          f_betas := [beta_row st 0; beta_row st 1; beta_row st 2];
          f_unused := Some (match unused_line st with [] => [] | l => [l] end);
          f_vertices := Some (vertex_lines st) |}).
Proof.
  intros Hn Hmax. unfold parse_file. rewrite ser_items_shape.
  destruct (nrange_S (nd st) Hn) as (r & Er).
  assert (Hrow : forall i, exists t l, beta_row st i = t :: l) by (intros i; unfold beta_row; rewrite Er; cbn; eauto).
  destruct (Hrow 0) as (t0 & l0 & E0), (Hrow 1) as (t1 & l1 & E1), (Hrow 2) as (t2 & l2 & E2).
  cbn [app split_sections secs_get sect_eqb]. rewrite E0, E1, E2.
  cbn [app split_sections secs_get secs_append sect_eqb].
  assert (Hu : forall rest acc,
    split_sections (ILine (unused_line st) :: rest) (Some SUnused) (acc4 [[CBad; CInt 2; CInt (Z.of_N (nd st - 1))]] [t0 :: l0; t1 :: l1; t2 :: l2] [] acc) =
    split_sections rest (Some SUnused) (acc4 [[CBad; CInt 2; CInt (Z.of_N (nd st - 1))]] [t0 :: l0; t1 :: l1; t2 :: l2]
                                          (match unused_line st with [] => [] | l => [l] end) acc)).
  { intros rest acc. cbn [split_sections]. destruct (unused_line st); reflexivity. }
  (* the accumulator before the UNUSED header has three entries: rebuild it step by step *)
  change (split_sections
    (IHeader (Some SUnused) :: ILine (unused_line st) :: IHeader (Some SVertices) :: map ILine (vertex_lines st))
    (Some SBetas)
    [(SMeta, [[CBad; CInt 2; CInt (Z.of_N (nd st - 1))]]); (SBetas, [t0 :: l0; t1 :: l1; t2 :: l2])])
    with (split_sections (ILine (unused_line st) :: IHeader (Some SVertices) :: map ILine (vertex_lines st)) (Some SUnused)
            [(SMeta, [[CBad; CInt 2; CInt (Z.of_N (nd st - 1))]]); (SBetas, [t0 :: l0; t1 :: l1; t2 :: l2]); (SUnused, [])]).
  cbn [split_sections]. destruct (unused_line st) as [|tu lu] eqn:Eu.
  - cbn [secs_get sect_eqb app].
    change [(SMeta, [[CBad; CInt 2; CInt (Z.of_N (nd st - 1))]]); (SBetas, [t0 :: l0; t1 :: l1; t2 :: l2]); (SUnused, []); (SVertices, [])]
      with (acc4 [[CBad; CInt 2; CInt (Z.of_N (nd st - 1))]] [t0 :: l0; t1 :: l1; t2 :: l2] [] []).
    rewrite split_vertex_lines by apply vertex_lines_nonempty.
    cbn [acc4 secs_get sect_eqb concat app]. rewrite usize_of_N by lia.
    change (usize_of (CInt 2)) with (Some 2). reflexivity.
  - cbn [secs_append sect_eqb secs_get app].
    change [(SMeta, [[CBad; CInt 2; CInt (Z.of_N (nd st - 1))]]); (SBetas, [t0 :: l0; t1 :: l1; t2 :: l2]); (SUnused, [tu :: lu]); (SVertices, [])]
      with (acc4 [[CBad; CInt 2; CInt (Z.of_N (nd st - 1))]] [t0 :: l0; t1 :: l1; t2 :: l2] [tu :: lu] []).
    rewrite split_vertex_lines by apply vertex_lines_nonempty.
    cbn [acc4 secs_get sect_eqb concat app]. rewrite usize_of_N by lia.
    change (usize_of (CInt 2)) with (Some 2). reflexivity.
Qed.

(** ** rebuilding *)
Definition rowN (st : state2) (i : N) : list N := map (beta (mem st) i) (nrange (nd st)).

Lemma beta_row_parse st i : wf2 (nd st) (mem st) -> nd st <= 4294967296 -> i < 3 ->
  parse_row (beta_row st i) = Some (rowN st i).
Proof.
  intros W Hmax Hi. unfold beta_row, rowN. apply parse_row_map.
  intros d Hd. apply in_nrange in Hd. pose proof (in_range _ _ W i d Hi Hd). lia.
Qed.

Lemma nth_row st i d : d < nd st -> nthN0 (rowN st i) d = beta (mem st) i d.
Proof. intros Hd. unfold rowN. now apply nthN0_map. Qed.

Lemma rows_valid_wf st : wf2 (nd st) (mem st) -> 0 < nd st ->
  rows_valid (nd st - 1) (rowN st 0) (rowN st 1) (rowN st 2) = true.
Proof.
  intros W Hn. destruct W as [W1 W2 W3 W4 W5 W6].
  unfold rows_valid. rewrite !andb_true_iff, forallb_forall. repeat split.
  - rewrite nth_row by exact Hn. apply N.eqb_eq. apply W1; lia.
  - rewrite nth_row by exact Hn. apply N.eqb_eq. apply W1; lia.
  - rewrite nth_row by exact Hn. apply N.eqb_eq. apply W1; lia.
  - intros d Hd. apply in_tl_nrange in Hd. assert (Hdn : d < nd st) by lia. cbv zeta.
    rewrite !(nth_row st _ d Hdn).
    pose proof (W2 0 d ltac:(lia) Hdn) as R0. pose proof (W2 1 d ltac:(lia) Hdn) as R1. pose proof (W2 2 d ltac:(lia) Hdn) as R2.
    rewrite !(nth_row st _ _ R0), !(nth_row st _ _ R1), !(nth_row st _ _ R2).
    rewrite !andb_true_iff, !orb_true_iff, !andb_true_iff, !N.leb_le, !N.eqb_eq, negb_true_iff, N.eqb_neq.
    repeat split; try lia.
    + destruct (N.eq_dec (beta (mem st) 1 d) 0); [now left|right; now apply W3].
    + destruct (N.eq_dec (beta (mem st) 0 d) 0); [now left|right; now apply W4].
    + destruct (N.eq_dec (beta (mem st) 2 d) 0) as [E0|E0]; [now left|right]. destruct (W5 d Hdn E0). split; auto.
Qed.

(** the rebuilt topology *)
Definition st0 (st : state2) : state2 :=
  {| nd := nd st - 1 + 1; mem := rows_store (rowN st 0) (rowN st 1) (rowN st 2); aks := [] |}.

Lemma beta_st0 st i d : wf2 (nd st) (mem st) -> i < 3 -> d < nd st -> beta (mem (st0 st)) i d = beta (mem st) i d.
Proof.
  intros W Hi Hd. cbn [st0 mem]. rewrite beta_rows by exact Hi.
  destruct (N.eqb_spec d 0) as [->|Hd0]; [symmetry; apply (null_inert _ _ W); exact Hi|].
  assert (Hc : i = 0 \/ i = 1 \/ i = 2) by lia. destruct Hc as [->|[->| ->]]; now apply nth_row.
Qed.

Definition flags (L : list N) (m : store) : store := fold_left (fun m d => upd m (XUnused d) (VB true)) L m.
Lemma flags_beta L : forall m i d, beta (flags L m) i d = beta m i d.
Proof.
  induction L as [|x L IH]; intros m i d; cbn [flags fold_left]; [reflexivity|].
  fold (flags L (upd m (XUnused x) (VB true))). rewrite IH. apply beta_upd_other. intros; discriminate.
Qed.
Lemma flags_unused L : forall m d, unused (flags L m) d = if mem_N d L then true else unused m d.
Proof.
  induction L as [|x L IH]; intros m d; cbn [flags fold_left mem_N existsb]; [reflexivity|].
  fold (flags L (upd m (XUnused x) (VB true))). rewrite IH. fold (mem_N d L).
  rewrite unused_upd_unused. destruct (N.eqb_spec d x) as [->|Hne]; cbn [orb].
  - destruct (mem_N x L); reflexivity.
  - reflexivity.
Qed.
Lemma flags_vertex L : forall m v, vertex (flags L m) v = vertex m v.
Proof.
  induction L as [|x L IH]; intros m v; cbn [flags fold_left]; [reflexivity|].
  fold (flags L (upd m (XUnused x) (VB true))). rewrite IH. unfold vertex. rewrite upd_other; [reflexivity|discriminate].
Qed.

Lemma is_free2_flags L m d : is_free2 (flags L m) d = is_free2 m d.
Proof. unfold is_free2. now rewrite !flags_beta. Qed.

Lemma load_unused_ok n : forall L st1, NoDup L -> nd st1 = n + 1 -> n + 1 <= 4294967296 ->
  (forall d, In d L -> d <> 0 /\ d <= n /\ is_free2 (mem st1) d = true /\ unused (mem st1) d = false) ->
  load_unused n st1 (map (fun d => CInt (Z.of_N d)) L) = IOk (with_mem st1 (flags L (mem st1))).
Proof.
  induction L as [|x L IH]; intros st1 ND Hnd Hmax Hall; cbn [map load_unused flags fold_left].
  - destruct st1; reflexivity.
  - inversion ND as [|? ? Hnin ND']; subst.
    destruct (Hall x (or_introl eq_refl)) as (Hx0 & Hxn & Hfree & Hun).
    rewrite u32_of_N by lia.
    destruct (N.eqb_spec x 0); [congruence|]. destruct (N.ltb_spec n x); [lia|]. cbn [orb].
    rewrite Hfree, Hun. cbn [negb orb].
    unfold remove_free_dart. rewrite Hnd. destruct (N.ltb_spec x (n + 1)); [|lia]. cbn [negb].
    rewrite Hfree, Hun. cbn [negb].
    rewrite IH; auto.
    intros d Hd. destruct (Hall d (or_intror Hd)) as (A & B & C & D).
    split; [exact A|]. split; [exact B|]. cbn [with_mem mem]. split.
    + rewrite <- C. exact (is_free2_flags [x] (mem st1) d).
    + rewrite unused_upd_unused. destruct (N.eqb_spec d x) as [->|]; [contradiction|exact D].
Qed.

(** the vertices written back *)
Definition vpairs (st : state2) : list (N * V) :=
  flat_map (fun v => match vertex (mem st) v with Some p => [(v, p)] | None => [] end)
           (iter_vertices2 (env2 st None) (nd st) (mem st)).
Definition vwrites (VL : list (N * V)) (m : store) : store :=
  fold_left (fun m vp => upd m (XVertex (fst vp)) (VV (Some (snd vp)))) VL m.

Lemma vertex_lines_pairs st :
  vertex_lines st = map (fun vp => [CInt (Z.of_N (fst vp)); tok_of_sc (v_x (snd vp)); tok_of_sc (v_y (snd vp))]) (vpairs st).
Proof.
  unfold vertex_lines, vpairs.
  induction (iter_vertices2 (env2 st None) (nd st) (mem st)) as [|v L IH]; [reflexivity|].
  cbn [flat_map]. rewrite map_app, IH. f_equal. destruct (vertex (mem st) v); reflexivity.
Qed.

Lemma load_vertices_ok n : forall VL st1, n + 1 <= 4294967296 ->
  (forall vp, In vp VL -> fst vp <> 0 /\ fst vp <= n) ->
  load_vertices mk_vertex sc_of_int n st1
    (map (fun vp => [CInt (Z.of_N (fst vp)); tok_of_sc (v_x (snd vp)); tok_of_sc (v_y (snd vp))]) VL)
  = IOk (with_mem st1 (vwrites VL (mem st1))).
Proof.
  induction VL as [|[v p] VL IH]; intros st1 Hmax Hall; cbn [map load_vertices vwrites fold_left fst snd].
  - destruct st1; reflexivity.
  - destruct (Hall (v, p) (or_introl eq_refl)) as (Hv0 & Hvn). cbn [fst snd] in *.
    rewrite u32_of_N by lia. rewrite !read_printed.
    destruct (N.eqb_spec v 0); [congruence|]. destruct (N.ltb_spec n v); [lia|]. cbn [orb].
    rewrite rebuild_vertex. rewrite IH; auto.
    intros vp Hvp. apply Hall. now right.
Qed.

Lemma vwrites_beta VL : forall m i d, beta (vwrites VL m) i d = beta m i d.
Proof.
  induction VL as [|[v p] VL IH]; intros m i d; cbn [vwrites fold_left]; [reflexivity|].
  fold (vwrites VL (upd m (XVertex v) (VV (Some p)))). rewrite IH. apply beta_upd_other. intros; discriminate.
Qed.
Lemma vwrites_unused VL : forall m d, unused (vwrites VL m) d = unused m d.
Proof.
  induction VL as [|[v p] VL IH]; intros m d; cbn [vwrites fold_left]; [reflexivity|].
  fold (vwrites VL (upd m (XVertex v) (VV (Some p)))). rewrite IH. apply unused_upd_other. intros; discriminate.
Qed.
Lemma vwrites_other VL : forall m v, ~ In v (map fst VL) -> vertex (vwrites VL m) v = vertex m v.
Proof.
  induction VL as [|[u p] VL IH]; intros m v Hn; cbn [vwrites fold_left]; [reflexivity|].
  fold (vwrites VL (upd m (XVertex u) (VV (Some p)))). cbn [map fst In] in Hn.
  rewrite IH by tauto. unfold vertex. rewrite upd_other; [reflexivity|]. intros [= ->]. tauto.
Qed.
Lemma vwrites_in VL : forall m v p, NoDup (map fst VL) -> In (v, p) VL -> vertex (vwrites VL m) v = Some p.
Proof.
  induction VL as [|[u q] VL IH]; intros m v p ND Hin; [contradiction|].
  cbn [vwrites fold_left]. fold (vwrites VL (upd m (XVertex u) (VV (Some q)))).
  cbn [map fst] in ND. inversion ND as [|? ? Hnin ND']; subst.
  destruct Hin as [[= -> ->]|Hin].
  - rewrite vwrites_other by exact Hnin. unfold vertex. rewrite upd_same. reflexivity.
  - apply IH; auto.
Qed.

Lemma NoDup_filter {X} (f : X -> bool) l : NoDup l -> NoDup (filter f l).
Proof.
  induction 1 as [|x l Hn ND IH]; cbn; [constructor|]. destruct (f x); [constructor; auto|auto].
  intros Hin. apply filter_In in Hin. tauto.
Qed.
Lemma NoDup_nrange n : NoDup (nrange n).
Proof.
  unfold nrange. apply FinFun.Injective_map_NoDup; [|apply seq_NoDup]. intros a b Hab. lia.
Qed.

Lemma vpairs_spec st v p : In (v, p) (vpairs st) <->
  In v (iter_vertices2 (env2 st None) (nd st) (mem st)) /\ vertex (mem st) v = Some p.
Proof.
  unfold vpairs. rewrite in_flat_map. split.
  - intros (u & Hu & Hin). destruct (vertex (mem st) u) as [q|] eqn:Eq; [|contradiction].
    destruct Hin as [[= <- <-]|[]]. auto.
  - intros (Hv & Hp). exists v. split; [exact Hv|]. rewrite Hp. now left.
Qed.
Lemma vpairs_fst st v : In v (map fst (vpairs st)) <->
  In v (iter_vertices2 (env2 st None) (nd st) (mem st)) /\ vertex (mem st) v <> None.
Proof.
  rewrite in_map_iff. split.
  - intros ([u p] & <- & Hin). apply vpairs_spec in Hin as [A B]. cbn. split; [auto|congruence].
  - intros (Hv & Hp). destruct (vertex (mem st) v) as [p|] eqn:Ep; [|congruence].
    exists (v, p). split; [reflexivity|]. apply vpairs_spec. auto.
Qed.
Lemma NoDup_vpairs st : NoDup (map fst (vpairs st)).
Proof.
  unfold vpairs.
  assert (ND : NoDup (iter_vertices2 (env2 st None) (nd st) (mem st))) by (apply NoDup_filter, NoDup_nrange).
  induction ND as [|v L Hn ND IH]; cbn [flat_map]; [constructor|].
  rewrite map_app. destruct (vertex (mem st) v) as [p|]; cbn [map fst app]; [|exact IH].
  constructor; [|exact IH]. intros Hin. apply in_map_iff in Hin as ([u q] & Hu & Hin). cbn in Hu. subst u.
  apply in_flat_map in Hin as (x & Hx & Hin). destruct (vertex (mem st) x); [|contradiction].
  destruct Hin as [[= -> ->]|[]]. contradiction.
Qed.

Lemma mem_N_In x l : mem_N x l = true <-> In x l.
Proof.
  induction l as [|y r IH]; cbn; [split; [discriminate|tauto]|].
  destruct (N.eqb_spec x y) as [->|Hne]; cbn; [tauto|]. rewrite IH. split; [auto|intros [E|Hi]; [congruence|auto]].
Qed.

(** ** the round trip *)
Theorem roundtrip_items st :
  wf2 (nd st) (mem st) -> 0 < nd st -> nd st <= 4294967296 -> unused (mem st) 0 = false ->
  exists st', build_from_items mk_vertex sc_of_int (ser_items v_x v_y tok_of_sc st) = IOk st' /\
    nd st' = nd st /\
    (forall i d, i < 3 -> d < nd st -> beta (mem st') i d = beta (mem st) i d) /\
    (forall d, d < nd st -> unused (mem st') d = unused (mem st) d) /\
    (forall v, In v (iter_vertices2 (env2 st None) (nd st) (mem st)) -> vertex (mem st') v = vertex (mem st) v).
Proof.
  intros W Hn Hmax Hu0.
  set (n := nd st) in *.
  assert (Hn1 : n - 1 + 1 = n) by lia.
  set (L := filter (unused (mem st)) (nrange n)).
  set (m1 := flags L (mem (st0 st))).
  set (m2 := vwrites (vpairs st) m1).
  exists {| nd := n - 1 + 1; mem := m2; aks := [] |}.
  split.
  - unfold build_from_items. rewrite parse_file_ser by assumption. fold n.
    unfold build_from_file. cbn [f_betas f_unused f_vertices]. destruct (N.eqb_spec 2 2); [|congruence]. cbn [negb].
    assert (Hlen : forall i, N.of_nat (length (beta_row st i)) = n - 1 + 1).
    { intros i. unfold beta_row. rewrite map_length. rewrite length_nrange. fold n. lia. }
    rewrite !Hlen, N.eqb_refl. cbn [negb orb].
    rewrite !beta_row_parse by (auto; lia). fold n.
    pose proof (rows_valid_wf st W Hn) as Hrv. fold n in Hrv. rewrite Hrv. cbn [negb].
    assert (Hcat : concat (match unused_line st with [] => [] | l => [l] end) = unused_line st).
    { destruct (unused_line st); cbn; [reflexivity|now rewrite app_nil_r]. }
    rewrite Hcat. unfold unused_line. fold n. fold L.
    change {| nd := n - 1 + 1; mem := rows_store (rowN st 0) (rowN st 1) (rowN st 2); aks := [] |} with (st0 st).
    rewrite (load_unused_ok (n - 1) L (st0 st)).
    + rewrite vertex_lines_pairs. rewrite load_vertices_ok.
      * reflexivity.
      * lia.
      * intros [v p] Hvp. apply vpairs_spec in Hvp as [Hv _]. apply iter_ids_spec in Hv. cbn [fst]. fold n in Hv. lia.
    + apply NoDup_filter, NoDup_nrange.
    + reflexivity.
    + lia.
    + intros d Hd. apply filter_In in Hd as [Hd Hud]. apply in_nrange in Hd.
      assert (Hd0 : d <> 0) by (intros ->; congruence).
      split; [exact Hd0|]. split; [lia|]. split; [|reflexivity].
      unfold is_free2. rewrite !beta_st0 by (auto; lia).
      pose proof (unused_free _ _ W d Hd Hud) as Hf. rewrite !Hf by lia. reflexivity.
  - cbn [nd mem]. split; [exact Hn1|]. split; [|split].
    + intros i d Hi Hd. unfold m2, m1. rewrite vwrites_beta, flags_beta. now apply beta_st0.
    + intros d Hd. unfold m2, m1. rewrite vwrites_unused, flags_unused.
      destruct (mem_N d L) eqn:Em.
      * apply mem_N_In in Em. unfold L in Em. apply filter_In in Em. symmetry. tauto.
      * destruct (unused (mem st) d) eqn:Eu; [|reflexivity]. exfalso.
        assert (Hin : In d L) by (unfold L; apply filter_In; split; [now apply in_nrange|exact Eu]).
        apply mem_N_In in Hin. congruence.
    + intros v Hv. unfold m2. destruct (vertex (mem st) v) as [p|] eqn:Ep.
      * apply vwrites_in; [apply NoDup_vpairs|]. apply vpairs_spec. auto.
      * rewrite vwrites_other.
        -- unfold m1. rewrite flags_vertex. reflexivity.
        -- intros Hin. apply vpairs_fst in Hin. tauto.
Qed.

End Round.
