(** * The boolean twin [wf2b] decides [wf2]: it is the oracle applied to implementation dumps. *)
From Coq Require Import List NArith Bool Lia.
From HC Require Import Stm.Prog Stm.ProgFacts Map2.Ops2 Map2.State2 Map2.Wf2.
Import ListNotations.
Open Scope N_scope.

Lemma in_nrange n d : In d (nrange n) <-> d < n.
Proof.
  unfold nrange. rewrite in_map_iff. split.
  - intros (k & <- & Hk). apply in_seq in Hk. lia.
  - intros Hd. exists (N.to_nat d). split; [apply N2Nat.id|]. apply in_seq. lia.
Qed.

Section Dec.
Context `{Sig}.

Lemma forall_lt3 (P : N -> Prop) : (forall i, i < 3 -> P i) <-> P 0 /\ P 1 /\ P 2.
Proof.
  split; [intros HP; repeat split; apply HP; lia|].
  intros (P0 & P1 & P2) i Hi. assert (Hc : i = 0 \/ i = 1 \/ i = 2) by lia.
  destruct Hc as [->|[->| ->]]; assumption.
Qed.

Theorem wf2b_spec n s : wf2b n s = true <-> 0 < n /\ wf2 n s.
Proof.
  unfold wf2b. cbn [forallb]. rewrite !andb_true_iff, N.ltb_lt, forallb_forall, !N.eqb_eq. split.
  - intros ((Hn & (Z0 & Z1 & Z2 & _)) & Hall). split; [exact Hn|].
    assert (Hd : forall d, d < n ->
      (beta s 0 d < n /\ beta s 1 d < n /\ beta s 2 d < n) /\
      (beta s 1 d <> 0 -> beta s 0 (beta s 1 d) = d) /\
      (beta s 0 d <> 0 -> beta s 1 (beta s 0 d) = d) /\
      (beta s 2 d <> 0 -> beta s 2 (beta s 2 d) = d /\ beta s 2 d <> d) /\
      (unused s d = true -> beta s 0 d = 0 /\ beta s 1 d = 0 /\ beta s 2 d = 0)).
    { intros d Hd. apply in_nrange in Hd. specialize (Hall d Hd).
      rewrite !andb_true_iff, !orb_true_iff, !andb_true_iff, !N.ltb_lt, !N.eqb_eq,
        !negb_true_iff, !N.eqb_neq in Hall.
      destruct Hall as (((((R0 & R1 & R2 & _) & A) & B) & C) & D).
      repeat split; try assumption.
      - intros Hne. destruct A; [contradiction|assumption].
      - intros Hne. destruct B; [contradiction|assumption].
      - destruct C as [C|C]; [contradiction|tauto].
      - destruct C as [C|C]; [contradiction|tauto].
      - destruct D as [D|D]; [congruence|tauto].
      - destruct D as [D|D]; [congruence|tauto].
      - destruct D as [D|D]; [congruence|tauto]. }
    constructor.
    + apply forall_lt3. auto.
    + intros i d Hi Hdn. destruct (Hd d Hdn) as ((R0 & R1 & R2) & _).
      revert i Hi. apply forall_lt3. auto.
    + intros d Hdn. apply (Hd d Hdn).
    + intros d Hdn. apply (Hd d Hdn).
    + intros d Hdn. apply (Hd d Hdn).
    + intros d Hdn Hu. destruct (Hd d Hdn) as (_ & _ & _ & _ & U). specialize (U Hu).
      apply forall_lt3. tauto.
  - intros (Hn & [W1 W2 W3 W4 W5 W6]). split.
    + split; [exact Hn|]. repeat split; apply W1; lia.
    + intros d Hd. apply in_nrange in Hd.
      rewrite !andb_true_iff, !orb_true_iff, !andb_true_iff, !N.ltb_lt, !N.eqb_eq,
        !negb_true_iff, !N.eqb_neq.
      repeat split; try (apply W2; lia).
      * destruct (N.eq_dec (beta s 1 d) 0); [left; assumption | right; apply W3; assumption].
      * destruct (N.eq_dec (beta s 0 d) 0); [left; assumption | right; apply W4; assumption].
      * destruct (N.eq_dec (beta s 2 d) 0); [left; assumption | right; apply W5; assumption].
      * destruct (unused s d) eqn:Eu; [right | left; reflexivity].
        repeat split; apply W6; auto; lia.
Qed.

Lemma okdb_spec n s d : okdb n s d = true <-> okd n s d.
Proof.
  unfold okdb, okd. rewrite !andb_true_iff, !negb_true_iff, N.eqb_neq, N.ltb_lt. tauto.
Qed.

Lemma pre_callb_spec n s c : pre_callb n s c = true <-> pre_call n s c.
Proof.
  destruct c; cbn [pre_callb pre_call];
    rewrite ?andb_true_iff, ?okdb_spec, ?negb_true_iff, ?N.eqb_neq, ?N.ltb_lt; tauto.
Qed.

Lemma block_preb_spec E n ks cs : forall c w cnt,
  block_preb E n ks cs c w cnt = true <-> block_pre E n ks cs c w cnt.
Proof.
  induction cs as [|call rest IH]; intros c w cnt; cbn [block_preb block_pre]; [tauto|].
  rewrite andb_true_iff, pre_callb_spec.
  destruct (run E (call2_prog n ks call) c w cnt) as [[[x|e| |q] w'] cnt']; rewrite ?IH; tauto.
Qed.

Theorem pre_opb_spec fa st o : pre_opb fa st o = true <-> pre_op fa st o.
Proof.
  destruct o; cbn [pre_opb pre_op]; try tauto.
  - rewrite negb_true_iff, N.eqb_neq. tauto.
  - apply pre_callb_spec.
  - apply block_preb_spec.
Qed.

End Dec.
