(** * C06 / C08 for the kernels: no kernel reads outside its transaction; a block of core
    calls and kernels acts like the sequence; errors change nothing. *)
From Coq Require Import List NArith Bool Lia.
From HC Require Import Base.Closure Stm.Prog Stm.ProgFacts Stm.Atomic Map2.Ops2 Map2.State2 Map2.Tx2Proofs
  Map2.Orbit2 Map2.Kern2 Map2.KOps2.
Import ListNotations.
Open Scope N_scope.

Section KTx2.
Context `{Sig}.

Ltac na0 :=
  repeat match goal with
  | |- no_atomic (bind _ _) => apply no_atomic_bind; [|intros ?; cbv beta]
  | |- no_atomic (rdB _ _) => apply na_rdB
  | |- no_atomic (wrB _ _ _) => apply na_wrB
  | |- no_atomic (rdV _) => apply na_rdV
  | |- no_atomic (wrV _ _) => apply na_wrV
  | |- no_atomic (rdA _ _) => apply na_rdA
  | |- no_atomic (wrA _ _ _) => apply na_wrA
  | |- no_atomic (rdU _) => apply na_rdU
  | |- no_atomic (wrU _ _) => apply na_wrU
  | |- no_atomic (one_link_core _ _) => apply na_one_link
  | |- no_atomic (two_link_core _ _) => apply na_two_link
  | |- no_atomic (one_unlink_core _) => apply na_one_unlink
  | |- no_atomic (two_unlink_core _) => apply na_two_unlink
  | |- no_atomic (vertex_id_tx _ _) => apply na_vertex_id
  | |- no_atomic (face_id_tx _ _) => apply na_face_id
  | |- no_atomic (edge_id_tx _) => apply na_edge_id
  | |- no_atomic (one_sew _ _ _ _) => apply (na_call2 _ _ (Sew1 _ _))
  | |- no_atomic (two_sew _ _ _ _) => apply (na_call2 _ _ (Sew2 _ _))
  | |- no_atomic (one_unsew _ _ _) => apply (na_call2 _ _ (Unsew1 _))
  | |- no_atomic (two_unsew _ _ _) => apply (na_call2 _ _ (Unsew2 _))
  | |- no_atomic (if ?b then _ else _) => destruct b
  | |- no_atomic (match ?x with _ => _ end) => destruct x
  | |- no_atomic (Ret _) => exact I
  | |- no_atomic (Fail _) => exact I
  | |- no_atomic Retry => exact I
  | |- no_atomic (Panic _) => exact I
  | |- no_atomic (let '(_, _) := ?x in _) => destruct x
  | |- no_atomic (match ?x with _ => _ end _ _ _) => destruct x; cbv beta
  | |- no_atomic (match ?x with _ => _ end _ _) => destruct x; cbv beta
  | |- no_atomic (match ?x with _ => _ end _) => destruct x; cbv beta
  end.

Lemma na_is_free d : no_atomic (is_free_atomic d). Proof. unfold is_free_atomic. na0. Qed.
Lemma na_write_vertex d v : no_atomic (write_vertex d v). Proof. unfold write_vertex. na0. Qed.
Lemma na_write_attr k d a : no_atomic (write_attr k d a). Proof. unfold write_attr. na0. Qed.
Lemma na_remove_attr k d : no_atomic (remove_attr k d). Proof. unfold remove_attr. na0. Qed.
Lemma na_remove_dart d : no_atomic (remove_dart_tx d). Proof. unfold remove_dart_tx. na0. Qed.

Lemma na_custom d l : no_atomic (custom_tx d l).
Proof. induction l as [|i r IH]; cbn [custom_tx]; na0. exact IH. Qed.
Lemma na_succ2_tx p d : no_atomic (succ2_tx p d).
Proof. destruct p; cbn [succ2_tx]; na0. apply na_custom. Qed.
Lemma na_orbit_loop f p : forall q m out, no_atomic (orbit_tx_loop f p q m out).
Proof.
  induction f as [|f IH]; intros q m out; cbn [orbit_tx_loop]; [exact I|].
  destruct q as [|d q']; [exact I|]. apply no_atomic_bind; [apply na_succ2_tx|]. intros ims.
  destruct (fold_left check ims (q', m)). apply IH.
Qed.
Lemma na_orbit2_tx n p d : no_atomic (orbit2_tx n p d).
Proof. unfold orbit2_tx. destruct (policy_ok p); [apply na_orbit_loop|exact I]. Qed.

Ltac na1 :=
  repeat first
   [ progress na0
   | match goal with
     | |- no_atomic (is_free_atomic _) => apply na_is_free
     | |- no_atomic (write_vertex _ _) => apply na_write_vertex
     | |- no_atomic (write_attr _ _ _) => apply na_write_attr
     | |- no_atomic (remove_attr _ _) => apply na_remove_attr
     | |- no_atomic (remove_dart_tx _) => apply na_remove_dart
     | |- no_atomic (orbit2_tx _ _ _) => apply na_orbit2_tx
     end ].

Lemma na_any_not_free ds : no_atomic (any_not_free ds).
Proof. induction ds as [|d r IH]; cbn [any_not_free]; na1. exact IH. Qed.
Lemma na_link_first_half : forall nds prev, no_atomic (link_first_half prev nds).
Proof. induction nds as [|nd r IH]; intros prev; cbn [link_first_half]; na1. apply IH. Qed.
Lemma na_link_second_half : forall pairs prev, no_atomic (link_second_half prev pairs).
Proof. induction pairs as [|[d nd] r IH]; intros prev; cbn [link_second_half]; na1. apply IH. Qed.
Lemma na_embed_new n v1 v2 tds : no_atomic (embed_new n v1 v2 tds).
Proof. induction tds as [|[t nd] r IH]; cbn [embed_new]; na1. exact IH. Qed.
Lemma na_read_face_vertices n ds : no_atomic (read_face_vertices n ds).
Proof. induction ds as [|d r IH]; cbn [read_face_vertices]; na1. exact IH. Qed.
Lemma na_fan_loop n ks : forall pairs d0, no_atomic (fan_loop n ks d0 pairs).
Proof. induction pairs as [|[a c] r IH]; intros d0; cbn [fan_loop]; na1. apply IH. Qed.
Lemma na_earclip_loop n ks ccw : forall pairs ds vs, no_atomic (earclip_loop n ks ccw ds vs pairs).
Proof. induction pairs as [|[a c] r IH]; intros ds vs; cbn [earclip_loop]; na1. apply IH. Qed.
Lemma na_corner_sign n v d : no_atomic (corner_sign n v d).
Proof. unfold corner_sign. na1. Qed.
Lemma na_all_same_sign n v ref ds : no_atomic (all_same_sign n v ref ds).
Proof. induction ds as [|d r IH]; cbn [all_same_sign]; [exact I|]. apply no_atomic_bind; [apply na_corner_sign|].
  intros s. destruct (sc_eqb ref s); [exact IH|exact I]. Qed.

Ltac na2 :=
  repeat first
   [ progress na1
   | match goal with
     | |- no_atomic (any_not_free _) => apply na_any_not_free
     | |- no_atomic (link_first_half _ _) => apply na_link_first_half
     | |- no_atomic (link_second_half _ _) => apply na_link_second_half
     | |- no_atomic (embed_new _ _ _ _) => apply na_embed_new
     | |- no_atomic (read_face_vertices _ _) => apply na_read_face_vertices
     | |- no_atomic (fan_loop _ _ _ _) => apply na_fan_loop
     | |- no_atomic (earclip_loop _ _ _ _ _ _) => apply na_earclip_loop
     | |- no_atomic (corner_sign _ _ _) => apply na_corner_sign
     | |- no_atomic (all_same_sign _ _ _ _) => apply na_all_same_sign
     end ].

Lemma na_fan_from n ks s nds : no_atomic (fan_from n ks s nds). Proof. unfold fan_from. na2. Qed.
Lemma na_restore_vertex n d ov : no_atomic (restore_vertex n d ov). Proof. unfold restore_vertex. na2. Qed.
Lemma na_restore_anchor n d oa : no_atomic (restore_anchor n d oa). Proof. unfold restore_anchor. na2. Qed.
Lemma na_opt_anchor ks k p : no_atomic p -> no_atomic (opt_anchor ks k p).
Proof. intros Hp. unfold opt_anchor. destruct (has_kind ks k); [exact Hp|exact I]. Qed.
Lemma na_reattach n ks a x y : no_atomic (reattach_face_anchor n ks a x y).
Proof. unfold reattach_face_anchor. na2. Qed.
Lemma na_orient n v : no_atomic (is_orbit_orientation_consistent n v).
Proof. unfold is_orbit_orientation_consistent. na2. Qed.
Lemma na_is_collapsible n ks e : no_atomic (is_collapsible n ks e).
Proof. unfold is_collapsible. na2. Qed.
Lemma na_half_mid n ks a c d : no_atomic (collapse_halfcell_to_midpoint n ks a c d).
Proof. unfold collapse_halfcell_to_midpoint. na2. Qed.
Lemma na_half_base n ks a c d : no_atomic (collapse_halfcell_to_base n ks a c d).
Proof. unfold collapse_halfcell_to_base. na2. Qed.

Ltac na3 :=
  repeat first
   [ progress na2
   | match goal with
     | |- no_atomic (fan_from _ _ _ _) => apply na_fan_from
     | |- no_atomic (restore_vertex _ _ _) => apply na_restore_vertex
     | |- no_atomic (restore_anchor _ _ _) => apply na_restore_anchor
     | |- no_atomic (opt_anchor _ _ _) => apply na_opt_anchor
     | |- no_atomic (reattach_face_anchor _ _ _ _ _) => apply na_reattach
     | |- no_atomic (is_orbit_orientation_consistent _ _) => apply na_orient
     | |- no_atomic (is_collapsible _ _ _) => apply na_is_collapsible
     | |- no_atomic (collapse_halfcell_to_midpoint _ _ _ _ _) => apply na_half_mid
     | |- no_atomic (collapse_halfcell_to_base _ _ _ _ _) => apply na_half_base
     end ].

Lemma na_to_mid n ks a c d e f g : no_atomic (collapse_edge_to_midpoint n ks a c d e f g).
Proof. unfold collapse_edge_to_midpoint. na3. Qed.
Lemma na_to_base n ks a c d e f g : no_atomic (collapse_edge_to_base n ks a c d e f g).
Proof. unfold collapse_edge_to_base. na3. Qed.

(** no kernel reads outside its transaction *)
Theorem na_kcall n ks k : no_atomic (kcall_prog n ks k).
Proof.
  destruct k; cbn [kcall_prog].
  - unfold insert_vertex_on_edge. na3.
  - unfold insert_vertices_on_edge. na3.
  - unfold fan_cell. na3.
  - unfold fan_convex_cell. na3.
  - unfold earclip_cell. na3.
  - unfold swap_edge. na3.
  - unfold cut_outer_edge. na3.
  - unfold cut_inner_edge. na3.
  - unfold collapse_edge. na3; first [apply na_to_mid | apply na_to_base | idtac]; na3.
Qed.

Lemma na_bitem n ks b : no_atomic (bitem_prog n ks b).
Proof. destruct b; [apply na_call2 | apply na_kcall]. Qed.

Lemma kblock_prog_block n ks bs : kblock_prog n ks bs = block (map (bitem_prog n ks) bs).
Proof. induction bs as [|b0 bs IH]; cbn; [reflexivity|]. now rewrite IH. Qed.

(** the items of [bs] one after the other, each in its own transaction *)
Fixpoint seq_items (st : state2) (bs : list bitem) : option state2 :=
  match bs with
  | [] => Some st
  | b0 :: rest =>
    match tx_step None st (bitem_prog (nd st) (aks st) b0) with
    | (ROk _, st1) => seq_items st1 rest
    | _ => None
    end
  end.

Lemma seq_items_seq_run st bs st' : seq_items st bs = Some st' ->
  nd st' = nd st /\ aks st' = aks st /\
  seq_run (env2 st None) (map (bitem_prog (nd st) (aks st)) bs) (mem st) = Some (mem st').
Proof.
  revert st. induction bs as [|b0 bs IH]; intros st Hs; cbn [seq_items map seq_run] in *.
  - injection Hs as <-. auto.
  - unfold tx_step in Hs.
    destruct (atomically (env2 st None) (bitem_prog (nd st) (aks st) b0) (mem st)) as [[x|e| |q] m] eqn:Ea;
      try discriminate Hs.
    apply IH in Hs. cbn [with_mem nd aks mem] in Hs. destruct Hs as (Hn & Hk & Hr).
    repeat split; auto.
Qed.

Theorem compose_kblock st bs st' : seq_items st bs = Some st' ->
  stepk None st (KBlock bs) = (ROk 0, st').
Proof.
  intros Hs. destruct (seq_items_seq_run st bs st' Hs) as (Hn & Hk & Hr).
  cbn [stepk]. unfold tx_step. rewrite kblock_prog_block.
  rewrite (compose_block (env2 st None) _ (mem st) (mem st') eq_refl); [|apply Forall_forall|exact Hr].
  - f_equal. destruct st'. cbn in *. subst. reflexivity.
  - intros p Hp. apply in_map_iff in Hp as (b0 & <- & _). apply na_bitem.
Qed.

Theorem stepk_err_noop fa st o e : fst (stepk fa st o) = RErr e -> snd (stepk fa st o) = st.
Proof.
  destruct o as [o | k | bs]; cbn [stepk].
  - apply step2_err_noop.
  - unfold tx_step. destruct (atomically _ _ _) as [[x|e'| |q] m]; cbn; congruence.
  - unfold tx_step. destruct (atomically _ _ _) as [[x|e'| |q] m]; cbn; congruence.
Qed.

End KTx2.
