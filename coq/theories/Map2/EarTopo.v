(** * C13, ear clipping refines a pure update of the images: whichever ears the geometric test selects, an ear-clipping
    run that terminates normally has changed the images exactly as [earclip_pure] does -- for the ear (d1, d2) with
    predecessor b0 and successor b1: close the triangle d1 -> d2 -> nd1 -> d1, let nd2 take its place between b0 and
    b1, glue nd1 | nd2 -- and touched nothing else. *)
From Coq Require Import List NArith Bool Lia.
From HC Require Import Base.Closure Stm.Prog Stm.ProgFacts Stm.Atomic Map2.Ops2 Map2.State2 Map2.Wf2 Map2.Wf2Proofs
  Map2.Orbit2 Map2.SewTopo Map2.SewData Map2.Kern2 Map2.SwapTopo Map2.FanTopo Map2.CollapseTopo.
Import ListNotations.
Open Scope N_scope.
Arguments N.eqb : simpl never.

Section EarTopo.
Context `{Sig}.

Definition ear_iter (f : img) (d1 d2 nd1 nd2 : N) : img :=
  let b0 := f 0 d1 in let b1 := f 1 d2 in
  p_link2 (p_link1 (p_link1 (p_link1 (p_link1 (p_unlink1 (p_unlink1 f b0) d2) d2 nd1) nd1 d1) b0 nd2) nd2 b1) nd1 nd2.

Fixpoint earclip_pure (f : img) (ccw : bool) (ds : list N) (vs : list V) (pairs : list (N * N)) : img :=
  match pairs with
  | [] => f
  | (nd1, nd2) :: r =>
    let cnt := length ds in
    match vs with
    | [] => f
    | dflt :: _ =>
      match find (is_ear ccw vs dflt) (seq 0 cnt) with
      | None => f
      | Some ear =>
        let d1 := nth_mod ds ear 0 in
        let d2 := nth_mod ds (ear + 1) 0 in
        let f' := ear_iter f d1 d2 nd1 nd2 in
        let ds1 := remove_at (Nat.modulo (ear + 1) cnt) ds ++ [nd2] in
        if Nat.leb (length ds1) ear then f' else
        earclip_pure f' ccw (swap_remove ear ds1) (remove_at (Nat.modulo (ear + 1) cnt) vs) r
      end
    end
  end.

Lemma ear_iter_ext f g d1 d2 nd1 nd2 : img_eq f g -> img_eq (ear_iter f d1 d2 nd1 nd2) (ear_iter g d1 d2 nd1 nd2).
Proof.
  intros He. unfold ear_iter. rewrite !He.
  repeat first [apply p_link1_ext | apply p_link2_ext | apply p_unlink1_ext]. exact He.
Qed.
Lemma earclip_pure_ext ccw : forall pairs f g ds vs, img_eq f g -> img_eq (earclip_pure f ccw ds vs pairs) (earclip_pure g ccw ds vs pairs).
Proof.
  induction pairs as [|[nd1 nd2] r IH]; intros f g ds vs He; cbn [earclip_pure]; [exact He|].
  destruct vs as [|dflt vs']; [exact He|]. destruct (find _ _) as [ear|]; [|exact He].
  destruct (Nat.leb _ ear); [apply ear_iter_ext, He|]. apply IH. apply ear_iter_ext, He.
Qed.

Theorem earclip_loop_refines E n ks ccw : forall pairs ds vs c w cnt k w' cnt',
  run E (earclip_loop n ks ccw ds vs pairs) c w cnt = (Done k, w', cnt') ->
  img_eq (beta w') (earclip_pure (beta w) ccw ds vs pairs).
Proof.
  induction pairs as [|[nd1 nd2] r IH]; intros ds vs c w cnt k w' cnt' Hr; cbn [earclip_loop earclip_pure] in *.
  - cbn in Hr. injection Hr as <- <- <-. intros i d. reflexivity.
  - destruct vs as [|dflt vs']; [cbn in Hr; discriminate Hr|].
    destruct (find (is_ear ccw (dflt :: vs') dflt) (seq 0 (length ds))) as [ear|]; [|cbn in Hr; discriminate Hr].
    apply rd_stepY in Hr. apply rd_stepY in Hr.
    apply unsew1_stepY in Hr. destruct Hr as (w1 & c1 & E1 & Hr).
    apply unsew1_stepY in Hr. destruct Hr as (w2 & c2 & E2 & Hr).
    apply sew1_stepY in Hr. destruct Hr as (w3 & c3 & E3 & Hr).
    apply sew1_stepY in Hr. destruct Hr as (w4 & c4 & E4 & Hr).
    apply sew1_stepY in Hr. destruct Hr as (w5 & c5 & E5 & Hr).
    apply sew1_stepY in Hr. destruct Hr as (w6 & c6 & E6 & Hr).
    assert (Hlast : exists w7 c7, img_eq (beta w7) (p_link2 (beta w6) nd1 nd2) /\
              run E (let ds1 := remove_at (Nat.modulo (ear + 1) (length ds)) ds ++ [nd2] in
                     if Nat.leb (length ds1) ear then Panic OOB else
                     earclip_loop n ks ccw (swap_remove ear ds1) (remove_at (Nat.modulo (ear + 1) (length ds)) (dflt :: vs')) r)
                  c w7 c7 = (Done k, w', cnt')).
    { apply sew2_stepY in Hr. exact Hr. }
    destruct Hlast as (w7 & c7 & E7 & Hr'). clear Hr. cbv zeta in Hr'.
    assert (He : img_eq (beta w7) (ear_iter (beta w) (nth_mod ds ear 0) (nth_mod ds (ear + 1) 0) nd1 nd2)).
    { unfold ear_iter.
      eapply img_eq_trans; [exact E7|]. apply p_link2_ext.
      eapply img_eq_trans; [exact E6|]. apply p_link1_ext.
      eapply img_eq_trans; [exact E5|]. apply p_link1_ext.
      eapply img_eq_trans; [exact E4|]. apply p_link1_ext.
      eapply img_eq_trans; [exact E3|]. apply p_link1_ext.
      eapply img_eq_trans; [exact E2|]. apply p_unlink1_ext. exact E1. }
    destruct (Nat.leb _ ear); [cbn in Hr'; discriminate Hr'|].
    eapply img_eq_trans; [apply (IH _ _ _ _ _ _ _ _ Hr')|]. apply earclip_pure_ext. exact He.
Qed.

(** one ear, explicitly: for the ear (d1, d2) between b0 and b1 (six distinct darts with the two new ones) *)
Ltac simpl_ne := repeat match goal with
  | Hne : ?x <> ?y |- context [?x =? ?y] => rewrite (proj2 (N.eqb_neq x y) Hne)
  | Hne : ?y <> ?x |- context [?x =? ?y] => rewrite (proj2 (N.eqb_neq x y) (not_eq_sym Hne))
  end; rewrite ?N.eqb_refl; cbn [andb orb negb].
Ltac consts := change (1 =? 0) with false; change (0 =? 1) with false; change (1 =? 1) with true;
  change (0 =? 0) with true; change (2 =? 0) with false; change (2 =? 1) with false; change (0 =? 2) with false;
  change (1 =? 2) with false; change (2 =? 2) with true; cbn [andb].

Lemma nodup6 (a b c0 d e g : N) : NoDup [a; b; c0; d; e; g] ->
  a <> b /\ a <> c0 /\ a <> d /\ a <> e /\ a <> g /\ b <> c0 /\ b <> d /\ b <> e /\ b <> g /\
  c0 <> d /\ c0 <> e /\ c0 <> g /\ d <> e /\ d <> g /\ e <> g.
Proof.
  intros Hn. repeat match goal with Hx : NoDup (_ :: _) |- _ => inversion Hx; clear Hx; subst end.
  cbn [In] in *. repeat split; intros Q; intuition congruence.
Qed.

Theorem ear_iter_spec f d1 d2 nd1 nd2 :
  let b0 := f 0 d1 in let b1 := f 1 d2 in
  f 1 b0 = d1 -> f 1 d1 = d2 ->
  NoDup [b0; d1; d2; b1; nd1; nd2] ->
  let f' := ear_iter f d1 d2 nd1 nd2 in
  (f' 1 d1, f' 1 d2, f' 1 nd1) = (d2, nd1, d1) /\ (f' 1 b0, f' 1 nd2) = (nd2, b1) /\ (f' 2 nd1, f' 2 nd2) = (nd2, nd1) /\
  (forall i d, ~ In d [b0; d1; d2; b1; nd1; nd2] -> f' i d = f i d).
Proof.
  intros b0 b1 H1 H2 Hnd. cbv zeta. unfold ear_iter. fold b0 b1.
  pose proof (nodup6 _ _ _ _ _ _ Hnd) as D.
  destruct D as (Q1 & Q2 & Q3 & Q4 & Q5 & Q6 & Q7 & Q8 & Q9 & Q10 & Q11 & Q12 & Q13 & Q14 & Q15).
  unfold p_link1, p_link2, p_unlink1. rewrite H1.
  split; [|split; [|split]].
  - repeat (consts; simpl_ne; fold b1). rewrite ?H2. reflexivity.
  - repeat (consts; simpl_ne; fold b1). reflexivity.
  - repeat (consts; simpl_ne; fold b1). reflexivity.
  - intros i d Hd. cbn [In] in Hd.
    assert (A : d <> b0 /\ d <> d1 /\ d <> d2 /\ d <> b1 /\ d <> nd1 /\ d <> nd2) by (repeat split; intros ->; apply Hd; tauto).
    destruct A as (A1 & A2 & A3 & A4 & A5 & A6).
    destruct (N.eqb_spec i 0) as [->|I0]; [repeat (consts; simpl_ne; fold b1); reflexivity|].
    destruct (N.eqb_spec i 1) as [->|I1]; [repeat (consts; simpl_ne; fold b1); reflexivity|].
    destruct (N.eqb_spec i 2) as [->|I2]; [repeat (consts; simpl_ne; fold b1); reflexivity|].
    cbn [andb]. reflexivity.
Qed.

End EarTopo.
