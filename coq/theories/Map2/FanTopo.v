(** * C13, the fan triangulation refines a pure update of the images: whatever the stores, the attribute laws and the
    injected failures, a fan that terminates normally has changed the 0- / 1- / 2-images exactly as the pure function
    [fan_pure] does -- unsew the next side, glue the two new darts, close the triangle (d0, next, nd1), continue from
    nd2 -- and touched nothing else.  The combinatorial consequences (n - 2 triangles) are then facts about a pure
    function on images. *)
From Coq Require Import List NArith Bool Lia.
From HC Require Import Base.Closure Stm.Prog Stm.ProgFacts Stm.Atomic Map2.Ops2 Map2.State2 Map2.Wf2 Map2.Wf2Proofs
  Map2.Orbit2 Map2.SewTopo Map2.SewData Map2.Kern2 Map2.SwapTopo.
Import ListNotations.
Open Scope N_scope.
Arguments N.eqb : simpl never.

Section FanTopo.
Context `{Sig}.

Definition img := N -> N -> N.
Definition p_unlink1 (f : img) (x : N) : img :=
  fun i d => if (i =? 0) && (d =? f 1 x) then 0 else if (i =? 1) && (d =? x) then 0 else f i d.
Definition p_link1 (f : img) (l r : N) : img :=
  fun i d => if (i =? 0) && (d =? r) then l else if (i =? 1) && (d =? l) then r else f i d.
Definition p_link2 (f : img) (l r : N) : img :=
  fun i d => if (i =? 2) && (d =? r) then l else if (i =? 2) && (d =? l) then r else f i d.

Definition fan_iter (f : img) (d0 : N) (p : N * N) : img :=
  let '(nd1, nd2) := p in
  let b1 := f 1 d0 in let b2 := f 1 b1 in
  p_link1 (p_link1 (p_link1 (p_link2 (p_unlink1 f b1) nd1 nd2) nd2 b2) b1 nd1) nd1 d0.
Fixpoint fan_pure (f : img) (d0 : N) (pairs : list (N * N)) : img * N :=
  match pairs with
  | [] => (f, d0)
  | p :: r => fan_pure (fan_iter f d0 p) (snd p) r
  end.

Definition img_eq (f g : img) : Prop := forall i d, f i d = g i d.
Lemma p_unlink1_ext f g x : img_eq f g -> img_eq (p_unlink1 f x) (p_unlink1 g x).
Proof. intros He i d. unfold p_unlink1. rewrite !He. reflexivity. Qed.
Lemma p_link1_ext f g l r : img_eq f g -> img_eq (p_link1 f l r) (p_link1 g l r).
Proof. intros He i d. unfold p_link1. rewrite !He. reflexivity. Qed.
Lemma p_link2_ext f g l r : img_eq f g -> img_eq (p_link2 f l r) (p_link2 g l r).
Proof. intros He i d. unfold p_link2. rewrite !He. reflexivity. Qed.
Lemma fan_iter_ext f g d0 p : img_eq f g -> img_eq (fan_iter f d0 p) (fan_iter g d0 p).
Proof.
  intros He. destruct p as [nd1 nd2]. unfold fan_iter. rewrite !He.
  repeat first [apply p_link1_ext | apply p_link2_ext | apply p_unlink1_ext]. exact He.
Qed.
Lemma fan_pure_ext : forall pairs f g d0, img_eq f g ->
  snd (fan_pure f d0 pairs) = snd (fan_pure g d0 pairs) /\ img_eq (fst (fan_pure f d0 pairs)) (fst (fan_pure g d0 pairs)).
Proof.
  induction pairs as [|p r IH]; intros f g d0 He; cbn [fan_pure]; [split; [reflexivity|exact He]|].
  apply IH. apply fan_iter_ext, He.
Qed.

(* the step lemmas of SwapTopo, for continuations of any result type *)
Lemma rd_stepY {Y} E i d (k : N -> prog Y) c w cnt o w1 cnt1 :
  run E (x <- rdB i d ;; k x) c w cnt = (Done o, w1, cnt1) -> run E (k (beta w i d)) c w cnt = (Done o, w1, cnt1).
Proof. cbn [run bind rdB]. destruct (e_dom E (XBeta i d)); [auto|discriminate]. Qed.
Lemma sew1_stepY {Y} E n ks l r (k : prog Y) c w cnt o w1 cnt1 :
  run E (one_sew n ks l r ;;; k) c w cnt = (Done o, w1, cnt1) ->
  exists wa cnta, img_eq (beta wa) (p_link1 (beta w) l r) /\ run E k c wa cnta = (Done o, w1, cnt1).
Proof.
  intros Hr. rewrite run_bind in Hr.
  destruct (run E (one_sew n ks l r) c w cnt) as [[[[]|e| |q] wa] cnta] eqn:Es; try discriminate Hr.
  exists wa, cnta. split; [|exact Hr].
  destruct (one_sew_topology E n ks l r c w cnt wa cnta Es) as (w2 & Ec & [Hb _]).
  apply run_one_link_core in Ec. destruct Ec as (-> & _).
  intros i d. rewrite Hb. unfold set1, p_link1. rewrite !beta_upd_beta. reflexivity.
Qed.
Lemma unsew1_stepY {Y} E n ks l (k : prog Y) c w cnt o w1 cnt1 :
  run E (one_unsew n ks l ;;; k) c w cnt = (Done o, w1, cnt1) ->
  exists wa cnta, img_eq (beta wa) (p_unlink1 (beta w) l) /\ run E k c wa cnta = (Done o, w1, cnt1).
Proof.
  intros Hr. rewrite run_bind in Hr.
  destruct (run E (one_unsew n ks l) c w cnt) as [[[[]|e| |q] wa] cnta] eqn:Es; try discriminate Hr.
  exists wa, cnta. split; [|exact Hr].
  destruct (one_unsew_topology E n ks l c w cnt wa cnta Es) as (w2 & Ec & [Hb _]).
  apply run_one_unlink_core in Ec. destruct Ec as (-> & _).
  intros i d. rewrite Hb. unfold clr1, p_unlink1. rewrite !beta_upd_beta. reflexivity.
Qed.
Lemma sew2_stepY {Y} E n ks l r (k : prog Y) c w cnt o w1 cnt1 :
  run E (two_sew n ks l r ;;; k) c w cnt = (Done o, w1, cnt1) ->
  exists wa cnta, img_eq (beta wa) (p_link2 (beta w) l r) /\ run E k c wa cnta = (Done o, w1, cnt1).
Proof.
  intros Hr. rewrite run_bind in Hr.
  destruct (run E (two_sew n ks l r) c w cnt) as [[[[]|e| |q] wa] cnta] eqn:Es; try discriminate Hr.
  exists wa, cnta. split; [|exact Hr].
  destruct (two_sew_topology E n ks l r c w cnt wa cnta Es) as (w2 & Ec & [Hb _]).
  apply run_two_link_core in Ec. destruct Ec as (-> & _).
  intros i d. rewrite Hb. unfold set2, p_link2. rewrite !beta_upd_beta. reflexivity.
Qed.

Lemma img_eq_trans f g h : img_eq f g -> img_eq g h -> img_eq f h.
Proof. intros A B i d. rewrite A. apply B. Qed.

Theorem fan_loop_refines E n ks : forall pairs d0 c w cnt dE w' cnt',
  run E (fan_loop n ks d0 pairs) c w cnt = (Done dE, w', cnt') ->
  dE = snd (fan_pure (beta w) d0 pairs) /\ img_eq (beta w') (fst (fan_pure (beta w) d0 pairs)).
Proof.
  induction pairs as [|[nd1 nd2] r IH]; intros d0 c w cnt dE w' cnt' Hr; cbn [fan_loop fan_pure] in *.
  - cbn in Hr. injection Hr as <- <- <-. split; [reflexivity|intros i d; reflexivity].
  - apply rd_stepY in Hr. apply rd_stepY in Hr.
    apply unsew1_stepY in Hr. destruct Hr as (w1 & c1 & E1 & Hr).
    apply sew2_stepY in Hr. destruct Hr as (w2 & c2 & E2 & Hr).
    apply sew1_stepY in Hr. destruct Hr as (w3 & c3 & E3 & Hr).
    apply sew1_stepY in Hr. destruct Hr as (w4 & c4 & E4 & Hr).
    apply sew1_stepY in Hr. destruct Hr as (w5 & c5 & E5 & Hr).
    destruct (IH nd2 c w5 c5 dE w' cnt' Hr) as (Hd & Hi).
    assert (He : img_eq (beta w5) (fan_iter (beta w) d0 (nd1, nd2))).
    { unfold fan_iter.
      eapply img_eq_trans; [exact E5|]. apply p_link1_ext.
      eapply img_eq_trans; [exact E4|]. apply p_link1_ext.
      eapply img_eq_trans; [exact E3|]. apply p_link1_ext.
      eapply img_eq_trans; [exact E2|]. apply p_link2_ext. exact E1. }
    destruct (fan_pure_ext r _ _ nd2 He) as (Hs & Hf). cbn [snd]. split.
    + rewrite Hd. exact Hs.
    + eapply img_eq_trans; [exact Hi|exact Hf].
Qed.

Definition fan_from_pure (f : img) (sdart : N) (pairs : list (N * N)) : img :=
  let f1 := p_unlink1 f (f 0 sdart) in
  let '(f2, dE) := fan_pure f1 sdart pairs in
  p_link1 f2 (f2 1 (f2 1 dE)) dE.

Lemma data_stepY {X Y} E (a : prog X) (k : X -> prog Y) c w cnt o w1 cnt1 :
  writes_in Sdata a -> run E (bind a k) c w cnt = (Done o, w1, cnt1) ->
  exists x wa cnta, img_eq (beta wa) (beta w) /\ run E (k x) c wa cnta = (Done o, w1, cnt1).
Proof.
  intros Hw Hr. apply peel_data in Hr; [|exact Hw]. destruct Hr as (x & wa & cnta & [Hb _] & Hr).
  exists x, wa, cnta. split; [exact Hb|exact Hr].
Qed.

Theorem fan_from_refines E n ks sdart nds c w cnt w' cnt' :
  run E (fan_from n ks sdart nds) c w cnt = (Done tt, w', cnt') ->
  img_eq (beta w') (fan_from_pure (beta w) sdart (chunks2 nds)).
Proof.
  intros Hr. unfold fan_from in Hr.
  apply rd_stepY in Hr.
  apply data_stepY in Hr; [|apply wi_vertex_id]. destruct Hr as (vid & wa & ca & Ea & Hr).
  apply data_stepY in Hr; [|cbn; intros; exact I]. destruct Hr as (ov0 & wb & cb & Eb & Hr).
  destruct ov0 as [v0|]; [|cbn in Hr; discriminate Hr].
  assert (E0 : img_eq (beta wb) (beta w)) by (eapply img_eq_trans; eauto). clear Ea Eb.
  apply unsew1_stepY in Hr. destruct Hr as (w1 & c1 & E1 & Hr).
  rewrite run_bind in Hr.
  destruct (run E (fan_loop n ks sdart (chunks2 nds)) c w1 c1) as [[[dE|e| |q] w2] c2] eqn:El; try discriminate Hr.
  destruct (fan_loop_refines E n ks _ _ _ _ _ _ _ _ El) as (Hd & H2).
  apply rd_stepY in Hr. apply rd_stepY in Hr.
  apply sew1_stepY in Hr. destruct Hr as (w3 & c3 & E3 & Hr).
  assert (E4 : img_eq (beta w') (beta w3)).
  { assert (Hw : writes_in Sdata (vid <- vertex_id_tx n sdart ;; write_vertex vid v0)).
    { apply writes_in_bind; [apply wi_vertex_id|]. intros ?. cbn. intros; repeat split; exact I. }
    destruct (last_data E _ c w3 c3 tt w' cnt' Hw Hr) as [Hb _]. exact Hb. }
  (* assemble *)
  assert (F1 : img_eq (beta w1) (p_unlink1 (beta w) (beta w 0 sdart))).
  { eapply img_eq_trans; [exact E1|]. intros i d. unfold p_unlink1. rewrite !E0. reflexivity. }
  destruct (fan_pure_ext (chunks2 nds) _ _ sdart F1) as (Hs & Hf).
  unfold fan_from_pure.
  destruct (fan_pure (p_unlink1 (beta w) (beta w 0 sdart)) sdart (chunks2 nds)) as [f2 dE'] eqn:Ep.
  cbn [fst snd] in Hs, Hf.
  assert (HdE : dE = dE') by (rewrite Hd; exact Hs). clear Hd Hs. subst dE.
  assert (G2 : img_eq (beta w2) f2) by (eapply img_eq_trans; [exact H2|exact Hf]).
  eapply img_eq_trans; [exact E4|]. eapply img_eq_trans; [exact E3|].
  rewrite !G2. apply p_link1_ext. exact G2.
Qed.

(** ** what the pure function does to a polygon: n - 2 triangles *)
Fixpoint chain (f : img) (d0 : N) (C : list N) : Prop :=
  match C with [] => True | c1 :: r => f 1 d0 = c1 /\ chain f c1 r end.
Definition flat (ps : list (N * N)) : list N := flat_map (fun p => [fst p; snd p]) ps.

(* the fan after the loop: one triangle (d0, c1, x) per pair, glued along x | y to the next one, which starts at y;
   after the last pair the current dart still heads the rest of the chain *)
Inductive fan_ok (f : img) : N -> list N -> list (N * N) -> Prop :=
| fan_ok_nil d0 C : chain f d0 C -> fan_ok f d0 C []
| fan_ok_cons d0 c1 C x y ps :
    f 1 d0 = c1 -> f 1 c1 = x -> f 1 x = d0 -> f 2 x = y -> f 2 y = x ->
    fan_ok f y C ps -> fan_ok f d0 (c1 :: C) ((x, y) :: ps).

Ltac simpl_ne := repeat match goal with
  | Hne : ?x <> ?y |- context [?x =? ?y] => rewrite (proj2 (N.eqb_neq x y) Hne)
  | Hne : ?y <> ?x |- context [?x =? ?y] => rewrite (proj2 (N.eqb_neq x y) (not_eq_sym Hne))
  end; rewrite ?N.eqb_refl; cbn [andb orb negb].
Ltac consts := change (1 =? 0) with false; change (0 =? 1) with false; change (1 =? 1) with true;
  change (0 =? 0) with true; change (2 =? 0) with false; change (2 =? 1) with false; change (0 =? 2) with false;
  change (1 =? 2) with false; change (2 =? 2) with true; cbn [andb].

Lemma fan_iter_vals f d0 c1 c2 x y :
  f 1 d0 = c1 -> f 1 c1 = c2 ->
  d0 <> c1 -> d0 <> c2 -> d0 <> x -> d0 <> y -> c1 <> c2 -> c1 <> x -> c1 <> y -> c2 <> x -> c2 <> y -> x <> y ->
  let f1 := fan_iter f d0 (x, y) in
  f1 1 d0 = c1 /\ f1 1 c1 = x /\ f1 1 x = d0 /\ f1 1 y = c2 /\ f1 2 x = y /\ f1 2 y = x /\
  (forall d, d <> c1 -> d <> x -> d <> y -> f1 1 d = f 1 d) /\
  (forall d, d <> x -> d <> y -> f1 2 d = f 2 d) /\
  (forall i d, d <> d0 -> d <> c1 -> d <> c2 -> d <> x -> d <> y -> f1 i d = f i d).
Proof.
  intros H1 H2 D1 D2 D3 D4 D5 D6 D7 D8 D9 D10 f1. subst f1. unfold fan_iter. rewrite H1, H2.
  unfold p_link1, p_link2, p_unlink1. rewrite H2.
  repeat split; intros; consts; simpl_ne; auto.
  - destruct (N.eqb_spec i 0), (N.eqb_spec i 1), (N.eqb_spec i 2); subst; try discriminate; cbn [andb]; simpl_ne; reflexivity.
Qed.

Lemma chain_ext f g d0 C : (forall d, In d (d0 :: C) -> g 1 d = f 1 d) -> chain f d0 C -> chain g d0 C.
Proof.
  revert d0. induction C as [|c1 r IH]; intros d0 He Hc; cbn [chain] in *; [exact I|].
  destruct Hc as [A B]. split.
  - rewrite He; [exact A|left; reflexivity].
  - apply IH; [|exact B]. intros d Hd. apply He. right. exact Hd.
Qed.

Lemma in_firstn (k : nat) : forall (l : list N) x, In x (firstn k l) -> In x l.
Proof. induction k as [|k IH]; intros l x Hx; [destruct Hx|]. destruct l as [|a l]; [destruct Hx|]. destruct Hx as [->|Hx]; [left; reflexivity|right; apply IH, Hx]. Qed.
Lemma last_cons_default (l : list N) : forall y d, last (y :: l) d = last l y.
Proof. induction l as [|a l IH]; intros y d; [reflexivity|]. change (last (y :: a :: l) d) with (last (a :: l) d). rewrite !IH. reflexivity. Qed.
Lemma nodup5 (d0 c1 c2 : N) C2 x y rest : NoDup (d0 :: c1 :: c2 :: C2 ++ x :: y :: rest) ->
  d0 <> c1 /\ d0 <> c2 /\ d0 <> x /\ d0 <> y /\ c1 <> c2 /\ c1 <> x /\ c1 <> y /\ c2 <> x /\ c2 <> y /\ x <> y.
Proof.
  intros Hn. inversion Hn as [|? ? N0 Hn1]; subst. inversion Hn1 as [|? ? N1 Hn2]; subst. inversion Hn2 as [|? ? N2 Hn3]; subst.
  apply NoDup_remove_2 in Hn3.
  cbn [In] in *. rewrite ?in_app_iff in *. cbn [In] in *. repeat split; intros Q; subst; intuition congruence.
Qed.
Lemma nodup_next (d0 c1 : N) L x y rest : NoDup (d0 :: c1 :: L ++ x :: y :: rest) -> NoDup (y :: L ++ rest).
Proof.
  intros Hn. inversion Hn as [|? ? _ Hn1]; subst. inversion Hn1 as [|? ? _ Hn2]; subst.
  apply NoDup_remove_1 in Hn2. apply NoDup_remove in Hn2. destruct Hn2 as [A B]. constructor; assumption.
Qed.

Theorem fan_pure_spec : forall ps f d0 C,
  chain f d0 C -> (length ps + 2 <= length C)%nat -> NoDup (d0 :: C ++ flat ps) ->
  let f' := fst (fan_pure f d0 ps) in
  fan_ok f' d0 C ps /\
  snd (fan_pure f d0 ps) = last (map snd ps) d0 /\
  (forall d, ~ In d (firstn (length ps) C ++ flat ps) -> f' 1 d = f 1 d) /\
  (forall d, ~ In d (flat ps) -> f' 2 d = f 2 d) /\
  (forall i d, ~ In d (d0 :: C ++ flat ps) -> f' i d = f i d).
Proof.
  induction ps as [|[x y] ps IH]; intros f d0 C Hc Hlen Hnd; cbn [fan_pure fst snd].
  - cbn [map last firstn length flat flat_map app]. repeat split; auto. constructor. exact Hc.
  - destruct C as [|c1 [|c2 C2]]; cbn [length] in Hlen; try lia.
    cbn [chain] in Hc. destruct Hc as (H1 & H2 & Hc2).
    cbn [flat flat_map app fst snd] in Hnd. fold (flat ps) in Hnd.
    destruct (nodup5 _ _ _ _ _ _ _ Hnd) as (D1 & D2 & D3 & D4 & D5 & D6 & D7 & D8 & D9 & D10).
    pose proof (fan_iter_vals f d0 c1 c2 x y H1 H2 D1 D2 D3 D4 D5 D6 D7 D8 D9 D10) as Vals. cbv zeta in Vals.
    set (f1 := fan_iter f d0 (x, y)) in *.
    destruct Vals as (V1 & V2 & V3 & V4 & V5 & V6 & F1 & F2 & F3). clearbody f1.
    (* the rest of the loop starts at y, which now heads the chain c2 :: C2 *)
    assert (Hnd' : NoDup (y :: (c2 :: C2) ++ flat ps)) by (apply (nodup_next d0 c1 (c2 :: C2) x y (flat ps)); exact Hnd).
    assert (NotIn : forall d, In d (c2 :: C2) -> d <> c1 /\ d <> x /\ d <> y /\ d <> d0).
    { intros d Hd. inversion Hnd as [|? ? N0 Hn1]. inversion Hn1 as [|? ? N1 Hn2].
      change (c2 :: C2 ++ x :: y :: flat ps) with ((c2 :: C2) ++ x :: y :: flat ps) in *.
      pose proof (NoDup_remove_2 _ _ _ Hn2) as Nx. pose proof (NoDup_remove_1 _ _ _ Hn2) as Hn3.
      pose proof (NoDup_remove_2 _ _ _ Hn3) as Ny.
      repeat split; intros ->.
      - apply N1. apply in_or_app. left. exact Hd.
      - apply Nx. apply in_or_app. left. exact Hd.
      - apply Ny. apply in_or_app. left. exact Hd.
      - apply N0. right. apply in_or_app. left. exact Hd. }
    assert (Hc' : chain f1 y (c2 :: C2)).
    { cbn [chain]. split; [exact V4|]. eapply chain_ext; [|exact Hc2].
      intros d Hd. destruct (NotIn d Hd) as (A & B & C0 & _). apply F1; assumption. }
    assert (Hlen' : (length ps + 2 <= length (c2 :: C2))%nat) by (cbn [length] in *; lia).
    destruct (IH f1 y (c2 :: C2) Hc' Hlen' Hnd') as (Ok & Last & G1 & G2 & G3).
    cbv zeta in Ok, Last, G1, G2, G3. set (f' := fst (fan_pure f1 y ps)) in *. clearbody f'.
    (* darts of the first triangle are outside what the rest of the loop touches *)
    assert (Out : forall d, (d = d0 \/ d = c1 \/ d = x) -> ~ In d (y :: (c2 :: C2) ++ flat ps)).
    { intros d Hd Hin. inversion Hnd as [|? ? N0 Hn1]. inversion Hn1 as [|? ? N1 Hn2].
      change (c2 :: C2 ++ x :: y :: flat ps) with ((c2 :: C2) ++ x :: y :: flat ps) in *.
      pose proof (NoDup_remove_2 _ _ _ Hn2) as Nx.
      assert (Hin2 : In d ((c2 :: C2) ++ y :: flat ps)).
      { destruct Hin as [<-|Hin]; [apply in_or_app; right; left; reflexivity|].
        apply in_app_or in Hin. apply in_or_app. destruct Hin; [left|right; right]; assumption. }
      destruct Hd as [->|[->| ->]].
      - apply N0. right. apply in_app_or in Hin2. apply in_or_app. destruct Hin2 as [A|A]; [left; exact A|right; right; exact A].
      - apply N1. apply in_app_or in Hin2. apply in_or_app. destruct Hin2 as [A|A]; [left; exact A|right; right; exact A].
      - apply Nx. exact Hin2. }
    assert (In_flat : forall d, In d (flat ps) -> In d (y :: (c2 :: C2) ++ flat ps)) by (intros d Hd; right; apply in_or_app; right; exact Hd).
    assert (In_first : forall d, In d (firstn (length ps) (c2 :: C2) ++ flat ps) -> In d (y :: (c2 :: C2) ++ flat ps)).
    { intros d Hd. right. apply in_app_or in Hd. apply in_or_app. destruct Hd as [A|A]; [left; eapply in_firstn; exact A|right; exact A]. }
    split; [|split; [|split; [|split]]].
    + apply fan_ok_cons; [| | | | |exact Ok].
      * rewrite G1; [exact V1|]. intros Hin. apply (Out d0); auto.
      * rewrite G1; [exact V2|]. intros Hin. apply (Out c1); auto.
      * rewrite G1; [exact V3|]. intros Hin. apply (Out x); auto.
      * rewrite G2; [exact V5|]. intros Hin. apply (Out x); auto.
      * rewrite G2; [exact V6|]. intros Hin. inversion Hnd' as [|? ? Ny _]. apply Ny. right. apply in_or_app. right. exact Hin.
    + rewrite Last. cbn [map snd]. symmetry. apply last_cons_default.
    + intros d Hd. cbn [length firstn app flat flat_map fst snd] in Hd. fold (flat ps) in Hd.
      assert (A : ~ In d (firstn (length ps) (c2 :: C2) ++ flat ps)).
      { intros Hin. apply Hd. right. apply in_app_or in Hin. apply in_or_app. destruct Hin as [B|B]; [left; exact B|right; right; right; exact B]. }
      rewrite (G1 d A). apply F1.
      * intros ->. apply Hd. left. reflexivity.
      * intros ->. apply Hd. right. apply in_or_app. right. left. reflexivity.
      * intros ->. apply Hd. right. apply in_or_app. right. right. left. reflexivity.
    + intros d Hd. cbn [flat flat_map fst snd app] in Hd. fold (flat ps) in Hd.
      rewrite G2; [apply F2|].
      * intros ->. apply Hd. left. reflexivity.
      * intros ->. apply Hd. right. left. reflexivity.
      * intros Hin. apply Hd. right. right. exact Hin.
    + intros i d Hd.
      assert (A : ~ In d (y :: (c2 :: C2) ++ flat ps)).
      { intros Hin. apply Hd. destruct Hin as [<-|Hin].
        - right. right. right. apply in_or_app. right. right. left. reflexivity.
        - apply in_app_or in Hin. right. right. change (c2 :: C2 ++ x :: y :: flat ps) with ((c2 :: C2) ++ x :: y :: flat ps).
          apply in_or_app. destruct Hin as [B|B]; [left; exact B|right; right; right; exact B]. }
      rewrite (G3 i d A). apply F3.
      * intros ->. apply Hd. left. reflexivity.
      * intros ->. apply Hd. right. left. reflexivity.
      * intros ->. apply Hd. right. right. left. reflexivity.
      * intros ->. apply Hd. right. right. right. apply in_or_app. right. left. reflexivity.
      * intros ->. apply Hd. right. right. right. apply in_or_app. right. right. left. reflexivity.
Qed.

(** the whole fan on a closed polygon p0 -> c1 -> ... -> cm -> p0 with m = k + 2 sides left after p0 and k pairs of
    new darts: k + 1 = n - 2 triangles, each glued to the next along x | y *)
Inductive fan_tri (f : img) : N -> list N -> list (N * N) -> Prop :=
| fan_tri_nil d0 c1 c2 : f 1 d0 = c1 -> f 1 c1 = c2 -> f 1 c2 = d0 -> fan_tri f d0 [c1; c2] []
| fan_tri_cons d0 c1 C x y ps :
    f 1 d0 = c1 -> f 1 c1 = x -> f 1 x = d0 -> f 2 x = y -> f 2 y = x ->
    fan_tri f y C ps -> fan_tri f d0 (c1 :: C) ((x, y) :: ps).

Lemma fan_tri_ext f g d0 C ps : img_eq f g -> fan_tri f d0 C ps -> fan_tri g d0 C ps.
Proof.
  intros He Ht. induction Ht as [d0 c1 c2 A B C0|d0 c1 C x y ps A B C0 D0 E0 _ IH].
  - constructor; rewrite <- He; assumption.
  - constructor; try (rewrite <- He; assumption). exact IH.
Qed.

Lemma last_in (l : list N) : forall d, l <> [] -> In (last l d) l.
Proof.
  induction l as [|a l IH]; intros d Hl; [congruence|]. destruct l as [|b l]; [left; reflexivity|].
  right. apply IH. discriminate.
Qed.
Lemma last_default (l : list N) : forall d e, l <> [] -> last l d = last l e.
Proof. induction l as [|a l IH]; intros d e Hl; [congruence|]. destruct l as [|b l]; [reflexivity|]. apply IH. discriminate. Qed.

Lemma fan_ok_cons_inv f d0 C x y ps : fan_ok f d0 C ((x, y) :: ps) ->
  exists c1 C', C = c1 :: C' /\ f 1 d0 = c1 /\ f 1 c1 = x /\ f 1 x = d0 /\ f 2 x = y /\ f 2 y = x /\ fan_ok f y C' ps.
Proof. intros Hk. inversion Hk; subst. eexists _, _. repeat split; eauto. Qed.
Lemma fan_ok_nil_inv f d0 C : fan_ok f d0 C [] -> chain f d0 C.
Proof. intros Hk. inversion Hk; subst. assumption. Qed.

(* closing the last triangle: only the 1-image of the last dart of the face changes *)
Lemma fan_ok_close f g : forall ps d0 C,
  fan_ok f d0 C ps -> length C = (length ps + 2)%nat -> NoDup (d0 :: C ++ flat ps) ->
  (forall d, d <> last C d0 -> g 1 d = f 1 d) -> (forall d, g 2 d = f 2 d) ->
  g 1 (last C d0) = last (map snd ps) d0 ->
  fan_tri g d0 C ps.
Proof.
  induction ps as [|[x y] ps IH]; intros d0 C Hok Hlen Hnd G1 G2 GL.
  - apply fan_ok_nil_inv in Hok. rename Hok into Hc. destruct C as [|c1 [|c2 [|c3 C3]]]; cbn [length] in Hlen; try lia.
    cbn [chain] in Hc. destruct Hc as (A & B & _). cbn [last map] in *.
    cbn [app flat flat_map] in Hnd. inversion Hnd as [|? ? N0 Hn1]. inversion Hn1 as [|? ? N1 _].
    constructor.
    + rewrite G1; [exact A|]. intros ->. apply N0. right. left. reflexivity.
    + rewrite G1; [exact B|]. intros ->. apply N1. left. reflexivity.
    + exact GL.
  - apply fan_ok_cons_inv in Hok. destruct Hok as (c1 & C' & -> & A & B & C0 & D0 & E0 & Hok').
    cbn [length] in Hlen.
    assert (HC' : C' <> []) by (destruct C'; cbn [length] in Hlen; [lia|discriminate]).
    assert (Hl : last (c1 :: C') d0 = last C' y).
    { destruct C' as [|a l]; [congruence|]. change (last (c1 :: a :: l) d0) with (last (a :: l) d0). apply last_default. discriminate. }
    rewrite Hl in *.
    cbn [flat flat_map app fst snd] in Hnd. fold (flat ps) in Hnd.
    assert (Hnd' : NoDup (y :: C' ++ flat ps)) by (apply (nodup_next d0 c1 C' x y (flat ps)); exact Hnd).
    assert (InL : In (last C' y) C') by (apply last_in; exact HC').
    inversion Hnd as [|? ? N0 Hn1]. inversion Hn1 as [|? ? N1 Hn2].
    pose proof (NoDup_remove_2 _ _ _ Hn2) as Nx.
    constructor.
    + rewrite G1; [exact A|]. intros ->. apply N0. right. apply in_or_app. left. exact InL.
    + rewrite G1; [exact B|]. intros ->. apply N1. apply in_or_app. left. exact InL.
    + rewrite G1; [exact C0|]. intros ->. apply Nx. apply in_or_app. left. exact InL.
    + rewrite G2. exact D0.
    + rewrite G2. exact E0.
    + apply IH; [exact Hok'|lia|exact Hnd'|exact G1|exact G2|].
      rewrite GL. cbn [map snd]. apply last_cons_default.
Qed.

Lemma fan_ok_tail f : forall ps d0 C,
  fan_ok f d0 C ps -> length C = (length ps + 2)%nat ->
  let dE := last (map snd ps) d0 in
  f 1 (f 1 dE) = last C d0.
Proof.
  induction ps as [|[x y] ps IH]; intros d0 C Hok Hlen; cbn zeta.
  - apply fan_ok_nil_inv in Hok. rename Hok into Hc. destruct C as [|c1 [|c2 [|c3 C3]]]; cbn [length] in Hlen; try lia.
    cbn [chain] in Hc. destruct Hc as (A & B & _). cbn [last map]. rewrite A, B. reflexivity.
  - apply fan_ok_cons_inv in Hok. destruct Hok as (c1 & C' & -> & A & B & C0 & D0 & E0 & Hok'). cbn [length] in Hlen.
    assert (HC' : C' <> []) by (destruct C'; cbn [length] in Hlen; [lia|discriminate]).
    cbn [map snd]. rewrite last_cons_default.
    rewrite (IH y C' Hok' ltac:(lia)).
    destruct C' as [|a l]; [congruence|]. change (last (c1 :: a :: l) d0) with (last (a :: l) d0). apply last_default. discriminate.
Qed.

Lemma NoDup_app_l (l1 l2 : list N) : NoDup (l1 ++ l2) -> NoDup l1.
Proof.
  induction l1 as [|a l1 IH]; intros Hn; [constructor|]. cbn [app] in Hn. inversion Hn as [|? ? Na Hn'].
  constructor; [intros Hin; apply Na; apply in_or_app; left; exact Hin|apply IH; exact Hn'].
Qed.
Lemma chain_ext' f g : forall C d0, (forall d, In d (d0 :: removelast C) -> g 1 d = f 1 d) -> chain f d0 C -> chain g d0 C.
Proof.
  induction C as [|c1 r IH]; intros d0 He Hc; cbn [chain] in *; [exact I|].
  destruct Hc as [A B]. split.
  - rewrite He; [exact A|left; reflexivity].
  - destruct r as [|c2 r']; [exact I|].
    apply IH; [|exact B]. intros d Hd. apply He. right.
    change (removelast (c1 :: c2 :: r')) with (c1 :: removelast (c2 :: r')). exact Hd.
Qed.

Theorem fan_from_pure_spec f p0 C ps :
  chain f p0 C -> f 0 p0 = last C p0 -> f 1 (last C p0) = p0 ->
  length C = (length ps + 2)%nat -> NoDup (p0 :: C ++ flat ps) ->
  let f' := fan_from_pure f p0 ps in
  fan_tri f' p0 C ps /\ (forall i d, ~ In d (p0 :: C ++ flat ps) -> f' i d = f i d).
Proof.
  intros Hc H0 Hlast Hlen Hnd. cbv zeta.
  assert (HC : C <> []) by (destruct C; cbn [length] in Hlen; [lia|discriminate]).
  set (pm := last C p0) in *.
  assert (InPm : In pm C) by (apply last_in; exact HC).
  assert (Npm0 : pm <> p0) by (intros E0; inversion Hnd as [|? ? N0 _]; apply N0; apply in_or_app; left; rewrite <- E0; exact InPm).
  unfold fan_from_pure. rewrite H0.
  set (f1 := p_unlink1 f pm).
  assert (U1 : forall d, d <> pm -> f1 1 d = f 1 d).
  { intros d Hd. unfold f1, p_unlink1. consts. simpl_ne. reflexivity. }
  assert (U2 : forall d, f1 2 d = f 2 d) by (intros d; unfold f1, p_unlink1; consts; reflexivity).
  assert (U3 : forall i d, d <> pm -> d <> p0 -> f1 i d = f i d).
  { intros i d A B. unfold f1, p_unlink1. rewrite Hlast.
    destruct ((i =? 0) && (d =? p0)) eqn:Q1; [apply andb_true_iff in Q1 as [_ Q]; apply N.eqb_eq in Q; contradiction|].
    destruct ((i =? 1) && (d =? pm)) eqn:Q2; [apply andb_true_iff in Q2 as [_ Q]; apply N.eqb_eq in Q; contradiction|]. reflexivity. }
  assert (Hc1 : chain f1 p0 C).
  { apply (chain_ext' f); [|exact Hc]. intros d Hd. apply U1. intros ->.
    (* pm is the last element of C: it is neither p0 nor in removelast C *)
    destruct Hd as [E0|Hd]; [congruence|].
    assert (Hs : C = removelast C ++ [pm]) by (apply app_removelast_last; exact HC).
    assert (HnC : NoDup C) by (inversion Hnd as [|? ? _ Hn1]; eapply NoDup_app_l; exact Hn1).
    rewrite Hs in HnC. apply NoDup_remove_2 in HnC. apply HnC. rewrite app_nil_r. exact Hd. }
  destruct (fan_pure_spec ps f1 p0 C Hc1 ltac:(lia) Hnd) as (Ok & Last & G1 & G2 & G3). cbv zeta in *.
  destruct (fan_pure f1 p0 ps) as [f2 dE] eqn:Ep. cbn [fst snd] in *.
  pose proof (fan_ok_tail f2 ps p0 C Ok Hlen) as Tl. cbv zeta in Tl. rewrite <- Last in Tl. fold pm in Tl. rewrite Tl.
  split.
  - apply (fan_ok_close f2); [exact Ok|exact Hlen|exact Hnd| | |].
    + intros d Hd. fold pm in Hd. unfold p_link1. consts. simpl_ne. reflexivity.
    + intros d. unfold p_link1. consts. reflexivity.
    + fold pm. unfold p_link1. consts. simpl_ne. rewrite <- Last. reflexivity.
  - intros i d Hd.
    assert (A1 : d <> pm) by (intros ->; apply Hd; right; apply in_or_app; left; exact InPm).
    assert (A2 : d <> p0) by (intros ->; apply Hd; left; reflexivity).
    assert (A3 : d <> dE).
    { intros ->. apply Hd. rewrite Last. destruct ps as [|p ps']; [left; reflexivity|].
      right. apply in_or_app. right.
      assert (Hl : In (last (map snd (p :: ps')) p0) (map snd (p :: ps'))) by (apply last_in; discriminate).
      apply in_map_iff in Hl. destruct Hl as ([a b] & Eab & Hin). cbn [snd] in Eab. rewrite <- Eab.
      unfold flat. apply in_flat_map. exists (a, b). split; [exact Hin|right; left; reflexivity]. }
    unfold p_link1.
    destruct ((i =? 0) && (d =? dE)) eqn:Q1; [apply andb_true_iff in Q1 as [_ Q]; apply N.eqb_eq in Q; contradiction|].
    destruct ((i =? 1) && (d =? pm)) eqn:Q2; [apply andb_true_iff in Q2 as [_ Q]; apply N.eqb_eq in Q; contradiction|].
    rewrite (G3 i d Hd). apply U3; assumption.
Qed.

(** the program: a fan from [p0] over the closed polygon p0 -> C that terminates normally leaves n - 2 triangles *)
Theorem fan_from_triangulates E n ks p0 nds C c w cnt w' cnt' :
  chain (beta w) p0 C -> beta w 0 p0 = last C p0 -> beta w 1 (last C p0) = p0 ->
  length C = (length (chunks2 nds) + 2)%nat -> NoDup (p0 :: C ++ flat (chunks2 nds)) ->
  run E (fan_from n ks p0 nds) c w cnt = (Done tt, w', cnt') ->
  fan_tri (beta w') p0 C (chunks2 nds) /\
  (forall i d, ~ In d (p0 :: C ++ flat (chunks2 nds)) -> beta w' i d = beta w i d).
Proof.
  intros Hc H0 Hl Hlen Hnd Hr.
  pose proof (fan_from_refines E n ks p0 nds c w cnt w' cnt' Hr) as Ref.
  destruct (fan_from_pure_spec (beta w) p0 C (chunks2 nds) Hc H0 Hl Hlen Hnd) as (Tri & Fr). cbv zeta in Tri, Fr.
  split.
  - eapply fan_tri_ext; [|exact Tri]. intros i d. symmetry. apply Ref.
  - intros i d Hd. rewrite Ref. apply Fr, Hd.
Qed.

(** the two public entry points: [fan_convex_cell] fans from the face's own dart, [fan_cell] from the dart its star
    search returns; what precedes the fan only reads *)
Lemma wi_custom_tx S d : forall l, writes_in S (custom_tx d l).
Proof.
  induction l as [|i r IH]; cbn [custom_tx]; [exact I|]. cbn. intros ?.
  apply writes_in_bind; [exact IH|]. intros ?. exact I.
Qed.
Lemma wi_succ2_tx S p d : writes_in S (succ2_tx p d).
Proof. destruct p; cbn [succ2_tx]; try (cbn; intros; exact I). apply wi_custom_tx. Qed.
Lemma wi_orbit_loop S p : forall f q m out, writes_in S (orbit_tx_loop f p q m out).
Proof.
  induction f as [|f IH]; intros q m out; cbn [orbit_tx_loop]; [exact I|]. destruct q as [|d q']; [exact I|].
  apply writes_in_bind; [apply wi_succ2_tx|]. intros ims. destruct (fold_left check ims (q', m)). apply IH.
Qed.
Lemma wi_orbit2_tx S n p d : writes_in S (orbit2_tx n p d).
Proof. unfold orbit2_tx. destruct (policy_ok p); [apply wi_orbit_loop|exact I]. Qed.
Lemma wi_read_face_vertices n : forall ds, writes_in Sdata (read_face_vertices n ds).
Proof.
  induction ds as [|d r IH]; cbn [read_face_vertices]; [exact I|].
  apply writes_in_bind; [apply wi_vertex_id|]. intros ?. cbn. intros ov. destruct (asV ov); [|exact I].
  apply writes_in_bind; [exact IH|]. intros ?. exact I.
Qed.
Lemma chain_img_eq f g : img_eq g f -> forall C d0, chain f d0 C -> chain g d0 C.
Proof. intros He C. induction C as [|c1 r IH]; intros d0 Hc; cbn [chain] in *; [exact I|]. destruct Hc as [A B]. split; [rewrite He; exact A|apply IH, B]. Qed.

Theorem fan_convex_cell_triangulates E n ks p0 nds C c w cnt w' cnt' :
  chain (beta w) p0 C -> beta w 0 p0 = last C p0 -> beta w 1 (last C p0) = p0 ->
  length C = (length (chunks2 nds) + 2)%nat -> NoDup (p0 :: C ++ flat (chunks2 nds)) ->
  run E (fan_convex_cell n ks p0 nds) c w cnt = (Done tt, w', cnt') ->
  fan_tri (beta w') p0 C (chunks2 nds) /\
  (forall i d, ~ In d (p0 :: C ++ flat (chunks2 nds)) -> beta w' i d = beta w i d).
Proof.
  intros Hc H0 Hl Hlen Hnd Hr. unfold fan_convex_cell in Hr.
  apply data_stepY in Hr; [|apply wi_orbit2_tx]. destruct Hr as (ds & wa & ca & Ea & Hr).
  destruct (check_requirements (length ds) (length nds)); [cbn in Hr; discriminate Hr|].
  destruct (fan_from_triangulates E n ks p0 nds C c wa ca w' cnt') as (Tri & Fr); auto.
  - apply (chain_img_eq (beta w)); [exact Ea|exact Hc].
  - rewrite !Ea. exact H0.
  - rewrite !Ea. exact Hl.
  - split; [exact Tri|]. intros i d Hd. rewrite (Fr i d Hd). apply Ea.
Qed.

Theorem fan_cell_triangulates E n ks f nds c w cnt w' cnt' :
  run E (fan_cell n ks f nds) c w cnt = (Done tt, w', cnt') ->
  exists p0, forall C,
    chain (beta w) p0 C -> beta w 0 p0 = last C p0 -> beta w 1 (last C p0) = p0 ->
    length C = (length (chunks2 nds) + 2)%nat -> NoDup (p0 :: C ++ flat (chunks2 nds)) ->
    fan_tri (beta w') p0 C (chunks2 nds) /\
    (forall i d, ~ In d (p0 :: C ++ flat (chunks2 nds)) -> beta w' i d = beta w i d).
Proof.
  intros Hr. unfold fan_cell in Hr.
  apply data_stepY in Hr; [|apply wi_orbit2_tx]. destruct Hr as (ds & wa & ca & Ea & Hr).
  apply data_stepY in Hr; [|apply wi_read_face_vertices]. destruct Hr as (vs & wb & cb & Eb & Hr).
  destruct (check_requirements (length ds) (length nds)); [cbn in Hr; discriminate Hr|].
  destruct (find_star ds vs) as [p0|]; [|cbn in Hr; discriminate Hr].
  exists p0. intros C Hc H0 Hl Hlen Hnd.
  assert (Eab : img_eq (beta wb) (beta w)) by (eapply img_eq_trans; eauto).
  destruct (fan_from_triangulates E n ks p0 nds C c wb cb w' cnt') as (Tri & Fr); auto.
  - apply (chain_img_eq (beta w)); [exact Eab|exact Hc].
  - rewrite !Eab. exact H0.
  - rewrite !Eab. exact Hl.
  - split; [exact Tri|]. intros i d Hd. rewrite (Fr i d Hd). apply Eab.
Qed.

End FanTopo.
