(** * CMap2 operations, transcribed from honeycomb-core.

    Sources: cmap/components/betas.rs, cmap/dim2/{links,sews,basic_ops,orbits,embed}.rs,
    attributes/{collections,manager}.rs.  Model only, no proofs. *)
From Coq Require Import List NArith Bool.
From HC Require Import Stm.Prog.
Import ListNotations.
Open Scope N_scope.

Inductive cellkind := KVertex | KEdge | KFace | KVolume.
Definition cellkind_eqb (a b : cellkind) : bool :=
  match a, b with
  | KVertex, KVertex | KEdge, KEdge | KFace, KFace | KVolume, KVolume => true
  | _, _ => false
  end.

(** Registered user attribute kinds: (kind id, cell kind it is bound to). *)
Definition kinds := list (N * cellkind).

Section Ops2.
Context `{Sig}.

(** ** components/betas.rs *)
Definition one_link_core (l r : N) : prog unit :=
  b1 <- rdB 1 l ;;
  if negb (b1 =? 0) then Fail (ENonFreeBase 1) else
  b0 <- rdB 0 r ;;
  if negb (b0 =? 0) then Fail (ENonFreeImage 0) else
  wrB 1 l r ;;; wrB 0 r l.

Definition two_link_core (l r : N) : prog unit :=
  bl <- rdB 2 l ;;
  if negb (bl =? 0) then Fail (ENonFreeBase 2) else
  br <- rdB 2 r ;;
  if negb (br =? 0) then Fail (ENonFreeImage 2) else
  wrB 2 l r ;;; wrB 2 r l.

(* `replace` = read then write; the check comes after the write, as in the code *)
Definition one_unlink_core (l : N) : prog unit :=
  r <- rdB 1 l ;;
  wrB 1 l 0 ;;;
  if r =? 0 then Fail (EAlreadyFree 1) else
  wrB 0 r 0.

Definition two_unlink_core (l : N) : prog unit :=
  r <- rdB 2 l ;;
  wrB 2 l 0 ;;;
  if r =? 0 then Fail (EAlreadyFree 2) else
  wrB 2 r 0.

(** ** dim2/basic_ops.rs : cell identifiers (BFS with running minimum) *)
Definition mem_N (x : N) (l : list N) : bool := existsb (N.eqb x) l.

(* one `if marked.insert(x) { min = min.min(x); pending.push_back(x) }` *)
Definition visit (x : N) (st : list N * list N * N) : list N * list N * N :=
  let '(pending, marked, mn) := st in
  if mem_N x marked then st else (pending ++ [x], x :: marked, N.min mn x).

Fixpoint vid_loop (fuel : nat) (pending marked : list N) (mn : N) : prog N :=
  match fuel with
  | O => Panic OutOfFuel
  | S f =>
    match pending with
    | [] => Ret mn
    | d :: rest =>
      b2d <- rdB 2 d ;;
      b0d <- rdB 0 d ;;
      im1 <- rdB 1 b2d ;;
      let '(p1, m1, mn1) := visit im1 (rest, marked, mn) in
      im2 <- rdB 2 b0d ;;
      let '(p2, m2, mn2) := visit im2 (p1, m1, mn1) in
      vid_loop f p2 m2 mn2
    end
  end.

Definition fuel_of (n : N) : nat := N.to_nat (2 * n + 2).

Definition vertex_id_tx (n d : N) : prog N := vid_loop (fuel_of n) [d] [d; 0] d.

Definition edge_id_tx (d : N) : prog N :=
  b2 <- rdB 2 d ;;
  if b2 =? 0 then Ret d else Ret (N.min b2 d).

Fixpoint fid_loop (fuel : nat) (pending marked : list N) (mn : N) : prog N :=
  match fuel with
  | O => Panic OutOfFuel
  | S f =>
    match pending with
    | [] => Ret mn
    | d :: rest =>
      im1 <- rdB 1 d ;;
      let '(p1, m1, mn1) := visit im1 (rest, marked, mn) in
      im2 <- rdB 0 d ;;
      let '(p2, m2, mn2) := visit im2 (p1, m1, mn1) in
      fid_loop f p2 m2 mn2
    end
  end.

Definition face_id_tx (n d : N) : prog N := fid_loop (fuel_of n) [d] [d; 0] d.

(** ** attributes/collections.rs : AttrSparseVec::merge / split, for coordinates *)
(* same cell on both sides: nothing to merge, the value is kept (moved if the id changes) *)
Definition vertices_merge (out l r : N) : prog unit :=
  if l =? r then
    (if out =? l then Ret tt else v <- rdV l ;; wrV l None ;;; wrV out v)
  else
  a <- rdV l ;;
  b <- rdV r ;;
  let new_v := match a, b with
               | Some v1, Some v2 => v_merge v1 v2
               | Some v, None | None, Some v => v_merge_inc v
               | None, None => v_merge_none
               end in
  match new_v with
  | Some v => wrV r None ;;; wrV l None ;;; wrV out (Some v)
  | None => Fail EAttr
  end.

Definition vertices_split (lo ro inp : N) : prog unit :=
  if lo =? ro then
    (if lo =? inp then Ret tt else v <- rdV inp ;; wrV inp None ;;; wrV lo v)
  else
  a <- rdV inp ;;
  let res := match a with Some v => v_split v | None => v_split_none end in
  match res with
  | Some (lv, rv) => wrV inp None ;;; wrV lo (Some lv) ;;; wrV ro (Some rv)
  | None => Fail EAttr
  end.

(** the same for a user attribute kind [k]; each law call is a [Tick] *)
Definition attr_merge (k out l r : N) : prog unit :=
  if l =? r then
    (if out =? l then Ret tt else v <- rdA k l ;; wrA k l None ;;; wrA k out v)
  else
  a <- rdA k l ;;
  b <- rdA k r ;;
  Tick (fun inj =>
  let new_v := if inj then None else
               match a, b with
               | Some v1, Some v2 => a_merge k v1 v2
               | Some v, None | None, Some v => a_merge_inc k v
               | None, None => a_merge_none k
               end in
  match new_v with
  | Some v => wrA k r None ;;; wrA k l None ;;; wrA k out (Some v)
  | None => Fail EAttr
  end).

Definition attr_split (k lo ro inp : N) : prog unit :=
  if lo =? ro then
    (if lo =? inp then Ret tt else v <- rdA k inp ;; wrA k inp None ;;; wrA k lo v)
  else
  a <- rdA k inp ;;
  Tick (fun inj =>
  let res := if inj then None else
             match a with Some v => a_split k v | None => a_split_none k end in
  match res with
  | Some (lv, rv) => wrA k inp None ;;; wrA k lo (Some lv) ;;; wrA k ro (Some rv)
  | None => Fail EAttr
  end).

(** ** attributes/manager.rs : merge_attributes / split_attributes
    (the HashMap iteration order is unspecified; the model uses registration order) *)
Fixpoint merge_attributes (ks : kinds) (c : cellkind) (out l r : N) : prog unit :=
  match ks with
  | [] => Ret tt
  | (k, c') :: rest =>
    (if cellkind_eqb c c' then attr_merge k out l r else Ret tt) ;;;
    merge_attributes rest c out l r
  end.

Fixpoint split_attributes (ks : kinds) (c : cellkind) (lo ro inp : N) : prog unit :=
  match ks with
  | [] => Ret tt
  | (k, c') :: rest =>
    (if cellkind_eqb c c' then attr_split k lo ro inp else Ret tt) ;;;
    split_attributes rest c lo ro inp
  end.

(** ** dim2/sews/one.rs *)
Definition one_sew (n : N) (ks : kinds) (l r : N) : prog unit :=
  b2l <- rdB 2 l ;;
  if b2l =? 0 then one_link_core l r
  else
    b2l_vid_old <- vertex_id_tx n b2l ;;
    r_vid_old <- vertex_id_tx n r ;;
    one_link_core l r ;;;
    new_vid <- vertex_id_tx n r ;;
    vertices_merge new_vid b2l_vid_old r_vid_old ;;;
    merge_attributes ks KVertex new_vid b2l_vid_old r_vid_old.

Definition one_unsew (n : N) (ks : kinds) (l : N) : prog unit :=
  b2l <- rdB 2 l ;;
  if b2l =? 0 then one_unlink_core l
  else
    r <- rdB 1 l ;;
    vid_old <- vertex_id_tx n r ;;
    one_unlink_core l ;;;
    new_l <- vertex_id_tx n b2l ;;
    new_r <- vertex_id_tx n r ;;
    vertices_split new_l new_r vid_old ;;;
    split_attributes ks KVertex new_l new_r vid_old.

(** ** dim2/sews/two.rs *)
Definition two_sew (n : N) (ks : kinds) (l r : N) : prog unit :=
  b1l <- rdB 1 l ;;
  b1r <- rdB 1 r ;;
  match b1l =? 0, b1r =? 0 with
  | true, true =>
    two_link_core l r ;;;
    eid_new <- edge_id_tx l ;;
    merge_attributes ks KEdge eid_new l r
  | true, false =>
    l_vid_old <- vertex_id_tx n l ;;
    b1r_vid_old <- vertex_id_tx n b1r ;;
    two_link_core l r ;;;
    l_vid_new <- vertex_id_tx n l ;;
    eid_new <- edge_id_tx l ;;
    vertices_merge l_vid_new l_vid_old b1r_vid_old ;;;
    merge_attributes ks KVertex l_vid_new l_vid_old b1r_vid_old ;;;
    merge_attributes ks KEdge eid_new l r
  | false, true =>
    b1l_vid_old <- vertex_id_tx n b1l ;;
    r_vid_old <- vertex_id_tx n r ;;
    two_link_core l r ;;;
    r_vid_new <- vertex_id_tx n r ;;
    eid_new <- edge_id_tx l ;;
    vertices_merge r_vid_new b1l_vid_old r_vid_old ;;;
    merge_attributes ks KVertex r_vid_new b1l_vid_old r_vid_old ;;;
    merge_attributes ks KEdge eid_new l r
  | false, false =>
    l_vid_old <- vertex_id_tx n l ;;
    b1r_vid_old <- vertex_id_tx n b1r ;;
    b1l_vid_old <- vertex_id_tx n b1l ;;
    r_vid_old <- vertex_id_tx n r ;;
    lv <- rdV l_vid_old ;;
    b1rv <- rdV b1r_vid_old ;;
    b1lv <- rdV b1l_vid_old ;;
    rv <- rdV r_vid_old ;;
    (match lv, b1rv, b1lv, rv with
     | Some a, Some b, Some c, Some d =>
       if bad_orient a b c d then Fail (EBadGeometry 2) else Ret tt
     | _, _, _, _ => Ret tt
     end) ;;;
    two_link_core l r ;;;
    l_vid_new <- vertex_id_tx n l ;;
    r_vid_new <- vertex_id_tx n r ;;
    eid_new <- edge_id_tx l ;;
    vertices_merge l_vid_new l_vid_old b1r_vid_old ;;;
    vertices_merge r_vid_new b1l_vid_old r_vid_old ;;;
    merge_attributes ks KVertex l_vid_new l_vid_old b1r_vid_old ;;;
    merge_attributes ks KVertex r_vid_new b1l_vid_old r_vid_old ;;;
    merge_attributes ks KEdge eid_new l r
  end.

Definition two_unsew (n : N) (ks : kinds) (l : N) : prog unit :=
  r <- rdB 2 l ;;
  b1l <- rdB 1 l ;;
  b1r <- rdB 1 r ;;
  match b1l =? 0, b1r =? 0 with
  | true, true =>
    eid_old <- edge_id_tx l ;;
    two_unlink_core l ;;;
    split_attributes ks KEdge l r eid_old
  | true, false =>
    eid_old <- edge_id_tx l ;;
    l_vid_old <- vertex_id_tx n l ;;
    two_unlink_core l ;;;
    split_attributes ks KEdge l r eid_old ;;;
    new_lv_l <- vertex_id_tx n l ;;
    new_lv_r <- vertex_id_tx n b1r ;;
    vertices_split new_lv_l new_lv_r l_vid_old ;;;
    split_attributes ks KVertex new_lv_l new_lv_r l_vid_old
  | false, true =>
    eid_old <- edge_id_tx l ;;
    r_vid_old <- vertex_id_tx n r ;;
    two_unlink_core l ;;;
    split_attributes ks KEdge l r eid_old ;;;
    new_rv_l <- vertex_id_tx n b1l ;;
    new_rv_r <- vertex_id_tx n r ;;
    vertices_split new_rv_l new_rv_r r_vid_old ;;;
    split_attributes ks KVertex new_rv_l new_rv_r r_vid_old
  | false, false =>
    eid_old <- edge_id_tx l ;;
    l_vid_old <- vertex_id_tx n l ;;
    r_vid_old <- vertex_id_tx n r ;;
    two_unlink_core l ;;;
    split_attributes ks KEdge l r eid_old ;;;
    new_lv_l <- vertex_id_tx n l ;;
    new_lv_r <- vertex_id_tx n b1r ;;
    new_rv_l <- vertex_id_tx n b1l ;;
    new_rv_r <- vertex_id_tx n r ;;
    vertices_split new_lv_l new_lv_r l_vid_old ;;;
    split_attributes ks KVertex new_lv_l new_lv_r l_vid_old ;;;
    vertices_split new_rv_l new_rv_r r_vid_old ;;;
    split_attributes ks KVertex new_rv_l new_rv_r r_vid_old
  end.

(** ** the public transactional calls of CMap2 (link/unlink/sew/unsew<I>, embed.rs) *)
Inductive call2 :=
| Link1 (l r : N) | Link2 (l r : N) | Unlink1 (l : N) | Unlink2 (l : N)
| Sew1 (l r : N) | Sew2 (l r : N) | Unsew1 (l : N) | Unsew2 (l : N)
| WriteVertex (d : N) (v : V) | RemoveVertex (d : N)
| WriteAttr (k d : N) (a : A) | RemoveAttr (k d : N)
| RemoveDartTx (d : N).                (* remove_free_dart_transac *)

Definition call2_prog (n : N) (ks : kinds) (c : call2) : prog unit :=
  match c with
  | Link1 l r => one_link_core l r
  | Link2 l r => two_link_core l r
  | Unlink1 l => one_unlink_core l
  | Unlink2 l => two_unlink_core l
  | Sew1 l r => one_sew n ks l r
  | Sew2 l r => two_sew n ks l r
  | Unsew1 l => one_unsew n ks l
  | Unsew2 l => two_unsew n ks l
  | WriteVertex d v => _ <- rdV d ;; wrV d (Some v)
  | RemoveVertex d => _ <- rdV d ;; wrV d None
  | WriteAttr k d a => _ <- rdA k d ;; wrA k d (Some a)
  | RemoveAttr k d => _ <- rdA k d ;; wrA k d None
  | RemoveDartTx d => _ <- rdU d ;; wrU d true
  end.

Fixpoint block_prog (n : N) (ks : kinds) (cs : list call2) : prog unit :=
  match cs with
  | [] => Ret tt
  | c :: rest => call2_prog n ks c ;;; block_prog n ks rest
  end.

End Ops2.
