(** * C04, data clause for the 1-sew: when the 1-sew of [l] onto [r] merges two vertices (that is, when [l] is
    2-sewn), the new vertex -- identified by the smallest dart of its orbit in the linked map -- carries the merge
    of the two former values, the two former identifiers are emptied, and every other coordinate slot is
    untouched; if the two vertices already were one cell, its value is kept (moved if the identifier changes).

    The identifiers the program computes are the orbit minima ([Orbit2Proofs.vertex_id_min]); the rest is the
    execution of [vertices_merge], and the attribute merges that follow write no coordinate. *)
From Coq Require Import List NArith Bool Lia.
From HC Require Import Base.Closure Stm.Prog Stm.ProgFacts Stm.Atomic Map2.Ops2 Map2.State2 Map2.Wf2 Map2.Wf2Proofs
  Map2.Orbit2 Map2.Orbit2Proofs.
Import ListNotations.
Open Scope N_scope.
Arguments N.eqb : simpl never.

Section SewData.
Context `{Sig}.

Definition is_vid (n : N) (s : store) (d i : N) : Prop :=
  exists L, orbit2 n s PVertex d = Some L /\ minof i L.
Definition set1 (w : store) (l r : N) : store := upd (upd w (XBeta 1 l) (VN r)) (XBeta 0 r) (VN l).

(* the lawful merge of two coordinate slots *)
Definition merged (a b : option V) : option V :=
  match a, b with
  | Some v1, Some v2 => v_merge v1 v2
  | Some v, None | None, Some v => v_merge_inc v
  | None, None => v_merge_none
  end.

Definition Sattr (v : var) : Prop := match v with XAttr _ _ => True | _ => False end.
Lemma wi_attr_merge_a k o l r : writes_in Sattr (attr_merge k o l r).
Proof.
  unfold attr_merge. destruct (l =? r).
  - destruct (o =? l); cbn; auto.
  - cbn. intros a b inj. destruct (if inj then None else _); cbn; auto.
Qed.
Lemma wi_merge_attributes_a ks c o l r : writes_in Sattr (merge_attributes ks c o l r).
Proof.
  induction ks as [|[k c'] ks IH]; cbn; [exact I|]. apply writes_in_bind; [|auto].
  destruct (cellkind_eqb c c'); [apply wi_attr_merge_a | exact I].
Qed.

Lemma vertex_upd_v s e x d : vertex (upd s (XVertex e) (VV x)) d = if d =? e then x else vertex s d.
Proof. unfold vertex, upd. cbn. destruct (N.eqb_spec d e); reflexivity. Qed.
Lemma vertex_set1 w l r d : vertex (set1 w l r) d = vertex w d.
Proof. unfold set1, vertex. rewrite !upd_other by discriminate. reflexivity. Qed.

Lemma run_vertices_merge E out l r c w cnt w' cnt' :
  run E (vertices_merge out l r) c w cnt = (Done tt, w', cnt') ->
  (forall d, d <> l -> d <> r -> d <> out -> vertex w' d = vertex w d) /\
  (l <> r -> merged (vertex w l) (vertex w r) <> None /\ vertex w' out = merged (vertex w l) (vertex w r) /\
             (l <> out -> vertex w' l = None) /\ (r <> out -> vertex w' r = None)) /\
  (l = r -> vertex w' out = vertex w l /\ (l <> out -> vertex w' l = None)).
Proof.
  unfold vertices_merge. destruct (N.eqb_spec l r) as [->|Hlr].
  - destruct (N.eqb_spec out r) as [->|Hor]; cbn [run bind rdV wrV].
    + intros Hr. inversion Hr; subst. repeat split; auto; congruence.
    + destruct (e_dom E (XVertex r)); [|discriminate]. cbn [run]. destruct (e_dom E (XVertex out)); [|discriminate].
      cbn [run]. intros Hr. inversion Hr; subst. split; [|split; [congruence|]].
      * intros d D1 _ D3. rewrite !vertex_upd_v. destruct (N.eqb_spec d out); [contradiction|]. destruct (N.eqb_spec d r); [contradiction|]. reflexivity.
      * intros _. rewrite !vertex_upd_v, N.eqb_refl. split; [reflexivity|].
        intros Hne. destruct (N.eqb_spec r out); [congruence|]. rewrite N.eqb_refl. reflexivity.
  - cbn [run bind rdV wrV].
    destruct (e_dom E (XVertex l)) eqn:Dl; [|discriminate]. destruct (e_dom E (XVertex r)) eqn:Dr; [|discriminate].
    fold (vertex w l). fold (vertex w r).
    assert (Tail : forall v, merged (vertex w l) (vertex w r) = Some v ->
      run E (Wr (XVertex r) (VV None) (Wr (XVertex l) (VV None) (wrV out (Some v)))) c w cnt = (Done tt, w', cnt') ->
      (forall d : N, d <> l -> d <> r -> d <> out -> vertex w' d = vertex w d) /\
      (l <> r -> merged (vertex w l) (vertex w r) <> None /\ vertex w' out = merged (vertex w l) (vertex w r) /\
         (l <> out -> vertex w' l = None) /\ (r <> out -> vertex w' r = None)) /\
      (l = r -> vertex w' out = vertex w l /\ (l <> out -> vertex w' l = None))).
    { intros v Em. cbn [run bind wrV]. rewrite Dr, Dl. cbn [run]. destruct (e_dom E (XVertex out)); [|discriminate]. cbn [run].
      intros Hr. inversion Hr; subst. split; [|split; [|congruence]].
      + intros d D1 D2 D3. rewrite !vertex_upd_v.
        destruct (N.eqb_spec d out); [contradiction|]. destruct (N.eqb_spec d l); [contradiction|]. destruct (N.eqb_spec d r); [contradiction|]. reflexivity.
      + intros _. rewrite Em. split; [discriminate|]. rewrite !vertex_upd_v, N.eqb_refl. split; [reflexivity|]. split.
        * intros Hne. destruct (N.eqb_spec l out); [congruence|]. rewrite N.eqb_refl. reflexivity.
        * intros Hne. destruct (N.eqb_spec r out); [congruence|]. destruct (N.eqb_spec r l); [congruence|]. rewrite N.eqb_refl. reflexivity. }
    revert Tail. unfold merged. destruct (vertex w l) as [a|], (vertex w r) as [b|]; intros Tail.
    + destruct (v_merge a b) as [v|] eqn:Em; [apply (Tail v eq_refl)|discriminate].
    + destruct (v_merge_inc a) as [v|] eqn:Em; [apply (Tail v eq_refl)|discriminate].
    + destruct (v_merge_inc b) as [v|] eqn:Em; [apply (Tail v eq_refl)|discriminate].
    + destruct v_merge_none as [v|] eqn:Em; [apply (Tail v eq_refl)|discriminate].
Qed.

Lemma run_one_link_core E l r c w cnt o w' cnt' :
  run E (one_link_core l r) c w cnt = (o, w', cnt') ->
  match o with Done _ => w' = set1 w l r /\ cnt' = cnt | _ => True end.
Proof.
  unfold one_link_core. cbn [run bind rdB wrB]. intros Hr.
  destruct (e_dom E (XBeta 1 l)); [|injection Hr as <- <- <-; exact I].
  destruct (negb (asN (w (XBeta 1 l)) =? 0)); cbn [run] in Hr; [injection Hr as <- <- <-; exact I|].
  destruct (e_dom E (XBeta 0 r)); [|injection Hr as <- <- <-; exact I].
  destruct (negb (asN (w (XBeta 0 r)) =? 0)); cbn [run] in Hr; [injection Hr as <- <- <-; exact I|].
  cbn [run bind wrB] in Hr. destruct (e_dom E (XBeta 1 l)); [|injection Hr as <- <- <-; exact I].
  cbn [run] in Hr. destruct (e_dom E (XBeta 0 r)); injection Hr as <- <- <-; auto.
Qed.

Theorem one_sew_vertex_data E n ks l r c w cnt w' cnt' :
  dom_ok E n -> wf2 n w -> okd n w l -> okd n w r -> beta w 2 l <> 0 ->
  run E (one_sew n ks l r) c w cnt = (Done tt, w', cnt') ->
  exists i1 i2 i',
    is_vid n w (beta w 2 l) i1 /\ is_vid n w r i2 /\ is_vid n (set1 w l r) r i' /\
    (forall d, d <> i1 -> d <> i2 -> d <> i' -> vertex w' d = vertex w d) /\
    (i1 <> i2 -> merged (vertex w i1) (vertex w i2) <> None /\ vertex w' i' = merged (vertex w i1) (vertex w i2) /\
                 (i1 <> i' -> vertex w' i1 = None) /\ (i2 <> i' -> vertex w' i2 = None)) /\
    (i1 = i2 -> vertex w' i' = vertex w i1 /\ (i1 <> i' -> vertex w' i1 = None)).
Proof.
  intros Hdom W Ol Or Nb Hr. pose proof Ol as (Hl0 & Hln & Hlu). pose proof Or as (Hr0 & Hrn & Hru).
  unfold one_sew in Hr. rewrite run_rdB in Hr by (apply Hdom; [lia|exact Hln]).
  destruct (N.eqb_spec (beta w 2 l) 0) as [Z|_]; [contradiction|].
  assert (Hb2n : beta w 2 l < n) by (apply W; [lia|exact Hln]).
  destruct (orbit2_spec n w PVertex (beta w 2 l) W eq_refl Nb Hb2n) as (L1 & E1 & _).
  destruct (vertex_id_min E n c w (beta w 2 l) cnt L1 Hdom W Nb Hb2n E1) as (i1 & R1 & M1).
  rewrite run_bind, R1 in Hr.
  destruct (orbit2_spec n w PVertex r W eq_refl Hr0 Hrn) as (L2 & E2 & _).
  destruct (vertex_id_min E n c w r cnt L2 Hdom W Hr0 Hrn E2) as (i2 & R2 & M2).
  rewrite run_bind, R2 in Hr.
  rewrite run_bind in Hr.
  destruct (run E (one_link_core l r) c w cnt) as [[o1 w1] cnt1] eqn:Hc.
  pose proof (triple_one_link_core E n l r c w cnt _ _ _ (conj W (conj Ol Or)) Hc) as W1.
  apply run_one_link_core in Hc. destruct o1 as [[]|e| |q]; try discriminate Hr.
  destruct Hc as (-> & ->).
  destruct (orbit2_spec n (set1 w l r) PVertex r W1 eq_refl Hr0 Hrn) as (L' & E' & _).
  destruct (vertex_id_min E n c (set1 w l r) r cnt L' Hdom W1 Hr0 Hrn E') as (i' & R' & M').
  rewrite run_bind, R' in Hr.
  rewrite run_bind in Hr.
  destruct (run E (vertices_merge i' i1 i2) c (set1 w l r) cnt) as [[o2 w2] cnt2] eqn:Hm.
  destruct o2 as [[]|e| |q]; try discriminate Hr.
  apply run_vertices_merge in Hm as (Hoth & Hne & Heq).
  assert (Hv : forall d, vertex w' d = vertex w2 d).
  { intros d. unfold vertex. f_equal. eapply writes_in_run; [apply wi_merge_attributes_a|exact Hr|]. cbn. auto. }
  exists i1, i2, i'. split; [exists L1; auto|]. split; [exists L2; auto|]. split; [exists L'; auto|].
  split; [|split].
  - intros d D1 D2 D3. rewrite Hv, (Hoth d D1 D2 D3). apply vertex_set1.
  - intros Hd. destruct (Hne Hd) as (A & B & C & D). rewrite !vertex_set1 in *. rewrite !Hv. auto.
  - intros Hd. destruct (Heq Hd) as (A & B). rewrite !vertex_set1 in *. rewrite !Hv. auto.
Qed.

(** ** the 1-unsew splits *)
Definition clr1 (w : store) (l r : N) : store := upd (upd w (XBeta 1 l) (VN 0)) (XBeta 0 r) (VN 0).
Lemma vertex_clr1 w l r d : vertex (clr1 w l r) d = vertex w d.
Proof. unfold clr1, vertex. rewrite !upd_other by discriminate. reflexivity. Qed.

Definition split_of (a : option V) : option (V * V) :=
  match a with Some v => v_split v | None => v_split_none end.

Lemma wi_attr_split_a k lo ro i : writes_in Sattr (attr_split k lo ro i).
Proof.
  unfold attr_split. destruct (lo =? ro).
  - destruct (lo =? i); cbn; auto.
  - cbn. intros a inj. destruct (if inj then None else _) as [[? ?]|]; cbn; auto.
Qed.
Lemma wi_split_attributes_a ks c lo ro i : writes_in Sattr (split_attributes ks c lo ro i).
Proof.
  induction ks as [|[k c'] ks IH]; cbn; [exact I|]. apply writes_in_bind; [|auto].
  destruct (cellkind_eqb c c'); [apply wi_attr_split_a | exact I].
Qed.

Lemma run_vertices_split E lo ro inp c w cnt w' cnt' :
  run E (vertices_split lo ro inp) c w cnt = (Done tt, w', cnt') ->
  (forall d, d <> lo -> d <> ro -> d <> inp -> vertex w' d = vertex w d) /\
  (lo <> ro -> exists lv rv, split_of (vertex w inp) = Some (lv, rv) /\ vertex w' lo = Some lv /\ vertex w' ro = Some rv /\
                (inp <> lo -> inp <> ro -> vertex w' inp = None)) /\
  (lo = ro -> vertex w' lo = vertex w inp /\ (inp <> lo -> vertex w' inp = None)).
Proof.
  unfold vertices_split. destruct (N.eqb_spec lo ro) as [->|Hlr].
  - destruct (N.eqb_spec ro inp) as [->|Hor]; cbn [run bind rdV wrV].
    + intros Hr. inversion Hr; subst. repeat split; auto; congruence.
    + destruct (e_dom E (XVertex inp)); [|discriminate]. cbn [run]. destruct (e_dom E (XVertex ro)); [|discriminate].
      cbn [run]. intros Hr. inversion Hr; subst. split; [|split; [congruence|]].
      * intros d D1 _ D3. rewrite !vertex_upd_v. destruct (N.eqb_spec d ro); [contradiction|]. destruct (N.eqb_spec d inp); [contradiction|]. reflexivity.
      * intros _. rewrite !vertex_upd_v, N.eqb_refl. split; [reflexivity|].
        intros Hne. destruct (N.eqb_spec inp ro); [congruence|]. rewrite N.eqb_refl. reflexivity.
  - cbn [run bind rdV wrV].
    destruct (e_dom E (XVertex inp)) eqn:Di; [|discriminate]. fold (vertex w inp).
    change (match vertex w inp with Some v => v_split v | None => v_split_none end) with (split_of (vertex w inp)).
    destruct (split_of (vertex w inp)) as [[lv rv]|] eqn:Es; [|discriminate].
    cbn [run bind wrV]. rewrite Di. cbn [run]. destruct (e_dom E (XVertex lo)); [|discriminate]. cbn [run].
    destruct (e_dom E (XVertex ro)); [|discriminate]. cbn [run].
    intros Hr. inversion Hr; subst. split; [|split; [|congruence]].
    + intros d D1 D2 D3. rewrite !vertex_upd_v.
      destruct (N.eqb_spec d ro); [contradiction|]. destruct (N.eqb_spec d lo); [contradiction|]. destruct (N.eqb_spec d inp); [contradiction|]. reflexivity.
    + intros _. exists lv, rv. split; [reflexivity|]. rewrite !vertex_upd_v, !N.eqb_refl.
      destruct (N.eqb_spec lo ro); [congruence|]. split; [reflexivity|]. split; [reflexivity|].
      intros A B. destruct (N.eqb_spec inp ro); [congruence|]. destruct (N.eqb_spec inp lo); [congruence|]. reflexivity.
Qed.

Lemma run_one_unlink_core E l c w cnt o w' cnt' :
  run E (one_unlink_core l) c w cnt = (o, w', cnt') ->
  match o with Done _ => w' = clr1 w l (beta w 1 l) /\ cnt' = cnt | _ => True end.
Proof.
  unfold one_unlink_core. cbn [run bind rdB wrB]. intros Hr.
  destruct (e_dom E (XBeta 1 l)); [|injection Hr as <- <- <-; exact I].
  fold (beta w 1 l) in Hr. destruct (beta w 1 l =? 0); cbn [run bind wrB] in Hr; [injection Hr as <- <- <-; exact I|].
  destruct (e_dom E (XBeta 0 (beta w 1 l))); injection Hr as <- <- <-; auto.
Qed.

Theorem one_unsew_vertex_data E n ks l c w cnt w' cnt' :
  dom_ok E n -> wf2 n w -> okd n w l -> beta w 2 l <> 0 -> beta w 1 l <> 0 ->
  run E (one_unsew n ks l) c w cnt = (Done tt, w', cnt') ->
  let r := beta w 1 l in let w1 := clr1 w l r in
  exists i0 il ir,
    is_vid n w r i0 /\ is_vid n w1 (beta w 2 l) il /\ is_vid n w1 r ir /\
    (forall d, d <> il -> d <> ir -> d <> i0 -> vertex w' d = vertex w d) /\
    (il <> ir -> exists lv rv, split_of (vertex w i0) = Some (lv, rv) /\ vertex w' il = Some lv /\ vertex w' ir = Some rv /\
                  (i0 <> il -> i0 <> ir -> vertex w' i0 = None)) /\
    (il = ir -> vertex w' il = vertex w i0 /\ (i0 <> il -> vertex w' i0 = None)).
Proof.
  intros Hdom W Ol Nb Nr Hr r w1. pose proof Ol as (Hl0 & Hln & Hlu).
  unfold one_unsew in Hr. rewrite run_rdB in Hr by (apply Hdom; [lia|exact Hln]).
  destruct (N.eqb_spec (beta w 2 l) 0) as [Z|_]; [contradiction|].
  rewrite run_rdB in Hr by (apply Hdom; [lia|exact Hln]). fold r in Hr.
  assert (Hb2n : beta w 2 l < n) by (apply W; [lia|exact Hln]).
  assert (Hrn : r < n) by (apply W; [lia|exact Hln]).
  destruct (orbit2_spec n w PVertex r W eq_refl Nr Hrn) as (L0 & E0 & _).
  destruct (vertex_id_min E n c w r cnt L0 Hdom W Nr Hrn E0) as (i0 & R0 & M0).
  rewrite run_bind, R0 in Hr. rewrite run_bind in Hr.
  destruct (run E (one_unlink_core l) c w cnt) as [[o1 w1'] cnt1] eqn:Hc.
  pose proof (triple_one_unlink_core E n l c w cnt _ _ _ (conj W Ol) Hc) as W1.
  apply run_one_unlink_core in Hc. destruct o1 as [[]|e| |q]; try discriminate Hr.
  destruct Hc as (-> & ->). fold r in Hr, W1. fold w1 in Hr, W1.
  destruct (orbit2_spec n w1 PVertex (beta w 2 l) W1 eq_refl Nb Hb2n) as (Ll & El & _).
  destruct (vertex_id_min E n c w1 (beta w 2 l) cnt Ll Hdom W1 Nb Hb2n El) as (il & Rl & Ml).
  rewrite run_bind, Rl in Hr.
  destruct (orbit2_spec n w1 PVertex r W1 eq_refl Nr Hrn) as (Lr & Er & _).
  destruct (vertex_id_min E n c w1 r cnt Lr Hdom W1 Nr Hrn Er) as (ir & Rr & Mr).
  rewrite run_bind, Rr in Hr. rewrite run_bind in Hr.
  destruct (run E (vertices_split il ir i0) c w1 cnt) as [[o2 w2] cnt2] eqn:Hs.
  destruct o2 as [[]|e| |q]; try discriminate Hr.
  apply run_vertices_split in Hs as (Hoth & Hne & Heq).
  assert (Hv : forall d, vertex w' d = vertex w2 d).
  { intros d. unfold vertex. f_equal. eapply writes_in_run; [apply wi_split_attributes_a|exact Hr|]. cbn. auto. }
  exists i0, il, ir. split; [exists L0; auto|]. split; [exists Ll; auto|]. split; [exists Lr; auto|].
  split; [|split].
  - intros d D1 D2 D3. rewrite Hv, (Hoth d D1 D2 D3). apply vertex_clr1.
  - intros Hd. destruct (Hne Hd) as (lv & rv & A & B & C & D). unfold w1 in *. rewrite !vertex_clr1 in *.
    exists lv, rv. rewrite !Hv. auto.
  - intros Hd. destruct (Heq Hd) as (A & B). unfold w1 in *. rewrite !vertex_clr1 in *. rewrite !Hv. auto.
Qed.

End SewData.
