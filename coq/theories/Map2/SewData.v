(** * C04, data clause for the 1-sew: when the 1-sew of [l] onto [r] merges two vertices (that is, when [l] is
    2-sewn), the new vertex -- identified by the smallest dart of its orbit in the linked map -- carries the merge
    of the two former values, the two former identifiers are emptied, and every other coordinate slot is
    untouched; if the two vertices already were one cell, its value is kept (moved if the identifier changes).

    The identifiers the program computes are the orbit minima ([Orbit2Proofs.vertex_id_min]); the rest is the
    execution of [vertices_merge], and the attribute merges that follow write no coordinate. *)
From Coq Require Import List NArith Bool Lia.
From HC Require Import Base.Closure Stm.Prog Stm.ProgFacts Stm.Atomic Map2.Ops2 Map2.State2 Map2.Wf2 Map2.Wf2Proofs
  Map2.Orbit2 Map2.Orbit2Proofs.
Import ListNotations.
Open Scope N_scope.
Arguments N.eqb : simpl never.

Section SewData.
Context `{Sig}.

Definition is_vid (n : N) (s : store) (d i : N) : Prop :=
  exists L, orbit2 n s PVertex d = Some L /\ minof i L.
Definition set1 (w : store) (l r : N) : store := upd (upd w (XBeta 1 l) (VN r)) (XBeta 0 r) (VN l).

(* the lawful merge of two coordinate slots *)
Definition merged (a b : option V) : option V :=
  match a, b with
  | Some v1, Some v2 => v_merge v1 v2
  | Some v, None | None, Some v => v_merge_inc v
  | None, None => v_merge_none
  end.

Definition Sattr (v : var) : Prop := match v with XAttr _ _ => True | _ => False end.
Lemma wi_attr_merge_a k o l r : writes_in Sattr (attr_merge k o l r).
Proof.
  unfold attr_merge. destruct (l =? r).
  - destruct (o =? l); cbn; auto.
  - cbn. intros a b inj. destruct (if inj then None else _); cbn; auto.
Qed.
Lemma wi_merge_attributes_a ks c o l r : writes_in Sattr (merge_attributes ks c o l r).
Proof.
  induction ks as [|[k c'] ks IH]; cbn; [exact I|]. apply writes_in_bind; [|auto].
  destruct (cellkind_eqb c c'); [apply wi_attr_merge_a | exact I].
Qed.

Lemma vertex_upd_v s e x d : vertex (upd s (XVertex e) (VV x)) d = if d =? e then x else vertex s d.
Proof. unfold vertex, upd. cbn. destruct (N.eqb_spec d e); reflexivity. Qed.
Lemma vertex_set1 w l r d : vertex (set1 w l r) d = vertex w d.
Proof. unfold set1, vertex. rewrite !upd_other by discriminate. reflexivity. Qed.

Lemma run_vertices_merge E out l r c w cnt w' cnt' :
  run E (vertices_merge out l r) c w cnt = (Done tt, w', cnt') ->
  (forall d, d <> l -> d <> r -> d <> out -> vertex w' d = vertex w d) /\
  (l <> r -> merged (vertex w l) (vertex w r) <> None /\ vertex w' out = merged (vertex w l) (vertex w r) /\
             (l <> out -> vertex w' l = None) /\ (r <> out -> vertex w' r = None)) /\
  (l = r -> vertex w' out = vertex w l /\ (l <> out -> vertex w' l = None)).
Proof.
  unfold vertices_merge. destruct (N.eqb_spec l r) as [->|Hlr].
  - destruct (N.eqb_spec out r) as [->|Hor]; cbn [run bind rdV wrV].
    + intros Hr. inversion Hr; subst. repeat split; auto; congruence.
    + destruct (e_dom E (XVertex r)); [|discriminate]. cbn [run]. destruct (e_dom E (XVertex out)); [|discriminate].
      cbn [run]. intros Hr. inversion Hr; subst. split; [|split; [congruence|]].
      * intros d D1 _ D3. rewrite !vertex_upd_v. destruct (N.eqb_spec d out); [contradiction|]. destruct (N.eqb_spec d r); [contradiction|]. reflexivity.
      * intros _. rewrite !vertex_upd_v, N.eqb_refl. split; [reflexivity|].
        intros Hne. destruct (N.eqb_spec r out); [congruence|]. rewrite N.eqb_refl. reflexivity.
  - cbn [run bind rdV wrV].
    destruct (e_dom E (XVertex l)) eqn:Dl; [|discriminate]. destruct (e_dom E (XVertex r)) eqn:Dr; [|discriminate].
    fold (vertex w l). fold (vertex w r).
    assert (Tail : forall v, merged (vertex w l) (vertex w r) = Some v ->
      run E (Wr (XVertex r) (VV None) (Wr (XVertex l) (VV None) (wrV out (Some v)))) c w cnt = (Done tt, w', cnt') ->
      (forall d : N, d <> l -> d <> r -> d <> out -> vertex w' d = vertex w d) /\
      (l <> r -> merged (vertex w l) (vertex w r) <> None /\ vertex w' out = merged (vertex w l) (vertex w r) /\
         (l <> out -> vertex w' l = None) /\ (r <> out -> vertex w' r = None)) /\
      (l = r -> vertex w' out = vertex w l /\ (l <> out -> vertex w' l = None))).
    { intros v Em. cbn [run bind wrV]. rewrite Dr, Dl. cbn [run]. destruct (e_dom E (XVertex out)); [|discriminate]. cbn [run].
      intros Hr. inversion Hr; subst. split; [|split; [|congruence]].
      + intros d D1 D2 D3. rewrite !vertex_upd_v.
        destruct (N.eqb_spec d out); [contradiction|]. destruct (N.eqb_spec d l); [contradiction|]. destruct (N.eqb_spec d r); [contradiction|]. reflexivity.
      + intros _. rewrite Em. split; [discriminate|]. rewrite !vertex_upd_v, N.eqb_refl. split; [reflexivity|]. split.
        * intros Hne. destruct (N.eqb_spec l out); [congruence|]. rewrite N.eqb_refl. reflexivity.
        * intros Hne. destruct (N.eqb_spec r out); [congruence|]. destruct (N.eqb_spec r l); [congruence|]. rewrite N.eqb_refl. reflexivity. }
    revert Tail. unfold merged. destruct (vertex w l) as [a|], (vertex w r) as [b|]; intros Tail.
    + destruct (v_merge a b) as [v|] eqn:Em; [apply (Tail v eq_refl)|discriminate].
    + destruct (v_merge_inc a) as [v|] eqn:Em; [apply (Tail v eq_refl)|discriminate].
    + destruct (v_merge_inc b) as [v|] eqn:Em; [apply (Tail v eq_refl)|discriminate].
    + destruct v_merge_none as [v|] eqn:Em; [apply (Tail v eq_refl)|discriminate].
Qed.

Lemma run_one_link_core E l r c w cnt o w' cnt' :
  run E (one_link_core l r) c w cnt = (o, w', cnt') ->
  match o with Done _ => w' = set1 w l r /\ cnt' = cnt | _ => True end.
Proof.
  unfold one_link_core. cbn [run bind rdB wrB]. intros Hr.
  destruct (e_dom E (XBeta 1 l)); [|injection Hr as <- <- <-; exact I].
  destruct (negb (asN (w (XBeta 1 l)) =? 0)); cbn [run] in Hr; [injection Hr as <- <- <-; exact I|].
  destruct (e_dom E (XBeta 0 r)); [|injection Hr as <- <- <-; exact I].
  destruct (negb (asN (w (XBeta 0 r)) =? 0)); cbn [run] in Hr; [injection Hr as <- <- <-; exact I|].
  cbn [run bind wrB] in Hr. destruct (e_dom E (XBeta 1 l)); [|injection Hr as <- <- <-; exact I].
  cbn [run] in Hr. destruct (e_dom E (XBeta 0 r)); injection Hr as <- <- <-; auto.
Qed.

Theorem one_sew_vertex_data E n ks l r c w cnt w' cnt' :
  dom_ok E n -> wf2 n w -> okd n w l -> okd n w r -> beta w 2 l <> 0 ->
  run E (one_sew n ks l r) c w cnt = (Done tt, w', cnt') ->
  exists i1 i2 i',
    is_vid n w (beta w 2 l) i1 /\ is_vid n w r i2 /\ is_vid n (set1 w l r) r i' /\
    (forall d, d <> i1 -> d <> i2 -> d <> i' -> vertex w' d = vertex w d) /\
    (i1 <> i2 -> merged (vertex w i1) (vertex w i2) <> None /\ vertex w' i' = merged (vertex w i1) (vertex w i2) /\
                 (i1 <> i' -> vertex w' i1 = None) /\ (i2 <> i' -> vertex w' i2 = None)) /\
    (i1 = i2 -> vertex w' i' = vertex w i1 /\ (i1 <> i' -> vertex w' i1 = None)).
Proof.
  intros Hdom W Ol Or Nb Hr. pose proof Ol as (Hl0 & Hln & Hlu). pose proof Or as (Hr0 & Hrn & Hru).
  unfold one_sew in Hr. rewrite run_rdB in Hr by (apply Hdom; [lia|exact Hln]).
  destruct (N.eqb_spec (beta w 2 l) 0) as [Z|_]; [contradiction|].
  assert (Hb2n : beta w 2 l < n) by (apply W; [lia|exact Hln]).
  destruct (orbit2_spec n w PVertex (beta w 2 l) W eq_refl Nb Hb2n) as (L1 & E1 & _).
  destruct (vertex_id_min E n c w (beta w 2 l) cnt L1 Hdom W Nb Hb2n E1) as (i1 & R1 & M1).
  rewrite run_bind, R1 in Hr.
  destruct (orbit2_spec n w PVertex r W eq_refl Hr0 Hrn) as (L2 & E2 & _).
  destruct (vertex_id_min E n c w r cnt L2 Hdom W Hr0 Hrn E2) as (i2 & R2 & M2).
  rewrite run_bind, R2 in Hr.
  rewrite run_bind in Hr.
  destruct (run E (one_link_core l r) c w cnt) as [[o1 w1] cnt1] eqn:Hc.
  pose proof (triple_one_link_core E n l r c w cnt _ _ _ (conj W (conj Ol Or)) Hc) as W1.
  apply run_one_link_core in Hc. destruct o1 as [[]|e| |q]; try discriminate Hr.
  destruct Hc as (-> & ->).
  destruct (orbit2_spec n (set1 w l r) PVertex r W1 eq_refl Hr0 Hrn) as (L' & E' & _).
  destruct (vertex_id_min E n c (set1 w l r) r cnt L' Hdom W1 Hr0 Hrn E') as (i' & R' & M').
  rewrite run_bind, R' in Hr.
  rewrite run_bind in Hr.
  destruct (run E (vertices_merge i' i1 i2) c (set1 w l r) cnt) as [[o2 w2] cnt2] eqn:Hm.
  destruct o2 as [[]|e| |q]; try discriminate Hr.
  apply run_vertices_merge in Hm as (Hoth & Hne & Heq).
  assert (Hv : forall d, vertex w' d = vertex w2 d).
  { intros d. unfold vertex. f_equal. eapply writes_in_run; [apply wi_merge_attributes_a|exact Hr|]. cbn. auto. }
  exists i1, i2, i'. split; [exists L1; auto|]. split; [exists L2; auto|]. split; [exists L'; auto|].
  split; [|split].
  - intros d D1 D2 D3. rewrite Hv, (Hoth d D1 D2 D3). apply vertex_set1.
  - intros Hd. destruct (Hne Hd) as (A & B & C & D). rewrite !vertex_set1 in *. rewrite !Hv. auto.
  - intros Hd. destruct (Heq Hd) as (A & B). rewrite !vertex_set1 in *. rewrite !Hv. auto.
Qed.

(** ** the 1-unsew splits *)
Definition clr1 (w : store) (l r : N) : store := upd (upd w (XBeta 1 l) (VN 0)) (XBeta 0 r) (VN 0).
Lemma vertex_clr1 w l r d : vertex (clr1 w l r) d = vertex w d.
Proof. unfold clr1, vertex. rewrite !upd_other by discriminate. reflexivity. Qed.

Definition split_of (a : option V) : option (V * V) :=
  match a with Some v => v_split v | None => v_split_none end.

Lemma wi_attr_split_a k lo ro i : writes_in Sattr (attr_split k lo ro i).
Proof.
  unfold attr_split. destruct (lo =? ro).
  - destruct (lo =? i); cbn; auto.
  - cbn. intros a inj. destruct (if inj then None else _) as [[? ?]|]; cbn; auto.
Qed.
Lemma wi_split_attributes_a ks c lo ro i : writes_in Sattr (split_attributes ks c lo ro i).
Proof.
  induction ks as [|[k c'] ks IH]; cbn; [exact I|]. apply writes_in_bind; [|auto].
  destruct (cellkind_eqb c c'); [apply wi_attr_split_a | exact I].
Qed.

Lemma run_vertices_split E lo ro inp c w cnt w' cnt' :
  run E (vertices_split lo ro inp) c w cnt = (Done tt, w', cnt') ->
  (forall d, d <> lo -> d <> ro -> d <> inp -> vertex w' d = vertex w d) /\
  (lo <> ro -> exists lv rv, split_of (vertex w inp) = Some (lv, rv) /\ vertex w' lo = Some lv /\ vertex w' ro = Some rv /\
                (inp <> lo -> inp <> ro -> vertex w' inp = None)) /\
  (lo = ro -> vertex w' lo = vertex w inp /\ (inp <> lo -> vertex w' inp = None)).
Proof.
  unfold vertices_split. destruct (N.eqb_spec lo ro) as [->|Hlr].
  - destruct (N.eqb_spec ro inp) as [->|Hor]; cbn [run bind rdV wrV].
    + intros Hr. inversion Hr; subst. repeat split; auto; congruence.
    + destruct (e_dom E (XVertex inp)); [|discriminate]. cbn [run]. destruct (e_dom E (XVertex ro)); [|discriminate].
      cbn [run]. intros Hr. inversion Hr; subst. split; [|split; [congruence|]].
      * intros d D1 _ D3. rewrite !vertex_upd_v. destruct (N.eqb_spec d ro); [contradiction|]. destruct (N.eqb_spec d inp); [contradiction|]. reflexivity.
      * intros _. rewrite !vertex_upd_v, N.eqb_refl. split; [reflexivity|].
        intros Hne. destruct (N.eqb_spec inp ro); [congruence|]. rewrite N.eqb_refl. reflexivity.
  - cbn [run bind rdV wrV].
    destruct (e_dom E (XVertex inp)) eqn:Di; [|discriminate]. fold (vertex w inp).
    change (match vertex w inp with Some v => v_split v | None => v_split_none end) with (split_of (vertex w inp)).
    destruct (split_of (vertex w inp)) as [[lv rv]|] eqn:Es; [|discriminate].
    cbn [run bind wrV]. rewrite Di. cbn [run]. destruct (e_dom E (XVertex lo)); [|discriminate]. cbn [run].
    destruct (e_dom E (XVertex ro)); [|discriminate]. cbn [run].
    intros Hr. inversion Hr; subst. split; [|split; [|congruence]].
    + intros d D1 D2 D3. rewrite !vertex_upd_v.
      destruct (N.eqb_spec d ro); [contradiction|]. destruct (N.eqb_spec d lo); [contradiction|]. destruct (N.eqb_spec d inp); [contradiction|]. reflexivity.
    + intros _. exists lv, rv. split; [reflexivity|]. rewrite !vertex_upd_v, !N.eqb_refl.
      destruct (N.eqb_spec lo ro); [congruence|]. split; [reflexivity|]. split; [reflexivity|].
      intros A B. destruct (N.eqb_spec inp ro); [congruence|]. destruct (N.eqb_spec inp lo); [congruence|]. reflexivity.
Qed.

Lemma run_one_unlink_core E l c w cnt o w' cnt' :
  run E (one_unlink_core l) c w cnt = (o, w', cnt') ->
  match o with Done _ => w' = clr1 w l (beta w 1 l) /\ cnt' = cnt | _ => True end.
Proof.
  unfold one_unlink_core. cbn [run bind rdB wrB]. intros Hr.
  destruct (e_dom E (XBeta 1 l)); [|injection Hr as <- <- <-; exact I].
  fold (beta w 1 l) in Hr. destruct (beta w 1 l =? 0); cbn [run bind wrB] in Hr; [injection Hr as <- <- <-; exact I|].
  destruct (e_dom E (XBeta 0 (beta w 1 l))); injection Hr as <- <- <-; auto.
Qed.

Theorem one_unsew_vertex_data E n ks l c w cnt w' cnt' :
  dom_ok E n -> wf2 n w -> okd n w l -> beta w 2 l <> 0 -> beta w 1 l <> 0 ->
  run E (one_unsew n ks l) c w cnt = (Done tt, w', cnt') ->
  let r := beta w 1 l in let w1 := clr1 w l r in
  exists i0 il ir,
    is_vid n w r i0 /\ is_vid n w1 (beta w 2 l) il /\ is_vid n w1 r ir /\
    (forall d, d <> il -> d <> ir -> d <> i0 -> vertex w' d = vertex w d) /\
    (il <> ir -> exists lv rv, split_of (vertex w i0) = Some (lv, rv) /\ vertex w' il = Some lv /\ vertex w' ir = Some rv /\
                  (i0 <> il -> i0 <> ir -> vertex w' i0 = None)) /\
    (il = ir -> vertex w' il = vertex w i0 /\ (i0 <> il -> vertex w' i0 = None)).
Proof.
  intros Hdom W Ol Nb Nr Hr r w1. pose proof Ol as (Hl0 & Hln & Hlu).
  unfold one_unsew in Hr. rewrite run_rdB in Hr by (apply Hdom; [lia|exact Hln]).
  destruct (N.eqb_spec (beta w 2 l) 0) as [Z|_]; [contradiction|].
  rewrite run_rdB in Hr by (apply Hdom; [lia|exact Hln]). fold r in Hr.
  assert (Hb2n : beta w 2 l < n) by (apply W; [lia|exact Hln]).
  assert (Hrn : r < n) by (apply W; [lia|exact Hln]).
  destruct (orbit2_spec n w PVertex r W eq_refl Nr Hrn) as (L0 & E0 & _).
  destruct (vertex_id_min E n c w r cnt L0 Hdom W Nr Hrn E0) as (i0 & R0 & M0).
  rewrite run_bind, R0 in Hr. rewrite run_bind in Hr.
  destruct (run E (one_unlink_core l) c w cnt) as [[o1 w1'] cnt1] eqn:Hc.
  pose proof (triple_one_unlink_core E n l c w cnt _ _ _ (conj W Ol) Hc) as W1.
  apply run_one_unlink_core in Hc. destruct o1 as [[]|e| |q]; try discriminate Hr.
  destruct Hc as (-> & ->). fold r in Hr, W1. fold w1 in Hr, W1.
  destruct (orbit2_spec n w1 PVertex (beta w 2 l) W1 eq_refl Nb Hb2n) as (Ll & El & _).
  destruct (vertex_id_min E n c w1 (beta w 2 l) cnt Ll Hdom W1 Nb Hb2n El) as (il & Rl & Ml).
  rewrite run_bind, Rl in Hr.
  destruct (orbit2_spec n w1 PVertex r W1 eq_refl Nr Hrn) as (Lr & Er & _).
  destruct (vertex_id_min E n c w1 r cnt Lr Hdom W1 Nr Hrn Er) as (ir & Rr & Mr).
  rewrite run_bind, Rr in Hr. rewrite run_bind in Hr.
  destruct (run E (vertices_split il ir i0) c w1 cnt) as [[o2 w2] cnt2] eqn:Hs.
  destruct o2 as [[]|e| |q]; try discriminate Hr.
  apply run_vertices_split in Hs as (Hoth & Hne & Heq).
  assert (Hv : forall d, vertex w' d = vertex w2 d).
  { intros d. unfold vertex. f_equal. eapply writes_in_run; [apply wi_split_attributes_a|exact Hr|]. cbn. auto. }
  exists i0, il, ir. split; [exists L0; auto|]. split; [exists Ll; auto|]. split; [exists Lr; auto|].
  split; [|split].
  - intros d D1 D2 D3. rewrite Hv, (Hoth d D1 D2 D3). apply vertex_clr1.
  - intros Hd. destruct (Hne Hd) as (lv & rv & A & B & C & D). unfold w1 in *. rewrite !vertex_clr1 in *.
    exists lv, rv. rewrite !Hv. auto.
  - intros Hd. destruct (Heq Hd) as (A & B). unfold w1 in *. rewrite !vertex_clr1 in *. rewrite !Hv. auto.
Qed.

(** ** the 2-sew merges the vertices at the two ends of the edge *)
Definition set2 (w : store) (l r : N) : store := upd (upd w (XBeta 2 l) (VN r)) (XBeta 2 r) (VN l).
Lemma vertex_set2 w l r d : vertex (set2 w l r) d = vertex w d.
Proof. reflexivity. Qed.

Lemma run_two_link_core E l r c w cnt o w' cnt' :
  run E (two_link_core l r) c w cnt = (o, w', cnt') ->
  match o with Done _ => w' = set2 w l r /\ cnt' = cnt | _ => True end.
Proof.
  unfold two_link_core. cbn [run bind rdB wrB]. intros Hr.
  destruct (e_dom E (XBeta 2 l)); [|injection Hr as <- <- <-; exact I].
  destruct (negb (asN (w (XBeta 2 l)) =? 0)); cbn [run] in Hr; [injection Hr as <- <- <-; exact I|].
  destruct (e_dom E (XBeta 2 r)); [|injection Hr as <- <- <-; exact I].
  destruct (negb (asN (w (XBeta 2 r)) =? 0)); cbn [run] in Hr; [injection Hr as <- <- <-; exact I|].
  cbn [run bind wrB] in Hr. destruct (e_dom E (XBeta 2 l)); [|injection Hr as <- <- <-; exact I].
  cbn [run] in Hr. destruct (e_dom E (XBeta 2 r)); injection Hr as <- <- <-; auto.
Qed.

(* what one merge does to the coordinate slots, as a relation between two stores *)
Definition merge_effect (w w' : store) (i1 i2 i' : N) : Prop :=
  (forall d, d <> i1 -> d <> i2 -> d <> i' -> vertex w' d = vertex w d) /\
  (i1 <> i2 -> merged (vertex w i1) (vertex w i2) <> None /\ vertex w' i' = merged (vertex w i1) (vertex w i2) /\
               (i1 <> i' -> vertex w' i1 = None) /\ (i2 <> i' -> vertex w' i2 = None)) /\
  (i1 = i2 -> vertex w' i' = vertex w i1 /\ (i1 <> i' -> vertex w' i1 = None)).

Lemma attrs_keep_vertices E (p : prog unit) c w cnt w' cnt' :
  writes_in Sattr p -> run E p c w cnt = (Done tt, w', cnt') -> forall d, vertex w' d = vertex w d.
Proof. intros Hw Hr d. unfold vertex. f_equal. eapply writes_in_run; [exact Hw|exact Hr|]. cbn. auto. Qed.

(* one end only: the left dart is 1-free, the right one is not (the vertex of [l] meets the one at the end of [r]) *)
Theorem two_sew_vertex_data_left E n ks l r c w cnt w' cnt' :
  dom_ok E n -> wf2 n w -> okd n w l -> okd n w r -> l <> r -> beta w 1 l = 0 -> beta w 1 r <> 0 ->
  run E (two_sew n ks l r) c w cnt = (Done tt, w', cnt') ->
  exists i1 i2 i',
    is_vid n w l i1 /\ is_vid n w (beta w 1 r) i2 /\ is_vid n (set2 w l r) l i' /\ merge_effect w w' i1 i2 i'.
Proof.
  intros Hdom W Ol Or Hlr Zl Nr Hr. pose proof Ol as (Hl0 & Hln & Hlu). pose proof Or as (Hr0 & Hrn & Hru).
  unfold two_sew in Hr. rewrite !run_rdB in Hr by (apply Hdom; [lia|assumption]).
  rewrite Zl in Hr. change (0 =? 0) with true in Hr.
  destruct (N.eqb_spec (beta w 1 r) 0) as [Z|_]; [contradiction|].
  assert (Hbn : beta w 1 r < n) by (apply W; [lia|exact Hrn]).
  destruct (orbit2_spec n w PVertex l W eq_refl Hl0 Hln) as (L1 & E1 & _).
  destruct (vertex_id_min E n c w l cnt L1 Hdom W Hl0 Hln E1) as (i1 & R1 & M1).
  rewrite run_bind, R1 in Hr.
  destruct (orbit2_spec n w PVertex (beta w 1 r) W eq_refl Nr Hbn) as (L2 & E2 & _).
  destruct (vertex_id_min E n c w (beta w 1 r) cnt L2 Hdom W Nr Hbn E2) as (i2 & R2 & M2).
  rewrite run_bind, R2 in Hr. rewrite run_bind in Hr.
  destruct (run E (two_link_core l r) c w cnt) as [[o1 w1] cnt1] eqn:Hc.
  pose proof (triple_two_link_core E n l r c w cnt _ _ _ (conj W (conj Ol (conj Or Hlr))) Hc) as W1.
  apply run_two_link_core in Hc. destruct o1 as [[]|e| |q]; try discriminate Hr.
  destruct Hc as (-> & ->).
  destruct (orbit2_spec n (set2 w l r) PVertex l W1 eq_refl Hl0 Hln) as (L' & E' & _).
  destruct (vertex_id_min E n c (set2 w l r) l cnt L' Hdom W1 Hl0 Hln E') as (i' & R' & M').
  rewrite run_bind, R' in Hr.
  destruct (orbit2_spec n (set2 w l r) PEdge l W1 eq_refl Hl0 Hln) as (Le & Ee & _).
  destruct (edge_id_min E n c (set2 w l r) l cnt Le Hdom W1 Hl0 Hln Ee) as (ie & Re & _).
  rewrite run_bind, Re in Hr. rewrite run_bind in Hr.
  destruct (run E (vertices_merge i' i1 i2) c (set2 w l r) cnt) as [[o2 w2] cnt2] eqn:Hm.
  destruct o2 as [[]|e| |q]; try discriminate Hr.
  apply run_vertices_merge in Hm as (Hoth & Hne & Heq).
  assert (Hv : forall d, vertex w' d = vertex w2 d).
  { eapply (attrs_keep_vertices E); [|exact Hr]. apply writes_in_bind; [apply wi_merge_attributes_a|intros ?; apply wi_merge_attributes_a]. }
  exists i1, i2, i'. split; [exists L1; auto|]. split; [exists L2; auto|]. split; [exists L'; auto|].
  split; [|split].
  - intros d D1 D2 D3. rewrite Hv, (Hoth d D1 D2 D3). apply vertex_set2.
  - intros Hd. destruct (Hne Hd) as (A & B & C & D). rewrite !vertex_set2 in *. rewrite !Hv. auto.
  - intros Hd. destruct (Heq Hd) as (A & B). rewrite !vertex_set2 in *. rewrite !Hv. auto.
Qed.

(* the mirror case: the right dart is 1-free, the left one is not *)
Theorem two_sew_vertex_data_right E n ks l r c w cnt w' cnt' :
  dom_ok E n -> wf2 n w -> okd n w l -> okd n w r -> l <> r -> beta w 1 l <> 0 -> beta w 1 r = 0 ->
  run E (two_sew n ks l r) c w cnt = (Done tt, w', cnt') ->
  exists i1 i2 i',
    is_vid n w (beta w 1 l) i1 /\ is_vid n w r i2 /\ is_vid n (set2 w l r) r i' /\ merge_effect w w' i1 i2 i'.
Proof.
  intros Hdom W Ol Or Hlr Nl Zr Hr. pose proof Ol as (Hl0 & Hln & Hlu). pose proof Or as (Hr0 & Hrn & Hru).
  unfold two_sew in Hr. rewrite !run_rdB in Hr by (apply Hdom; [lia|assumption]).
  rewrite Zr in Hr. change (0 =? 0) with true in Hr.
  destruct (N.eqb_spec (beta w 1 l) 0) as [Z|_]; [contradiction|].
  assert (Hbn : beta w 1 l < n) by (apply W; [lia|exact Hln]).
  destruct (orbit2_spec n w PVertex (beta w 1 l) W eq_refl Nl Hbn) as (L1 & E1 & _).
  destruct (vertex_id_min E n c w (beta w 1 l) cnt L1 Hdom W Nl Hbn E1) as (i1 & R1 & M1).
  rewrite run_bind, R1 in Hr.
  destruct (orbit2_spec n w PVertex r W eq_refl Hr0 Hrn) as (L2 & E2 & _).
  destruct (vertex_id_min E n c w r cnt L2 Hdom W Hr0 Hrn E2) as (i2 & R2 & M2).
  rewrite run_bind, R2 in Hr. rewrite run_bind in Hr.
  destruct (run E (two_link_core l r) c w cnt) as [[o1 w1] cnt1] eqn:Hc.
  pose proof (triple_two_link_core E n l r c w cnt _ _ _ (conj W (conj Ol (conj Or Hlr))) Hc) as W1.
  apply run_two_link_core in Hc. destruct o1 as [[]|e| |q]; try discriminate Hr.
  destruct Hc as (-> & ->).
  destruct (orbit2_spec n (set2 w l r) PVertex r W1 eq_refl Hr0 Hrn) as (L' & E' & _).
  destruct (vertex_id_min E n c (set2 w l r) r cnt L' Hdom W1 Hr0 Hrn E') as (i' & R' & M').
  rewrite run_bind, R' in Hr.
  destruct (orbit2_spec n (set2 w l r) PEdge l W1 eq_refl Hl0 Hln) as (Le & Ee & _).
  destruct (edge_id_min E n c (set2 w l r) l cnt Le Hdom W1 Hl0 Hln Ee) as (ie & Re & _).
  rewrite run_bind, Re in Hr. rewrite run_bind in Hr.
  destruct (run E (vertices_merge i' i1 i2) c (set2 w l r) cnt) as [[o2 w2] cnt2] eqn:Hm.
  destruct o2 as [[]|e| |q]; try discriminate Hr.
  apply run_vertices_merge in Hm as (Hoth & Hne & Heq).
  assert (Hv : forall d, vertex w' d = vertex w2 d).
  { eapply (attrs_keep_vertices E); [|exact Hr]. apply writes_in_bind; [apply wi_merge_attributes_a|intros ?; apply wi_merge_attributes_a]. }
  exists i1, i2, i'. split; [exists L1; auto|]. split; [exists L2; auto|]. split; [exists L'; auto|].
  split; [|split].
  - intros d D1 D2 D3. rewrite Hv, (Hoth d D1 D2 D3). apply vertex_set2.
  - intros Hd. destruct (Hne Hd) as (A & B & C & D). rewrite !vertex_set2 in *. rewrite !Hv. auto.
  - intros Hd. destruct (Heq Hd) as (A & B). rewrite !vertex_set2 in *. rewrite !Hv. auto.
Qed.

Lemma run_rdV_plain E d c w cnt o w' cnt' :
  run E (rdV d) c w cnt = (o, w', cnt') -> w' = w /\ cnt' = cnt.
Proof. cbn [run rdV]. destruct (e_dom E (XVertex d)); cbn [run]; intros Hr; injection Hr as <- <- <-; auto. Qed.

(* both ends: the two merges happen one after the other; the final coordinates are those of the second lawful merge
   applied to the result of the first *)
Theorem two_sew_vertex_data_both E n ks l r c w cnt w' cnt' :
  dom_ok E n -> wf2 n w -> okd n w l -> okd n w r -> l <> r -> beta w 1 l <> 0 -> beta w 1 r <> 0 ->
  run E (two_sew n ks l r) c w cnt = (Done tt, w', cnt') ->
  exists i1 i2 i3 i4 iL iR,
    is_vid n w l i1 /\ is_vid n w (beta w 1 r) i2 /\ is_vid n w (beta w 1 l) i3 /\ is_vid n w r i4 /\
    is_vid n (set2 w l r) l iL /\ is_vid n (set2 w l r) r iR /\
    exists wm, merge_effect w wm i1 i2 iL /\ merge_effect wm w' i3 i4 iR.
Proof.
  intros Hdom W Ol Or Hlr Nl Nr Hr. pose proof Ol as (Hl0 & Hln & Hlu). pose proof Or as (Hr0 & Hrn & Hru).
  unfold two_sew in Hr. rewrite !run_rdB in Hr by (apply Hdom; [lia|assumption]).
  destruct (N.eqb_spec (beta w 1 l) 0) as [Z|_]; [contradiction|].
  destruct (N.eqb_spec (beta w 1 r) 0) as [Z|_]; [contradiction|].
  assert (Hbln : beta w 1 l < n) by (apply W; [lia|exact Hln]).
  assert (Hbrn : beta w 1 r < n) by (apply W; [lia|exact Hrn]).
  destruct (orbit2_spec n w PVertex l W eq_refl Hl0 Hln) as (L1 & E1 & _).
  destruct (vertex_id_min E n c w l cnt L1 Hdom W Hl0 Hln E1) as (i1 & R1 & M1).
  rewrite run_bind, R1 in Hr.
  destruct (orbit2_spec n w PVertex (beta w 1 r) W eq_refl Nr Hbrn) as (L2 & E2 & _).
  destruct (vertex_id_min E n c w (beta w 1 r) cnt L2 Hdom W Nr Hbrn E2) as (i2 & R2 & M2).
  rewrite run_bind, R2 in Hr.
  destruct (orbit2_spec n w PVertex (beta w 1 l) W eq_refl Nl Hbln) as (L3 & E3 & _).
  destruct (vertex_id_min E n c w (beta w 1 l) cnt L3 Hdom W Nl Hbln E3) as (i3 & R3 & M3).
  rewrite run_bind, R3 in Hr.
  destruct (orbit2_spec n w PVertex r W eq_refl Hr0 Hrn) as (L4 & E4 & _).
  destruct (vertex_id_min E n c w r cnt L4 Hdom W Hr0 Hrn E4) as (i4 & R4 & M4).
  rewrite run_bind, R4 in Hr.
  (* the four coordinate reads and the orientation test change nothing *)
  rewrite run_bind in Hr. destruct (run E (rdV i1) c w cnt) as [[oa sa] ka] eqn:Ea.
  apply run_rdV_plain in Ea as (-> & ->). destruct oa as [lv|e| |q]; try discriminate Hr.
  rewrite run_bind in Hr. destruct (run E (rdV i2) c w cnt) as [[ob sb] kb] eqn:Eb.
  apply run_rdV_plain in Eb as (-> & ->). destruct ob as [b1rv|e| |q]; try discriminate Hr.
  rewrite run_bind in Hr. destruct (run E (rdV i3) c w cnt) as [[oc sc] kc] eqn:Ec.
  apply run_rdV_plain in Ec as (-> & ->). destruct oc as [b1lv|e| |q]; try discriminate Hr.
  rewrite run_bind in Hr. destruct (run E (rdV i4) c w cnt) as [[od sd] kd] eqn:Ed.
  apply run_rdV_plain in Ed as (-> & ->). destruct od as [rv|e| |q]; try discriminate Hr.
  rewrite run_bind in Hr.
  match type of Hr with context [run E ?p c w cnt] =>
    assert (Ho : run E p c w cnt = (Done tt, w, cnt) \/ exists e, run E p c w cnt = (Failed e, w, cnt)) end.
  { destruct lv as [a|], b1rv as [b|], b1lv as [c0|], rv as [d0|]; try (left; reflexivity).
    destruct (bad_orient a b c0 d0); [right; eexists; reflexivity|left; reflexivity]. }
  destruct Ho as [Ho|[e Ho]]; rewrite Ho in Hr; [|discriminate Hr].
  rewrite run_bind in Hr.
  destruct (run E (two_link_core l r) c w cnt) as [[o1 w1] cnt1] eqn:Hc.
  pose proof (triple_two_link_core E n l r c w cnt _ _ _ (conj W (conj Ol (conj Or Hlr))) Hc) as W1.
  apply run_two_link_core in Hc. destruct o1 as [[]|e| |q]; try discriminate Hr.
  destruct Hc as (-> & ->).
  destruct (orbit2_spec n (set2 w l r) PVertex l W1 eq_refl Hl0 Hln) as (LL & EL & _).
  destruct (vertex_id_min E n c (set2 w l r) l cnt LL Hdom W1 Hl0 Hln EL) as (iL & RL & ML).
  rewrite run_bind, RL in Hr.
  destruct (orbit2_spec n (set2 w l r) PVertex r W1 eq_refl Hr0 Hrn) as (LR & ER & _).
  destruct (vertex_id_min E n c (set2 w l r) r cnt LR Hdom W1 Hr0 Hrn ER) as (iR & RR & MR).
  rewrite run_bind, RR in Hr.
  destruct (orbit2_spec n (set2 w l r) PEdge l W1 eq_refl Hl0 Hln) as (Le & Ee & _).
  destruct (edge_id_min E n c (set2 w l r) l cnt Le Hdom W1 Hl0 Hln Ee) as (ie & Re & _).
  rewrite run_bind, Re in Hr. rewrite run_bind in Hr.
  destruct (run E (vertices_merge iL i1 i2) c (set2 w l r) cnt) as [[o2 w2] cnt2] eqn:Hm1.
  destruct o2 as [[]|e| |q]; try discriminate Hr.
  apply run_vertices_merge in Hm1 as (Hoth1 & Hne1 & Heq1).
  rewrite run_bind in Hr.
  destruct (run E (vertices_merge iR i3 i4) c w2 cnt2) as [[o3 w3] cnt3] eqn:Hm2.
  destruct o3 as [[]|e| |q]; try discriminate Hr.
  apply run_vertices_merge in Hm2 as (Hoth2 & Hne2 & Heq2).
  assert (Hv : forall d, vertex w' d = vertex w3 d).
  { eapply (attrs_keep_vertices E); [|exact Hr].
    apply writes_in_bind; [apply wi_merge_attributes_a|intros ?].
    apply writes_in_bind; [apply wi_merge_attributes_a|intros ?; apply wi_merge_attributes_a]. }
  exists i1, i2, i3, i4, iL, iR.
  split; [exists L1; auto|]. split; [exists L2; auto|]. split; [exists L3; auto|]. split; [exists L4; auto|].
  split; [exists LL; auto|]. split; [exists LR; auto|].
  exists w2. split.
  - split; [|split].
    + intros d D1 D2 D3. rewrite (Hoth1 d D1 D2 D3). apply vertex_set2.
    + intros Hd. destruct (Hne1 Hd) as (A & B & C & D). rewrite !vertex_set2 in *. auto.
    + intros Hd. destruct (Heq1 Hd) as (A & B). rewrite !vertex_set2 in *. auto.
  - split; [|split].
    + intros d D1 D2 D3. rewrite Hv. apply Hoth2; assumption.
    + intros Hd. destruct (Hne2 Hd) as (A & B & C & D). rewrite !Hv. auto.
    + intros Hd. destruct (Heq2 Hd) as (A & B). rewrite !Hv. auto.
Qed.

(** ** the 2-unsew splits the vertices at the two ends of the edge *)
Lemma bfs_ext (s1 s2 : N -> list N) : (forall x, s1 x = s2 x) ->
  forall fuel q m out, bfs s1 fuel q m out = bfs s2 fuel q m out.
Proof.
  intros He fuel. induction fuel as [|f IH]; intros q m out; cbn [bfs]; [reflexivity|].
  destruct q as [|d q']; [reflexivity|]. rewrite He. destruct (fold_left check (s2 d) (q', m)) as [q2 m2]. apply IH.
Qed.
Lemma orbit2_topo n w w' p d : topo_eq w w' -> orbit2 n w' p d = orbit2 n w p d.
Proof.
  intros [Hb _]. unfold orbit2. destruct (policy_ok p && (d <? n)); [|reflexivity]. unfold orbit. apply bfs_ext.
  intros x. unfold succ2. destruct p; rewrite ?Hb; try reflexivity. apply map_ext. intros i. apply Hb.
Qed.
Lemma is_vid_topo n w w' d i : topo_eq w w' -> is_vid n w' d i -> is_vid n w d i.
Proof. intros Ht (L & EL & ML). exists L. rewrite <- (orbit2_topo n w w' PVertex d Ht). auto. Qed.

Definition clr2 (w : store) (l r : N) : store := upd (upd w (XBeta 2 l) (VN 0)) (XBeta 2 r) (VN 0).
Lemma vertex_clr2 w l r d : vertex (clr2 w l r) d = vertex w d.
Proof. reflexivity. Qed.
Lemma run_two_unlink_core E l c w cnt o w' cnt' :
  run E (two_unlink_core l) c w cnt = (o, w', cnt') ->
  match o with Done _ => w' = clr2 w l (beta w 2 l) /\ cnt' = cnt | _ => True end.
Proof.
  unfold two_unlink_core. cbn [run bind rdB wrB]. intros Hr.
  destruct (e_dom E (XBeta 2 l)); [|injection Hr as <- <- <-; exact I].
  fold (beta w 2 l) in Hr. destruct (beta w 2 l =? 0); cbn [run bind wrB] in Hr; [injection Hr as <- <- <-; exact I|].
  destruct (e_dom E (XBeta 2 (beta w 2 l))); injection Hr as <- <- <-; auto.
Qed.

Definition split_effect (w w' : store) (i0 il ir : N) : Prop :=
  (forall d, d <> il -> d <> ir -> d <> i0 -> vertex w' d = vertex w d) /\
  (il <> ir -> exists lv rv, split_of (vertex w i0) = Some (lv, rv) /\ vertex w' il = Some lv /\ vertex w' ir = Some rv /\
                (i0 <> il -> i0 <> ir -> vertex w' i0 = None)) /\
  (il = ir -> vertex w' il = vertex w i0 /\ (i0 <> il -> vertex w' i0 = None)).

(* an attribute-only step: same coordinates, same topology *)
Lemma attrs_step E (p : prog unit) c w cnt w' cnt' :
  writes_in Sattr p -> run E p c w cnt = (Done tt, w', cnt') ->
  (forall d, vertex w' d = vertex w d) /\ topo_eq w w'.
Proof.
  intros Hw Hr. split.
  - intros d. unfold vertex. f_equal. eapply writes_in_run; [exact Hw|exact Hr|]. cbn. auto.
  - apply Sdata_topo. intros v Hv. eapply writes_in_run; [exact Hw|exact Hr|]. destruct v; cbn in *; auto.
Qed.

(* one end: [l] is 1-free, its opposite dart is not -- the vertex at the origin of [l] is split *)
Theorem two_unsew_vertex_data_left E n ks l c w cnt w' cnt' :
  dom_ok E n -> wf2 n w -> okd n w l -> beta w 2 l <> 0 -> beta w 1 l = 0 -> beta w 1 (beta w 2 l) <> 0 ->
  run E (two_unsew n ks l) c w cnt = (Done tt, w', cnt') ->
  let r := beta w 2 l in let w1 := clr2 w l r in
  exists i0 il ir,
    is_vid n w l i0 /\ is_vid n w1 l il /\ is_vid n w1 (beta w 1 r) ir /\ split_effect w w' i0 il ir.
Proof.
  intros Hdom W Ol N2 Zl Nr Hr r w1. pose proof Ol as (Hl0 & Hln & Hlu).
  assert (Hrn : r < n) by (apply W; [lia|exact Hln]).
  assert (Hbn : beta w 1 r < n) by (apply W; [lia|exact Hrn]).
  unfold two_unsew in Hr. rewrite run_rdB in Hr by (apply Hdom; [lia|exact Hln]). fold r in Hr.
  rewrite run_rdB in Hr by (apply Hdom; [lia|exact Hln]). rewrite run_rdB in Hr by (apply Hdom; [lia|exact Hrn]).
  rewrite Zl in Hr. change (0 =? 0) with true in Hr.
  destruct (N.eqb_spec (beta w 1 r) 0) as [Z|_]; [contradiction|].
  destruct (orbit2_spec n w PEdge l W eq_refl Hl0 Hln) as (Le & Ee & _).
  destruct (edge_id_min E n c w l cnt Le Hdom W Hl0 Hln Ee) as (ie & Re & _).
  rewrite run_bind, Re in Hr.
  destruct (orbit2_spec n w PVertex l W eq_refl Hl0 Hln) as (L0 & E0 & _).
  destruct (vertex_id_min E n c w l cnt L0 Hdom W Hl0 Hln E0) as (i0 & R0 & M0).
  rewrite run_bind, R0 in Hr. rewrite run_bind in Hr.
  destruct (run E (two_unlink_core l) c w cnt) as [[o1 w1'] cnt1] eqn:Hc.
  pose proof (triple_two_unlink_core E n l c w cnt _ _ _ (conj W Ol) Hc) as W1.
  apply run_two_unlink_core in Hc. destruct o1 as [[]|e| |q]; try discriminate Hr.
  destruct Hc as (-> & ->). fold r in Hr, W1. fold w1 in Hr, W1.
  rewrite run_bind in Hr.
  destruct (run E (split_attributes ks KEdge l r ie) c w1 cnt) as [[oa wa] cnta] eqn:Ha.
  destruct oa as [[]|e| |q]; try discriminate Hr.
  destruct (attrs_step E _ _ _ _ _ _ (wi_split_attributes_a ks KEdge l r ie) Ha) as (Hva & Hta).
  pose proof (wf2_ext n w1 wa W1 Hta) as Wa.
  destruct (orbit2_spec n wa PVertex l Wa eq_refl Hl0 Hln) as (Ll & El & _).
  destruct (vertex_id_min E n c wa l cnta Ll Hdom Wa Hl0 Hln El) as (il & Rl & Ml).
  rewrite run_bind, Rl in Hr.
  destruct (orbit2_spec n wa PVertex (beta w 1 r) Wa eq_refl Nr Hbn) as (Lr & Er & _).
  destruct (vertex_id_min E n c wa (beta w 1 r) cnta Lr Hdom Wa Nr Hbn Er) as (ir & Rr & Mr).
  rewrite run_bind, Rr in Hr. rewrite run_bind in Hr.
  destruct (run E (vertices_split il ir i0) c wa cnta) as [[o2 w2] cnt2] eqn:Hs.
  destruct o2 as [[]|e| |q]; try discriminate Hr.
  apply run_vertices_split in Hs as (Hoth & Hne & Heq).
  destruct (attrs_step E _ _ _ _ _ _ (wi_split_attributes_a ks KVertex il ir i0) Hr) as (Hv & _).
  assert (Hw : forall d, vertex wa d = vertex w d) by (intros d; rewrite Hva; apply vertex_clr2).
  exists i0, il, ir. split; [exists L0; auto|].
  split; [apply (is_vid_topo n w1 wa l il Hta); exists Ll; auto|].
  split; [apply (is_vid_topo n w1 wa _ ir Hta); exists Lr; auto|].
  split; [|split].
  - intros d D1 D2 D3. rewrite Hv, (Hoth d D1 D2 D3). apply Hw.
  - intros Hd. destruct (Hne Hd) as (lv & rv & A & B & C & D). rewrite Hw in A. exists lv, rv. rewrite !Hv. auto.
  - intros Hd. destruct (Heq Hd) as (A & B). rewrite Hw in A. rewrite !Hv. auto.
Qed.

(* the mirror case: the opposite dart is 1-free, [l] is not -- the vertex at the origin of the opposite dart is split *)
Theorem two_unsew_vertex_data_right E n ks l c w cnt w' cnt' :
  dom_ok E n -> wf2 n w -> okd n w l -> beta w 2 l <> 0 -> beta w 1 l <> 0 -> beta w 1 (beta w 2 l) = 0 ->
  run E (two_unsew n ks l) c w cnt = (Done tt, w', cnt') ->
  let r := beta w 2 l in let w1 := clr2 w l r in
  exists i0 il ir,
    is_vid n w r i0 /\ is_vid n w1 (beta w 1 l) il /\ is_vid n w1 r ir /\ split_effect w w' i0 il ir.
Proof.
  intros Hdom W Ol N2 Nl Zr Hr r w1. pose proof Ol as (Hl0 & Hln & Hlu).
  assert (Hrn : r < n) by (apply W; [lia|exact Hln]).
  assert (Hbn : beta w 1 l < n) by (apply W; [lia|exact Hln]).
  unfold two_unsew in Hr. rewrite run_rdB in Hr by (apply Hdom; [lia|exact Hln]). fold r in Hr.
  rewrite run_rdB in Hr by (apply Hdom; [lia|exact Hln]). rewrite run_rdB in Hr by (apply Hdom; [lia|exact Hrn]).
  change (beta w 1 r = 0) in Zr. rewrite Zr in Hr. change (0 =? 0) with true in Hr.
  destruct (N.eqb_spec (beta w 1 l) 0) as [Z|_]; [contradiction|].
  destruct (orbit2_spec n w PEdge l W eq_refl Hl0 Hln) as (Le & Ee & _).
  destruct (edge_id_min E n c w l cnt Le Hdom W Hl0 Hln Ee) as (ie & Re & _).
  rewrite run_bind, Re in Hr.
  destruct (orbit2_spec n w PVertex r W eq_refl N2 Hrn) as (L0 & E0 & _).
  destruct (vertex_id_min E n c w r cnt L0 Hdom W N2 Hrn E0) as (i0 & R0 & M0).
  rewrite run_bind, R0 in Hr. rewrite run_bind in Hr.
  destruct (run E (two_unlink_core l) c w cnt) as [[o1 w1'] cnt1] eqn:Hc.
  pose proof (triple_two_unlink_core E n l c w cnt _ _ _ (conj W Ol) Hc) as W1.
  apply run_two_unlink_core in Hc. destruct o1 as [[]|e| |q]; try discriminate Hr.
  destruct Hc as (-> & ->). fold r in Hr, W1. fold w1 in Hr, W1.
  rewrite run_bind in Hr.
  destruct (run E (split_attributes ks KEdge l r ie) c w1 cnt) as [[oa wa] cnta] eqn:Ha.
  destruct oa as [[]|e| |q]; try discriminate Hr.
  destruct (attrs_step E _ _ _ _ _ _ (wi_split_attributes_a ks KEdge l r ie) Ha) as (Hva & Hta).
  pose proof (wf2_ext n w1 wa W1 Hta) as Wa.
  destruct (orbit2_spec n wa PVertex (beta w 1 l) Wa eq_refl Nl Hbn) as (Ll & El & _).
  destruct (vertex_id_min E n c wa (beta w 1 l) cnta Ll Hdom Wa Nl Hbn El) as (il & Rl & Ml).
  rewrite run_bind, Rl in Hr.
  destruct (orbit2_spec n wa PVertex r Wa eq_refl N2 Hrn) as (Lr & Er & _).
  destruct (vertex_id_min E n c wa r cnta Lr Hdom Wa N2 Hrn Er) as (ir & Rr & Mr).
  rewrite run_bind, Rr in Hr. rewrite run_bind in Hr.
  destruct (run E (vertices_split il ir i0) c wa cnta) as [[o2 w2] cnt2] eqn:Hs.
  destruct o2 as [[]|e| |q]; try discriminate Hr.
  apply run_vertices_split in Hs as (Hoth & Hne & Heq).
  destruct (attrs_step E _ _ _ _ _ _ (wi_split_attributes_a ks KVertex il ir i0) Hr) as (Hv & _).
  assert (Hw : forall d, vertex wa d = vertex w d) by (intros d; rewrite Hva; apply vertex_clr2).
  exists i0, il, ir. split; [exists L0; auto|].
  split; [apply (is_vid_topo n w1 wa _ il Hta); exists Ll; auto|].
  split; [apply (is_vid_topo n w1 wa r ir Hta); exists Lr; auto|].
  split; [|split].
  - intros d D1 D2 D3. rewrite Hv, (Hoth d D1 D2 D3). apply Hw.
  - intros Hd. destruct (Hne Hd) as (lv & rv & A & B & C & D). rewrite Hw in A. exists lv, rv. rewrite !Hv. auto.
  - intros Hd. destruct (Heq Hd) as (A & B). rewrite Hw in A. rewrite !Hv. auto.
Qed.

(* both ends: two splits, one after the other *)
Theorem two_unsew_vertex_data_both E n ks l c w cnt w' cnt' :
  dom_ok E n -> wf2 n w -> okd n w l -> beta w 2 l <> 0 -> beta w 1 l <> 0 -> beta w 1 (beta w 2 l) <> 0 ->
  run E (two_unsew n ks l) c w cnt = (Done tt, w', cnt') ->
  let r := beta w 2 l in let w1 := clr2 w l r in
  exists j0 jl jr k0 kl kr,
    is_vid n w l j0 /\ is_vid n w r k0 /\
    is_vid n w1 l jl /\ is_vid n w1 (beta w 1 r) jr /\ is_vid n w1 (beta w 1 l) kl /\ is_vid n w1 r kr /\
    exists wm, split_effect w wm j0 jl jr /\ split_effect wm w' k0 kl kr.
Proof.
  intros Hdom W Ol N2 Nl Nr Hr r w1. pose proof Ol as (Hl0 & Hln & Hlu).
  assert (Hrn : r < n) by (apply W; [lia|exact Hln]).
  assert (Hbln : beta w 1 l < n) by (apply W; [lia|exact Hln]).
  assert (Hbrn : beta w 1 r < n) by (apply W; [lia|exact Hrn]).
  unfold two_unsew in Hr. rewrite run_rdB in Hr by (apply Hdom; [lia|exact Hln]). fold r in Hr.
  rewrite run_rdB in Hr by (apply Hdom; [lia|exact Hln]). rewrite run_rdB in Hr by (apply Hdom; [lia|exact Hrn]).
  destruct (N.eqb_spec (beta w 1 l) 0) as [Z|_]; [contradiction|].
  destruct (N.eqb_spec (beta w 1 r) 0) as [Z|_]; [contradiction|].
  destruct (orbit2_spec n w PEdge l W eq_refl Hl0 Hln) as (Le & Ee & _).
  destruct (edge_id_min E n c w l cnt Le Hdom W Hl0 Hln Ee) as (ie & Re & _).
  rewrite run_bind, Re in Hr.
  destruct (orbit2_spec n w PVertex l W eq_refl Hl0 Hln) as (J0 & EJ0 & _).
  destruct (vertex_id_min E n c w l cnt J0 Hdom W Hl0 Hln EJ0) as (j0 & RJ0 & MJ0).
  rewrite run_bind, RJ0 in Hr.
  destruct (orbit2_spec n w PVertex r W eq_refl N2 Hrn) as (K0 & EK0 & _).
  destruct (vertex_id_min E n c w r cnt K0 Hdom W N2 Hrn EK0) as (k0 & RK0 & MK0).
  rewrite run_bind, RK0 in Hr. rewrite run_bind in Hr.
  destruct (run E (two_unlink_core l) c w cnt) as [[o1 w1'] cnt1] eqn:Hc.
  pose proof (triple_two_unlink_core E n l c w cnt _ _ _ (conj W Ol) Hc) as W1.
  apply run_two_unlink_core in Hc. destruct o1 as [[]|e| |q]; try discriminate Hr.
  destruct Hc as (-> & ->). fold r in Hr, W1. fold w1 in Hr, W1.
  rewrite run_bind in Hr.
  destruct (run E (split_attributes ks KEdge l r ie) c w1 cnt) as [[oa wa] cnta] eqn:Ha.
  destruct oa as [[]|e| |q]; try discriminate Hr.
  destruct (attrs_step E _ _ _ _ _ _ (wi_split_attributes_a ks KEdge l r ie) Ha) as (Hva & Hta).
  pose proof (wf2_ext n w1 wa W1 Hta) as Wa.
  destruct (orbit2_spec n wa PVertex l Wa eq_refl Hl0 Hln) as (JL & EJL & _).
  destruct (vertex_id_min E n c wa l cnta JL Hdom Wa Hl0 Hln EJL) as (jl & RJL & MJL).
  rewrite run_bind, RJL in Hr.
  destruct (orbit2_spec n wa PVertex (beta w 1 r) Wa eq_refl Nr Hbrn) as (JR & EJR & _).
  destruct (vertex_id_min E n c wa (beta w 1 r) cnta JR Hdom Wa Nr Hbrn EJR) as (jr & RJR & MJR).
  rewrite run_bind, RJR in Hr.
  destruct (orbit2_spec n wa PVertex (beta w 1 l) Wa eq_refl Nl Hbln) as (KL & EKL & _).
  destruct (vertex_id_min E n c wa (beta w 1 l) cnta KL Hdom Wa Nl Hbln EKL) as (kl & RKL & MKL).
  rewrite run_bind, RKL in Hr.
  destruct (orbit2_spec n wa PVertex r Wa eq_refl N2 Hrn) as (KR & EKR & _).
  destruct (vertex_id_min E n c wa r cnta KR Hdom Wa N2 Hrn EKR) as (kr & RKR & MKR).
  rewrite run_bind, RKR in Hr. rewrite run_bind in Hr.
  destruct (run E (vertices_split jl jr j0) c wa cnta) as [[o2 w2] cnt2] eqn:Hs1.
  destruct o2 as [[]|e| |q]; try discriminate Hr.
  apply run_vertices_split in Hs1 as (Hoth1 & Hne1 & Heq1).
  rewrite run_bind in Hr.
  destruct (run E (split_attributes ks KVertex jl jr j0) c w2 cnt2) as [[ob wb] cntb] eqn:Hb.
  destruct ob as [[]|e| |q]; try discriminate Hr.
  destruct (attrs_step E _ _ _ _ _ _ (wi_split_attributes_a ks KVertex jl jr j0) Hb) as (Hvb & _).
  rewrite run_bind in Hr.
  destruct (run E (vertices_split kl kr k0) c wb cntb) as [[o3 w3] cnt3] eqn:Hs2.
  destruct o3 as [[]|e| |q]; try discriminate Hr.
  apply run_vertices_split in Hs2 as (Hoth2 & Hne2 & Heq2).
  destruct (attrs_step E _ _ _ _ _ _ (wi_split_attributes_a ks KVertex kl kr k0) Hr) as (Hv & _).
  assert (Hw : forall d, vertex wa d = vertex w d) by (intros d; rewrite Hva; apply vertex_clr2).
  exists j0, jl, jr, k0, kl, kr.
  split; [exists J0; auto|]. split; [exists K0; auto|].
  split; [apply (is_vid_topo n w1 wa l jl Hta); exists JL; auto|].
  split; [apply (is_vid_topo n w1 wa _ jr Hta); exists JR; auto|].
  split; [apply (is_vid_topo n w1 wa _ kl Hta); exists KL; auto|].
  split; [apply (is_vid_topo n w1 wa r kr Hta); exists KR; auto|].
  exists wb. split.
  - split; [|split].
    + intros d D1 D2 D3. rewrite Hvb, (Hoth1 d D1 D2 D3). apply Hw.
    + intros Hd. destruct (Hne1 Hd) as (lv & rv & A & B & C & D). rewrite Hw in A. exists lv, rv. rewrite !Hvb. auto.
    + intros Hd. destruct (Heq1 Hd) as (A & B). rewrite Hw in A. rewrite !Hvb. auto.
  - split; [|split].
    + intros d D1 D2 D3. rewrite Hv. apply Hoth2; assumption.
    + intros Hd. destruct (Hne2 Hd) as (lv & rv & A & B & C & D). exists lv, rv. rewrite !Hv. auto.
    + intros Hd. destruct (Heq2 Hd) as (A & B). rewrite !Hv. auto.
Qed.

End SewData.
