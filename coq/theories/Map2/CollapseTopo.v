(** * C15, edge collapse (midpoint variant): the two triangles of the edge disappear and their outer neighbours are glued
    pairwise.  Exact images and removal flags after a collapse that terminates normally, on every store. *)
From Coq Require Import List NArith Bool Lia.
From HC Require Import Base.Closure Stm.Prog Stm.ProgFacts Stm.Atomic Map2.Ops2 Map2.State2 Map2.Wf2 Map2.Wf2Proofs
  Map2.Orbit2 Map2.SewTopo Map2.SewData Map2.Kern2 Map2.SwapTopo Map2.FanTopo.
Import ListNotations.
Open Scope N_scope.
Arguments N.eqb : simpl never.

Section CollapseTopo.
Context `{Sig}.

Definition p_unlink2 (f : img) (l : N) : img :=
  fun i d => if (i =? 2) && (d =? f 2 l) then 0 else if (i =? 2) && (d =? l) then 0 else f i d.
Definition flags := N -> bool.
Definition fl_eq (u v : flags) : Prop := forall d, u d = v d.
Definition p_remove (u : flags) (x : N) : flags := fun d => if d =? x then true else u d.

(* one step: images and removal flags of the resulting store *)
Definition step_to (wa : store) (f : img) (u : flags) : Prop := img_eq (beta wa) f /\ fl_eq (unused wa) u.

Lemma sew1_stepU {Y} E n ks l r (k : prog Y) c w cnt o w1 cnt1 :
  run E (one_sew n ks l r ;;; k) c w cnt = (Done o, w1, cnt1) ->
  exists wa cnta, step_to wa (p_link1 (beta w) l r) (unused w) /\ run E k c wa cnta = (Done o, w1, cnt1).
Proof.
  intros Hr. rewrite run_bind in Hr.
  destruct (run E (one_sew n ks l r) c w cnt) as [[[[]|e| |q] wa] cnta] eqn:Es; try discriminate Hr.
  exists wa, cnta. split; [|exact Hr].
  destruct (one_sew_topology E n ks l r c w cnt wa cnta Es) as (w2 & Ec & [Hb Hu]).
  apply run_one_link_core in Ec. destruct Ec as (-> & _). split.
  - intros i d. rewrite Hb. unfold set1, p_link1. rewrite !beta_upd_beta. reflexivity.
  - intros d. rewrite Hu. unfold set1. rewrite !unused_upd_other by (intros; discriminate). reflexivity.
Qed.
Lemma unsew1_stepU {Y} E n ks l (k : prog Y) c w cnt o w1 cnt1 :
  run E (one_unsew n ks l ;;; k) c w cnt = (Done o, w1, cnt1) ->
  exists wa cnta, step_to wa (p_unlink1 (beta w) l) (unused w) /\ run E k c wa cnta = (Done o, w1, cnt1).
Proof.
  intros Hr. rewrite run_bind in Hr.
  destruct (run E (one_unsew n ks l) c w cnt) as [[[[]|e| |q] wa] cnta] eqn:Es; try discriminate Hr.
  exists wa, cnta. split; [|exact Hr].
  destruct (one_unsew_topology E n ks l c w cnt wa cnta Es) as (w2 & Ec & [Hb Hu]).
  apply run_one_unlink_core in Ec. destruct Ec as (-> & _). split.
  - intros i d. rewrite Hb. unfold clr1, p_unlink1. rewrite !beta_upd_beta. reflexivity.
  - intros d. rewrite Hu. unfold clr1. rewrite !unused_upd_other by (intros; discriminate). reflexivity.
Qed.
Lemma sew2_stepU {Y} E n ks l r (k : prog Y) c w cnt o w1 cnt1 :
  run E (two_sew n ks l r ;;; k) c w cnt = (Done o, w1, cnt1) ->
  exists wa cnta, step_to wa (p_link2 (beta w) l r) (unused w) /\ run E k c wa cnta = (Done o, w1, cnt1).
Proof.
  intros Hr. rewrite run_bind in Hr.
  destruct (run E (two_sew n ks l r) c w cnt) as [[[[]|e| |q] wa] cnta] eqn:Es; try discriminate Hr.
  exists wa, cnta. split; [|exact Hr].
  destruct (two_sew_topology E n ks l r c w cnt wa cnta Es) as (w2 & Ec & [Hb Hu]).
  apply run_two_link_core in Ec. destruct Ec as (-> & _). split.
  - intros i d. rewrite Hb. unfold set2, p_link2. rewrite !beta_upd_beta. reflexivity.
  - intros d. rewrite Hu. unfold set2. rewrite !unused_upd_other by (intros; discriminate). reflexivity.
Qed.
Lemma unsew2_stepU {Y} E n ks l (k : prog Y) c w cnt o w1 cnt1 :
  run E (two_unsew n ks l ;;; k) c w cnt = (Done o, w1, cnt1) ->
  exists wa cnta, step_to wa (p_unlink2 (beta w) l) (unused w) /\ run E k c wa cnta = (Done o, w1, cnt1).
Proof.
  intros Hr. rewrite run_bind in Hr.
  destruct (run E (two_unsew n ks l) c w cnt) as [[[[]|e| |q] wa] cnta] eqn:Es; try discriminate Hr.
  exists wa, cnta. split; [|exact Hr].
  destruct (two_unsew_topology E n ks l c w cnt wa cnta Es) as (w2 & Ec & [Hb Hu]).
  apply run_two_unlink_core in Ec. destruct Ec as (-> & _). split.
  - intros i d. rewrite Hb. unfold clr2, p_unlink2. rewrite !beta_upd_beta. reflexivity.
  - intros d. rewrite Hu. unfold clr2. rewrite !unused_upd_other by (intros; discriminate). reflexivity.
Qed.
Lemma remove_stepU {Y} E x (k : prog Y) c w cnt o w1 cnt1 :
  run E (remove_dart_tx x ;;; k) c w cnt = (Done o, w1, cnt1) ->
  exists wa cnta, step_to wa (beta w) (p_remove (unused w) x) /\ run E k c wa cnta = (Done o, w1, cnt1).
Proof.
  unfold remove_dart_tx. cbn [run bind rdU wrU]. destruct (e_dom E (XUnused x)); [|discriminate]. cbn [run].
  intros Hr. eexists _, _. split; [|exact Hr]. split.
  - intros i d. unfold beta. rewrite upd_other by discriminate. reflexivity.
  - intros d. unfold p_remove. apply unused_upd_unused.
Qed.

Ltac simpl_ne := repeat match goal with
  | Hne : ?x <> ?y |- context [?x =? ?y] => rewrite (proj2 (N.eqb_neq x y) Hne)
  | Hne : ?y <> ?x |- context [?x =? ?y] => rewrite (proj2 (N.eqb_neq x y) (not_eq_sym Hne))
  end; rewrite ?N.eqb_refl; cbn [andb orb negb].
Ltac consts := change (1 =? 0) with false; change (0 =? 1) with false; change (1 =? 1) with true;
  change (0 =? 0) with true; change (2 =? 0) with false; change (2 =? 1) with false; change (0 =? 2) with false;
  change (1 =? 2) with false; change (2 =? 2) with true; cbn [andb].
Ltac lk := repeat (match goal with
  | Hx : forall i d, beta ?s i d = _ |- context [beta ?s _ _] => rewrite Hx
  end; consts; simpl_ne).
Ltac stepU L Hr F U :=
  apply L in Hr; let wk := fresh "wk" in let ck := fresh "ck" in
  destruct Hr as (wk & ck & [F U] & Hr);
  unfold img_eq, fl_eq, p_link1, p_link2, p_unlink1, p_unlink2, p_remove in F, U.

Lemma rd_stepY' {Y} E i d (k : N -> prog Y) c w cnt o w1 cnt1 :
  run E (x <- rdB i d ;; k x) c w cnt = (Done o, w1, cnt1) -> run E (k (beta w i d)) c w cnt = (Done o, w1, cnt1).
Proof. cbn [run bind rdB]. destruct (e_dom E (XBeta i d)); [auto|discriminate]. Qed.

(** interior edge (l | r) between the triangles l -> a -> b and r -> c0 -> d, whose four other sides are glued to
    A2, B2, C2, D2: after the collapse to the midpoint the six darts of the two triangles are removed (all images null,
    flagged), B2 | A2 and D2 | C2 are glued, everything else is as it was *)
Theorem collapse_midpoint_topology E n ks l c w cnt vid w' cnt' :
  let a := beta w 1 l in let b := beta w 0 l in let r := beta w 2 l in
  let c0 := beta w 1 r in let d := beta w 0 r in
  let A2 := beta w 2 a in let B2 := beta w 2 b in let C2 := beta w 2 c0 in let D2 := beta w 2 d in
  NoDup [l; a; b; r; c0; d; A2; B2; C2; D2] -> ~ In 0 [l; a; b; r; c0; d; A2; B2; C2; D2] ->
  beta w 1 a = b -> beta w 1 b = l -> beta w 1 c0 = d -> beta w 1 d = r -> beta w 2 r = l ->
  run E (collapse_edge_to_midpoint n ks b l a d r c0) c w cnt = (Done vid, w', cnt') ->
  (forall i x, beta w' i x =
     if (x =? l) || (x =? a) || (x =? b) || (x =? r) || (x =? c0) || (x =? d) then (if i <? 3 then 0 else beta w i x)
     else if i =? 2 then (if x =? B2 then A2 else if x =? A2 then B2 else if x =? D2 then C2 else if x =? C2 then D2 else beta w 2 x)
     else beta w i x) /\
  (forall x, unused w' x = if (x =? l) || (x =? a) || (x =? b) || (x =? r) || (x =? c0) || (x =? d) then true else unused w x).
Proof.
  intros a b r c0 d A2 B2 C2 D2.
  remember (beta w 1 l) as a' eqn:Ea. subst a. rename a' into a.
  remember (beta w 0 l) as b' eqn:Eb. subst b. rename b' into b.
  remember (beta w 2 l) as r' eqn:Er. subst r. rename r' into r.
  remember (beta w 1 r) as c' eqn:Ec. subst c0. rename c' into c0.
  remember (beta w 0 r) as d' eqn:Ed. subst d. rename d' into d.
  remember (beta w 2 a) as A' eqn:EA. subst A2. rename A' into A2.
  remember (beta w 2 b) as B' eqn:EB. subst B2. rename B' into B2.
  remember (beta w 2 c0) as C' eqn:EC. subst C2. rename C' into C2.
  remember (beta w 2 d) as D' eqn:ED. subst D2. rename D' into D2.
  intros Hnd Hnz Bab Bbl Bcd Bdr Brl Hr.
  assert (D : l <> a /\ l <> b /\ l <> r /\ l <> c0 /\ l <> d /\ l <> A2 /\ l <> B2 /\ l <> C2 /\ l <> D2 /\ a <> b /\ a <> r /\ a <> c0 /\ a <> d /\ a <> A2 /\ a <> B2 /\ a <> C2 /\ a <> D2 /\ b <> r /\ b <> c0 /\ b <> d /\ b <> A2 /\ b <> B2 /\ b <> C2 /\ b <> D2 /\ r <> c0 /\ r <> d /\ r <> A2 /\ r <> B2 /\ r <> C2 /\ r <> D2 /\ c0 <> d /\ c0 <> A2 /\ c0 <> B2 /\ c0 <> C2 /\ c0 <> D2 /\ d <> A2 /\ d <> B2 /\ d <> C2 /\ d <> D2 /\ A2 <> B2 /\ A2 <> C2 /\ A2 <> D2 /\ B2 <> C2 /\ B2 <> D2 /\ C2 <> D2).
  { repeat match goal with Hx : NoDup (_ :: _) |- _ => inversion Hx; clear Hx; subst end.
    cbn [In] in *. repeat split; intros Q; intuition congruence. }
  destruct D as (Q0 & Q1 & Q2 & Q3 & Q4 & Q5 & Q6 & Q7 & Q8 & Q9 & Q10 & Q11 & Q12 & Q13 & Q14 & Q15 & Q16 & Q17 & Q18 & Q19 & Q20 & Q21 & Q22 & Q23 & Q24 & Q25 & Q26 & Q27 & Q28 & Q29 & Q30 & Q31 & Q32 & Q33 & Q34 & Q35 & Q36 & Q37 & Q38 & Q39 & Q40 & Q41 & Q42 & Q43 & Q44).
  assert (Hr0 : r <> 0) by (intros Z; apply Hnz; do 3 right; left; auto).
  assert (HB0 : B2 <> 0) by (intros Z; apply Hnz; do 7 right; left; auto).
  unfold collapse_edge_to_midpoint in Hr.
  destruct (N.eqb_spec r 0) as [Z|_]; [contradiction|]. cbn [negb] in Hr.
  unfold collapse_halfcell_to_midpoint in Hr.
  (* right triangle *)
  rewrite bind_assoc in Hr. stepU (@unsew2_stepU N) Hr F0 U0. rewrite Brl in F0.
  rewrite bind_assoc in Hr. stepU (@unsew1_stepU N) Hr F1 U1.
  assert (V1 : beta wk 1 r = c0) by (lk; auto). rewrite V1 in F1.
  rewrite bind_assoc in Hr. stepU (@unsew1_stepU N) Hr F2 U2.
  assert (V2 : beta wk0 1 c0 = d) by (lk; auto). rewrite V2 in F2.
  rewrite bind_assoc in Hr. stepU (@unsew1_stepU N) Hr F3 U3.
  assert (V3 : beta wk1 1 d = r) by (lk; auto). rewrite V3 in F3.
  rewrite bind_assoc in Hr. apply rd_stepY' in Hr. rewrite bind_assoc in Hr. apply rd_stepY' in Hr.
  assert (R1 : beta wk2 2 d = D2) by (lk; auto). assert (R2 : beta wk2 2 c0 = C2) by (lk; auto). rewrite R1, R2 in Hr.
  rewrite bind_assoc in Hr. stepU (@unsew2_stepU N) Hr F4 U4. rewrite R1 in F4.
  rewrite bind_assoc in Hr. stepU (@unsew2_stepU N) Hr F5 U5.
  assert (V5 : beta wk3 2 c0 = C2) by (lk; auto). rewrite V5 in F5.
  rewrite bind_assoc in Hr. stepU (@sew2_stepU N) Hr F6 U6.
  rewrite bind_assoc in Hr. stepU (@remove_stepU N) Hr F7 U7.
  rewrite bind_assoc in Hr. stepU (@remove_stepU N) Hr F8 U8.
  stepU (@remove_stepU N) Hr F9 U9.
  (* left triangle *)
  apply rd_stepY' in Hr.
  assert (R3 : beta wk8 2 b = B2) by (lk; auto). rewrite R3 in Hr.
  rewrite bind_assoc in Hr. stepU (@unsew1_stepU N) Hr F10 U10.
  assert (V10 : beta wk8 1 l = a) by (lk; auto). rewrite V10 in F10.
  rewrite bind_assoc in Hr. stepU (@unsew1_stepU N) Hr F11 U11.
  assert (V11 : beta wk9 1 a = b) by (lk; auto). rewrite V11 in F11.
  rewrite bind_assoc in Hr. stepU (@unsew1_stepU N) Hr F12 U12.
  assert (V12 : beta wk10 1 b = l) by (lk; auto). rewrite V12 in F12.
  rewrite bind_assoc in Hr. apply rd_stepY' in Hr. rewrite bind_assoc in Hr. apply rd_stepY' in Hr.
  assert (R4 : beta wk11 2 b = B2) by (lk; auto). assert (R5 : beta wk11 2 a = A2) by (lk; auto). rewrite R4, R5 in Hr.
  rewrite bind_assoc in Hr. stepU (@unsew2_stepU N) Hr F13 U13. rewrite R4 in F13.
  rewrite bind_assoc in Hr. stepU (@unsew2_stepU N) Hr F14 U14.
  assert (V14 : beta wk12 2 a = A2) by (lk; auto). rewrite V14 in F14.
  rewrite bind_assoc in Hr. stepU (@sew2_stepU N) Hr F15 U15.
  rewrite bind_assoc in Hr. stepU (@remove_stepU N) Hr F16 U16.
  rewrite bind_assoc in Hr. stepU (@remove_stepU N) Hr F17 U17.
  stepU (@remove_stepU N) Hr F18 U18.
  (* the identifier of the new vertex: a read *)
  destruct (N.eqb_spec B2 0) as [Z|_]; [contradiction|]. cbn [negb] in Hr.
  assert (Tl : topo_eq wk17 w').
  { eapply last_data; [|exact Hr]. apply wi_vertex_id. }
  destruct Tl as [Tb Tu].
  split.
  - intros i x. rewrite Tb.
    destruct (N.eqb_spec i 0) as [->|Ni0]; [|destruct (N.eqb_spec i 1) as [->|Ni1]; [|destruct (N.eqb_spec i 2) as [->|Ni2]]].
    + change (0 <? 3) with true. change (0 =? 2) with false. lk.
    destruct (N.eqb_spec x l) as [->|N0]; [simpl_ne; reflexivity|].
    destruct (N.eqb_spec x a) as [->|N1]; [simpl_ne; reflexivity|].
    destruct (N.eqb_spec x b) as [->|N2]; [simpl_ne; reflexivity|].
    destruct (N.eqb_spec x r) as [->|N3]; [simpl_ne; reflexivity|].
    destruct (N.eqb_spec x c0) as [->|N4]; [simpl_ne; reflexivity|].
    destruct (N.eqb_spec x d) as [->|N5]; [simpl_ne; reflexivity|].
    simpl_ne. reflexivity.
    + change (1 <? 3) with true. change (1 =? 2) with false. lk.
    destruct (N.eqb_spec x l) as [->|N0]; [simpl_ne; reflexivity|].
    destruct (N.eqb_spec x a) as [->|N1]; [simpl_ne; reflexivity|].
    destruct (N.eqb_spec x b) as [->|N2]; [simpl_ne; reflexivity|].
    destruct (N.eqb_spec x r) as [->|N3]; [simpl_ne; reflexivity|].
    destruct (N.eqb_spec x c0) as [->|N4]; [simpl_ne; reflexivity|].
    destruct (N.eqb_spec x d) as [->|N5]; [simpl_ne; reflexivity|].
    simpl_ne. reflexivity.
    + change (2 <? 3) with true. change (2 =? 2) with true. lk.
    destruct (N.eqb_spec x l) as [->|N0]; [simpl_ne; reflexivity|].
    destruct (N.eqb_spec x a) as [->|N1]; [simpl_ne; reflexivity|].
    destruct (N.eqb_spec x b) as [->|N2]; [simpl_ne; reflexivity|].
    destruct (N.eqb_spec x r) as [->|N3]; [simpl_ne; reflexivity|].
    destruct (N.eqb_spec x c0) as [->|N4]; [simpl_ne; reflexivity|].
    destruct (N.eqb_spec x d) as [->|N5]; [simpl_ne; reflexivity|].
    destruct (N.eqb_spec x B2) as [->|N6]; [simpl_ne; reflexivity|].
    destruct (N.eqb_spec x A2) as [->|N7]; [simpl_ne; reflexivity|].
    destruct (N.eqb_spec x D2) as [->|N8]; [simpl_ne; reflexivity|].
    destruct (N.eqb_spec x C2) as [->|N9]; [simpl_ne; reflexivity|].
    simpl_ne. reflexivity.
    + assert (Hi : (i <? 3) = false) by (clear - Ni0 Ni1 Ni2; apply N.ltb_ge; lia). rewrite Hi.
      rewrite F18, F17, F16, F15, F14, F13, F12, F11, F10, F9, F8, F7, F6, F5, F4, F3, F2, F1, F0.
      rewrite (proj2 (N.eqb_neq i 0) Ni0), (proj2 (N.eqb_neq i 1) Ni1), (proj2 (N.eqb_neq i 2) Ni2). cbn [andb].
      destruct ((x =? l) || (x =? a) || (x =? b) || (x =? r) || (x =? c0) || (x =? d)); reflexivity.
  - intros x. rewrite Tu, U18, U17, U16, U15, U14, U13, U12, U11, U10, U9, U8, U7, U6, U5, U4, U3, U2, U1, U0.
    destruct (N.eqb_spec x l) as [->|N0]; [simpl_ne; reflexivity|].
    destruct (N.eqb_spec x a) as [->|N1]; [simpl_ne; reflexivity|].
    destruct (N.eqb_spec x b) as [->|N2]; [simpl_ne; reflexivity|].
    destruct (N.eqb_spec x r) as [->|N3]; [simpl_ne; reflexivity|].
    destruct (N.eqb_spec x c0) as [->|N4]; [simpl_ne; reflexivity|].
    destruct (N.eqb_spec x d) as [->|N5]; [simpl_ne; reflexivity|].
    simpl_ne. reflexivity.
Qed.

(** hence the result is well formed *)
Theorem collapse_midpoint_wf E n ks l c w cnt vid w' cnt' :
  let a := beta w 1 l in let b := beta w 0 l in let r := beta w 2 l in
  let c0 := beta w 1 r in let d := beta w 0 r in
  let A2 := beta w 2 a in let B2 := beta w 2 b in let C2 := beta w 2 c0 in let D2 := beta w 2 d in
  wf2 n w -> l < n ->
  NoDup [l; a; b; r; c0; d; A2; B2; C2; D2] -> ~ In 0 [l; a; b; r; c0; d; A2; B2; C2; D2] ->
  beta w 1 a = b -> beta w 1 c0 = d ->
  run E (collapse_edge_to_midpoint n ks b l a d r c0) c w cnt = (Done vid, w', cnt') ->
  wf2 n w'.
Proof.
  intros a b r c0 d A2 B2 C2 D2 W Hln Hnd Hnz Bab Bcd Hr.
  assert (Hl0 : l <> 0) by (intros Z; apply Hnz; left; auto).
  assert (Ha0 : a <> 0) by (intros Z; apply Hnz; right; left; auto).
  assert (Hb0 : b <> 0) by (intros Z; apply Hnz; do 2 right; left; auto).
  assert (Hr0 : r <> 0) by (intros Z; apply Hnz; do 3 right; left; auto).
  assert (Hc0 : c0 <> 0) by (intros Z; apply Hnz; do 4 right; left; auto).
  assert (Hd0 : d <> 0) by (intros Z; apply Hnz; do 5 right; left; auto).
  assert (HA0 : A2 <> 0) by (intros Z; apply Hnz; do 6 right; left; auto).
  assert (HB0 : B2 <> 0) by (intros Z; apply Hnz; do 7 right; left; auto).
  assert (HC0 : C2 <> 0) by (intros Z; apply Hnz; do 8 right; left; auto).
  assert (HD0 : D2 <> 0) by (intros Z; apply Hnz; do 9 right; left; auto).
  pose proof W as [W1 W2 W3 W4 W5 W6].
  assert (Han : a < n) by (apply W2; [lia|exact Hln]).
  assert (Hbn : b < n) by (apply W2; [lia|exact Hln]).
  assert (Hrn : r < n) by (apply W2; [lia|exact Hln]).
  assert (Hcn : c0 < n) by (apply W2; [lia|exact Hrn]).
  assert (Hdn : d < n) by (apply W2; [lia|exact Hrn]).
  assert (HAn : A2 < n) by (apply W2; [lia|exact Han]).
  assert (HBn : B2 < n) by (apply W2; [lia|exact Hbn]).
  assert (HCn : C2 < n) by (apply W2; [lia|exact Hcn]).
  assert (HDn : D2 < n) by (apply W2; [lia|exact Hdn]).
  (* the two triangles, both directions; the gluings *)
  assert (Bbl : beta w 1 b = l) by (apply (W4 l Hln); exact Hb0).
  assert (Bdr : beta w 1 d = r) by (apply (W4 r Hrn); exact Hd0).
  assert (Brl : beta w 2 r = l) by (apply (W5 l Hln); exact Hr0).
  assert (P0a : beta w 0 a = l) by (apply (W3 l Hln); exact Ha0).
  assert (P0b : beta w 0 b = a) by (rewrite <- Bab; apply (W3 a Han); rewrite Bab; exact Hb0).
  assert (P0c : beta w 0 c0 = r) by (apply (W3 r Hrn); exact Hc0).
  assert (P0d : beta w 0 d = c0) by (rewrite <- Bcd; apply (W3 c0 Hcn); rewrite Bcd; exact Hd0).
  assert (G2A : beta w 2 A2 = a) by (apply (W5 a Han); exact HA0).
  assert (G2B : beta w 2 B2 = b) by (apply (W5 b Hbn); exact HB0).
  assert (G2C : beta w 2 C2 = c0) by (apply (W5 c0 Hcn); exact HC0).
  assert (G2D : beta w 2 D2 = d) by (apply (W5 d Hdn); exact HD0).
  destruct (collapse_midpoint_topology E n ks l c w cnt vid w' cnt' Hnd Hnz Bab Bbl Bcd Bdr Brl Hr) as (Hb & Hu).
  fold a b r c0 d A2 B2 C2 D2 in Hb, Hu.
  set (six := fun x => (x =? l) || (x =? a) || (x =? b) || (x =? r) || (x =? c0) || (x =? d)).
  assert (Hb' : forall i x, beta w' i x =
     if six x then (if i <? 3 then 0 else beta w i x)
     else if i =? 2 then (if x =? B2 then A2 else if x =? A2 then B2 else if x =? D2 then C2 else if x =? C2 then D2 else beta w 2 x)
     else beta w i x) by (intros i x; rewrite Hb; reflexivity).
  assert (Hu' : forall x, unused w' x = if six x then true else unused w x) by (intros x; rewrite Hu; reflexivity).
  clear Hb Hu. rename Hb' into Hb. rename Hu' into Hu.
  assert (Six : forall x, six x = true <-> (x = l \/ x = a \/ x = b \/ x = r \/ x = c0 \/ x = d)).
  { intros x. unfold six. rewrite !orb_true_iff, !N.eqb_eq. tauto. }
  assert (D : l <> a /\ l <> b /\ l <> r /\ l <> c0 /\ l <> d /\ l <> A2 /\ l <> B2 /\ l <> C2 /\ l <> D2 /\ a <> b /\ a <> r /\ a <> c0 /\ a <> d /\ a <> A2 /\ a <> B2 /\ a <> C2 /\ a <> D2 /\ b <> r /\ b <> c0 /\ b <> d /\ b <> A2 /\ b <> B2 /\ b <> C2 /\ b <> D2 /\ r <> c0 /\ r <> d /\ r <> A2 /\ r <> B2 /\ r <> C2 /\ r <> D2 /\ c0 <> d /\ c0 <> A2 /\ c0 <> B2 /\ c0 <> C2 /\ c0 <> D2 /\ d <> A2 /\ d <> B2 /\ d <> C2 /\ d <> D2 /\ A2 <> B2 /\ A2 <> C2 /\ A2 <> D2 /\ B2 <> C2 /\ B2 <> D2 /\ C2 <> D2).
  { clear - Hnd. repeat match goal with Hx : NoDup (_ :: _) |- _ => inversion Hx; clear Hx; subst end.
    cbn [In] in *. repeat split; intros Q; intuition congruence. }
  destruct D as (Q0 & Q1 & Q2 & Q3 & Q4 & Q5 & Q6 & Q7 & Q8 & Q9 & Q10 & Q11 & Q12 & Q13 & Q14 & Q15 & Q16 & Q17 & Q18 & Q19 & Q20 & Q21 & Q22 & Q23 & Q24 & Q25 & Q26 & Q27 & Q28 & Q29 & Q30 & Q31 & Q32 & Q33 & Q34 & Q35 & Q36 & Q37 & Q38 & Q39 & Q40 & Q41 & Q42 & Q43 & Q44).
  (* images of the six darts stay among the six, in w *)
  assert (In1 : forall x, six x = true -> six (beta w 1 x) = true).
  { intros x Hx. apply Six in Hx. apply Six. destruct Hx as [->|[->|[->|[->|[->| ->]]]]]; fold a c0; rewrite ?Bab, ?Bbl, ?Bcd, ?Bdr; tauto. }
  assert (In0 : forall x, six x = true -> six (beta w 0 x) = true).
  { intros x Hx. apply Six in Hx. apply Six. destruct Hx as [->|[->|[->|[->|[->| ->]]]]]; fold b d; rewrite ?P0a, ?P0b, ?P0c, ?P0d; tauto. }
  assert (Out : forall x, six x = false -> x <> l /\ x <> a /\ x <> b /\ x <> r /\ x <> c0 /\ x <> d).
  { intros x Hx. repeat split; intros ->; match type of Hx with six ?z = false => assert (Q : six z = true) by (apply Six; tauto) end; congruence. }
  constructor.
  - (* null dart *)
    intros i Hi. rewrite Hb. assert (Q : six 0 = false).
    { destruct (six 0) eqn:Q; [|reflexivity]. apply Six in Q. destruct Q as [Q|[Q|[Q|[Q|[Q|Q]]]]]; congruence. }
    rewrite Q. destruct (i =? 2) eqn:E2.
    + destruct (N.eqb_spec 0 B2); [congruence|]. destruct (N.eqb_spec 0 A2); [congruence|].
      destruct (N.eqb_spec 0 D2); [congruence|]. destruct (N.eqb_spec 0 C2); [congruence|]. apply W1; reflexivity.
    + apply W1; exact Hi.
  - (* range *)
    intros i x Hi Hx. rewrite Hb. destruct (six x).
    + destruct (i <? 3); [apply (N.le_lt_trans _ l); [apply N.le_0_l|exact Hln]|apply W2; assumption].
    + destruct (i =? 2); [|apply W2; assumption].
      destruct (x =? B2); [exact HAn|]. destruct (x =? A2); [exact HBn|]. destruct (x =? D2); [exact HCn|].
      destruct (x =? C2); [exact HDn|]. apply W2; [reflexivity|exact Hx].
  - (* beta0 after beta1 *)
    intros x Hx Hnz1. rewrite Hb in Hnz1. destruct (six x) eqn:Sx; [change (1 <? 3) with true in Hnz1; congruence|].
    change (1 =? 2) with false in Hnz1. cbv iota in Hnz1.
    rewrite (Hb 1 x), Sx. change (1 =? 2) with false. cbv iota.
    rewrite Hb. change (0 =? 2) with false.
    destruct (six (beta w 1 x)) eqn:Sy.
    + apply In0 in Sy. rewrite (W3 x Hx Hnz1) in Sy. congruence.
    + cbv iota. apply W3; assumption.
  - (* beta1 after beta0 *)
    intros x Hx Hnz0. rewrite Hb in Hnz0. destruct (six x) eqn:Sx; [change (0 <? 3) with true in Hnz0; congruence|].
    change (0 =? 2) with false in Hnz0. cbv iota in Hnz0.
    rewrite (Hb 0 x), Sx. change (0 =? 2) with false. cbv iota.
    rewrite Hb. change (1 =? 2) with false.
    destruct (six (beta w 0 x)) eqn:Sy.
    + apply In1 in Sy. rewrite (W4 x Hx Hnz0) in Sy. congruence.
    + cbv iota. apply W4; assumption.
  - (* beta2 involution *)
    intros x Hx Hnz2. rewrite Hb in Hnz2. destruct (six x) eqn:Sx; [change (2 <? 3) with true in Hnz2; congruence|].
    change (2 =? 2) with true in Hnz2. cbv iota in Hnz2.
    destruct (Out x Sx) as (O1 & O2 & O3 & O4 & O5 & O6).
    rewrite (Hb 2 x), Sx. change (2 =? 2) with true. cbv iota.
    assert (SA : six A2 = false) by (destruct (six A2) eqn:Q; [apply Six in Q; intuition congruence|reflexivity]).
    assert (SB : six B2 = false) by (destruct (six B2) eqn:Q; [apply Six in Q; intuition congruence|reflexivity]).
    assert (SC : six C2 = false) by (destruct (six C2) eqn:Q; [apply Six in Q; intuition congruence|reflexivity]).
    assert (SD : six D2 = false) by (destruct (six D2) eqn:Q; [apply Six in Q; intuition congruence|reflexivity]).
    destruct (N.eqb_spec x B2) as [->|NB].
    { rewrite Hb, SA. change (2 =? 2) with true. cbv iota. simpl_ne. split; [reflexivity|congruence]. }
    destruct (N.eqb_spec x A2) as [->|NA].
    { rewrite Hb, SB. change (2 =? 2) with true. cbv iota. simpl_ne. split; [reflexivity|congruence]. }
    destruct (N.eqb_spec x D2) as [->|ND].
    { rewrite Hb, SC. change (2 =? 2) with true. cbv iota. simpl_ne. split; [reflexivity|congruence]. }
    destruct (N.eqb_spec x C2) as [->|NC].
    { rewrite Hb, SD. change (2 =? 2) with true. cbv iota. simpl_ne. split; [reflexivity|congruence]. }
    rewrite ?(proj2 (N.eqb_neq x B2) NB), ?(proj2 (N.eqb_neq x A2) NA), ?(proj2 (N.eqb_neq x D2) ND), ?(proj2 (N.eqb_neq x C2) NC) in Hnz2.
    destruct (W5 x Hx Hnz2) as (I2 & I3).
    set (y := beta w 2 x) in *.
    assert (Sy : six y = false).
    { destruct (six y) eqn:Q; [|reflexivity]. apply Six in Q. exfalso.
      destruct Q as [Q|[Q|[Q|[Q|[Q|Q]]]]]; rewrite Q in I2; fold r A2 B2 C2 D2 in I2; rewrite ?Brl in I2; congruence. }
    rewrite Hb, Sy. change (2 =? 2) with true. cbv iota.
    assert (yB : y <> B2) by (intros Q; rewrite Q, G2B in I2; congruence).
    assert (yA : y <> A2) by (intros Q; rewrite Q, G2A in I2; congruence).
    assert (yD : y <> D2) by (intros Q; rewrite Q, G2D in I2; congruence).
    assert (yC : y <> C2) by (intros Q; rewrite Q, G2C in I2; congruence).
    rewrite (proj2 (N.eqb_neq y B2) yB), (proj2 (N.eqb_neq y A2) yA), (proj2 (N.eqb_neq y D2) yD), (proj2 (N.eqb_neq y C2) yC).
    split; assumption.
  - (* removed darts are free *)
    intros x Hx Hux i Hi. rewrite Hu in Hux. rewrite Hb. destruct (six x) eqn:Sx.
    + assert (Q : (i <? 3) = true) by (apply N.ltb_lt; exact Hi). rewrite Q. reflexivity.
    + pose proof (W6 x Hx Hux) as Fr.
      destruct (i =? 2) eqn:E2; [|apply Fr; exact Hi].
      destruct (N.eqb_spec x B2) as [->|NB]; [rewrite (Fr 2 eq_refl) in G2B; congruence|].
      destruct (N.eqb_spec x A2) as [->|NA]; [rewrite (Fr 2 eq_refl) in G2A; congruence|].
      destruct (N.eqb_spec x D2) as [->|ND]; [rewrite (Fr 2 eq_refl) in G2D; congruence|].
      destruct (N.eqb_spec x C2) as [->|NC]; [rewrite (Fr 2 eq_refl) in G2C; congruence|].
      apply Fr. reflexivity.
Qed.

(** ** collapse towards an end point, the half-cell whose next edge is on the boundary (the code repaired by 667f50e):
    the triangle pe -> e -> ne -> pe with ne (and e) 2-free disappears entirely -- its three darts end with all images
    null and flagged, the former 2-neighbour of pe becomes a boundary dart -- and nothing else changes *)
Theorem halfcell_to_base_boundary E n ks pe e ne c w cnt w' cnt' :
  let x := beta w 2 pe in
  NoDup [pe; e; ne; x] -> pe <> 0 -> e <> 0 -> ne <> 0 ->
  beta w 1 pe = e -> beta w 1 e = ne -> beta w 1 ne = pe ->
  beta w 2 ne = 0 -> beta w 2 e = 0 -> (x <> 0 -> beta w 2 x = pe) ->
  run E (collapse_halfcell_to_base n ks pe e ne) c w cnt = (Done tt, w', cnt') ->
  (forall i y, beta w' i y =
     if (y =? pe) || (y =? e) || (y =? ne) then (if i <? 3 then 0 else beta w i y)
     else if (i =? 2) && (y =? x) && negb (x =? 0) then 0
     else beta w i y) /\
  (forall y, unused w' y = if (y =? pe) || (y =? e) || (y =? ne) then true else unused w y).
Proof.
  intros x. remember (beta w 2 pe) as x' eqn:Ex. subst x. rename x' into x.
  intros Hnd P0 E0 N0 B1 B2 B3 Zn Ze Hx Hr.
  assert (D : pe <> e /\ pe <> ne /\ pe <> x /\ e <> ne /\ e <> x /\ ne <> x).
  { repeat match goal with Hq : NoDup (_ :: _) |- _ => inversion Hq; clear Hq; subst end.
    cbn [In] in *. repeat split; intros Q; intuition congruence. }
  destruct D as (Q1 & Q2 & Q3 & Q4 & Q5 & Q6).
  unfold collapse_halfcell_to_base in Hr.
  apply rd_stepY' in Hr. rewrite Zn in Hr.
  apply rd_stepY' in Hr. apply rd_stepY' in Hr.
  stepU (@unsew1_stepU unit) Hr F1 U1. rewrite B2 in F1.
  stepU (@unsew1_stepU unit) Hr F2 U2.
  assert (V2 : beta wk 1 pe = e) by (lk; auto). rewrite V2 in F2.
  stepU (@unsew1_stepU unit) Hr F3 U3.
  assert (V3 : beta wk0 1 ne = pe) by (lk; auto). rewrite V3 in F3.
  change (0 =? 0) with true in Hr. cbn [negb] in Hr.
  apply rd_stepY' in Hr.
  assert (R : beta wk1 2 pe = x) by (lk; auto). rewrite R in Hr.
  destruct (N.eqb_spec x 0) as [Zx|Nx]; cbn [negb] in Hr.
  - (* pe itself on the boundary *)
    cbn [bind run] in Hr.
    stepU (@remove_stepU unit) Hr F5 U5. stepU (@remove_stepU unit) Hr F6 U6.
    assert (Hl : step_to w' (beta wk3) (p_remove (unused wk3) ne)).
    { unfold remove_dart_tx in Hr. cbn [run bind rdU wrU] in Hr. destruct (e_dom E (XUnused ne)); [|discriminate Hr]. cbn [run] in Hr.
      injection Hr as <- <-. split.
      - intros i d. unfold beta. rewrite upd_other by discriminate. reflexivity.
      - intros d. unfold p_remove. apply unused_upd_unused. }
    destruct Hl as [F7 U7]. unfold img_eq, fl_eq, p_remove in F7, U7.
    split.
    + intros i y. rewrite andb_false_r.
      destruct (N.eqb_spec i 0) as [->|Ni0]; [|destruct (N.eqb_spec i 1) as [->|Ni1]; [|destruct (N.eqb_spec i 2) as [->|Ni2]]].
      * change (0 <? 3) with true. lk.
        destruct (N.eqb_spec y pe) as [->|M1]; [simpl_ne; reflexivity|].
        destruct (N.eqb_spec y e) as [->|M2]; [simpl_ne; reflexivity|].
        destruct (N.eqb_spec y ne) as [->|M3]; [simpl_ne; reflexivity|]. simpl_ne. reflexivity.
      * change (1 <? 3) with true. lk.
        destruct (N.eqb_spec y pe) as [->|M1]; [simpl_ne; reflexivity|].
        destruct (N.eqb_spec y e) as [->|M2]; [simpl_ne; reflexivity|].
        destruct (N.eqb_spec y ne) as [->|M3]; [simpl_ne; reflexivity|]. simpl_ne. reflexivity.
      * change (2 <? 3) with true. lk.
        destruct (N.eqb_spec y pe) as [->|M1]; [simpl_ne; rewrite <- Ex, Zx; reflexivity|].
        destruct (N.eqb_spec y e) as [->|M2]; [simpl_ne; exact Ze|].
        destruct (N.eqb_spec y ne) as [->|M3]; [simpl_ne; exact Zn|]. simpl_ne. reflexivity.
      * assert (Hi : (i <? 3) = false) by (clear - Ni0 Ni1 Ni2; apply N.ltb_ge; lia). rewrite Hi.
        rewrite F7, F6, F5, F3, F2, F1.
        rewrite (proj2 (N.eqb_neq i 0) Ni0), (proj2 (N.eqb_neq i 1) Ni1). cbn [andb].
        destruct ((y =? pe) || (y =? e) || (y =? ne)); reflexivity.
    + intros y. rewrite U7, U6, U5, U3, U2, U1.
      destruct (N.eqb_spec y pe) as [->|M1]; [simpl_ne; reflexivity|].
      destruct (N.eqb_spec y e) as [->|M2]; [simpl_ne; reflexivity|].
      destruct (N.eqb_spec y ne) as [->|M3]; [simpl_ne; reflexivity|]. simpl_ne. reflexivity.
  - (* pe glued to x: the 2-unsew frees both *)
    specialize (Hx Nx).
    stepU (@unsew2_stepU unit) Hr F4 U4. rewrite R in F4.
    stepU (@remove_stepU unit) Hr F5 U5. stepU (@remove_stepU unit) Hr F6 U6.
    assert (Hl : step_to w' (beta wk4) (p_remove (unused wk4) ne)).
    { unfold remove_dart_tx in Hr. cbn [run bind rdU wrU] in Hr. destruct (e_dom E (XUnused ne)); [|discriminate Hr]. cbn [run] in Hr.
      injection Hr as <- <-. split.
      - intros i d. unfold beta. rewrite upd_other by discriminate. reflexivity.
      - intros d. unfold p_remove. apply unused_upd_unused. }
    destruct Hl as [F7 U7]. unfold img_eq, fl_eq, p_remove in F7, U7.
    cbn [negb].
    split.
    + intros i y. rewrite andb_true_r.
      destruct (N.eqb_spec i 0) as [->|Ni0]; [|destruct (N.eqb_spec i 1) as [->|Ni1]; [|destruct (N.eqb_spec i 2) as [->|Ni2]]].
      * change (0 <? 3) with true. change (0 =? 2) with false. lk.
        destruct (N.eqb_spec y pe) as [->|M1]; [simpl_ne; reflexivity|].
        destruct (N.eqb_spec y e) as [->|M2]; [simpl_ne; reflexivity|].
        destruct (N.eqb_spec y ne) as [->|M3]; [simpl_ne; reflexivity|]. simpl_ne. reflexivity.
      * change (1 <? 3) with true. change (1 =? 2) with false. lk.
        destruct (N.eqb_spec y pe) as [->|M1]; [simpl_ne; reflexivity|].
        destruct (N.eqb_spec y e) as [->|M2]; [simpl_ne; reflexivity|].
        destruct (N.eqb_spec y ne) as [->|M3]; [simpl_ne; reflexivity|]. simpl_ne. reflexivity.
      * change (2 <? 3) with true. change (2 =? 2) with true. lk.
        destruct (N.eqb_spec y pe) as [->|M1]; [simpl_ne; reflexivity|].
        destruct (N.eqb_spec y e) as [->|M2]; [simpl_ne; exact Ze|].
        destruct (N.eqb_spec y ne) as [->|M3]; [simpl_ne; exact Zn|].
        destruct (N.eqb_spec y x) as [->|M4]; [simpl_ne; reflexivity|]. simpl_ne. reflexivity.
      * assert (Hi : (i <? 3) = false) by (clear - Ni0 Ni1 Ni2; apply N.ltb_ge; lia). rewrite Hi.
        rewrite F7, F6, F5, F4, F3, F2, F1.
        rewrite (proj2 (N.eqb_neq i 0) Ni0), (proj2 (N.eqb_neq i 1) Ni1), (proj2 (N.eqb_neq i 2) Ni2). cbn [andb].
        destruct ((y =? pe) || (y =? e) || (y =? ne)); reflexivity.
    + intros y. rewrite U7, U6, U5, U4, U3, U2, U1.
      destruct (N.eqb_spec y pe) as [->|M1]; [simpl_ne; reflexivity|].
      destruct (N.eqb_spec y e) as [->|M2]; [simpl_ne; reflexivity|].
      destruct (N.eqb_spec y ne) as [->|M3]; [simpl_ne; reflexivity|]. simpl_ne. reflexivity.
Qed.

Lemma unlink2c_stepU {Y} E l (k : prog Y) c w cnt o w1 cnt1 :
  run E (two_unlink_core l ;;; k) c w cnt = (Done o, w1, cnt1) ->
  exists wa cnta, step_to wa (p_unlink2 (beta w) l) (unused w) /\ run E k c wa cnta = (Done o, w1, cnt1).
Proof.
  intros Hr. rewrite run_bind in Hr.
  destruct (run E (two_unlink_core l) c w cnt) as [[[[]|e| |q] wa] cnta] eqn:Es; try discriminate Hr.
  exists wa, cnta. split; [|exact Hr].
  apply run_two_unlink_core in Es. destruct Es as (-> & _). split.
  - intros i d. unfold clr2, p_unlink2. rewrite !beta_upd_beta. reflexivity.
  - intros d. unfold clr2. rewrite !unused_upd_other by (intros; discriminate). reflexivity.
Qed.
Lemma sew1_last E n ks l r c w cnt w1 cnt1 :
  run E (one_sew n ks l r) c w cnt = (Done tt, w1, cnt1) -> step_to w1 (p_link1 (beta w) l r) (unused w).
Proof.
  intros Es.
  destruct (one_sew_topology E n ks l r c w cnt w1 cnt1 Es) as (w2 & Ec & [Hb Hu]).
  apply run_one_link_core in Ec. destruct Ec as (-> & _). split.
  - intros i d. rewrite Hb. unfold set1, p_link1. rewrite !beta_upd_beta. reflexivity.
  - intros d. rewrite Hu. unfold set1. rewrite !unused_upd_other by (intros; discriminate). reflexivity.
Qed.

(** ** the same half-cell when its next edge is glued to q (in the face ... -> p0 -> q -> p1 -> ...): the darts e, ne
    and q disappear and pe takes the place of q in the neighbouring face; nothing else changes *)
Theorem halfcell_to_base_inner E n ks pe e ne c w cnt w' cnt' :
  let q := beta w 2 ne in let p0 := beta w 0 q in let p1 := beta w 1 q in
  NoDup [pe; e; ne; q; p0; p1] -> ~ In 0 [pe; e; ne; q; p0; p1] ->
  beta w 1 pe = e -> beta w 1 e = ne -> beta w 1 ne = pe -> beta w 1 p0 = q -> beta w 2 e = 0 ->
  run E (collapse_halfcell_to_base n ks pe e ne) c w cnt = (Done tt, w', cnt') ->
  (forall i y, beta w' i y =
     if (y =? e) || (y =? ne) || (y =? q) then (if i <? 3 then 0 else beta w i y)
     else if (i =? 1) && (y =? pe) then p1 else if (i =? 0) && (y =? pe) then p0
     else if (i =? 1) && (y =? p0) then pe else if (i =? 0) && (y =? p1) then pe
     else beta w i y) /\
  (forall y, unused w' y = if (y =? e) || (y =? ne) || (y =? q) then true else unused w y).
Proof.
  intros q p0 p1.
  remember (beta w 2 ne) as q' eqn:Eq. subst q. rename q' into q.
  remember (beta w 0 q) as p0' eqn:Ep0. subst p0. rename p0' into p0.
  remember (beta w 1 q) as p1' eqn:Ep1. subst p1. rename p1' into p1.
  intros Hnd Hz B1 B2 B3 B4 Ze Hr.
  assert (Z : pe <> 0 /\ e <> 0 /\ ne <> 0 /\ q <> 0 /\ p0 <> 0 /\ p1 <> 0).
  { cbn [In] in Hz. repeat split; intros Q; apply Hz; rewrite Q; tauto. }
  destruct Z as (Z1 & Z2 & Z3 & Z4 & Z5 & Z6).
  assert (D : (pe <> e /\ pe <> ne /\ pe <> q /\ pe <> p0 /\ pe <> p1) /\ (e <> ne /\ e <> q /\ e <> p0 /\ e <> p1) /\
              (ne <> q /\ ne <> p0 /\ ne <> p1) /\ (q <> p0 /\ q <> p1) /\ p0 <> p1).
  { repeat match goal with Hq : NoDup (_ :: _) |- _ => inversion Hq; clear Hq; subst end.
    cbn [In] in *. repeat split; intros Q; intuition congruence. }
  destruct D as ((Q1 & Q2 & Q3 & Q4 & Q5) & (Q6 & Q7 & Q8 & Q9) & (Q10 & Q11 & Q12) & (Q13 & Q14) & Q15).
  clear Hnd Hz.
  unfold collapse_halfcell_to_base in Hr.
  apply rd_stepY' in Hr. rewrite <- Eq in Hr.
  apply rd_stepY' in Hr. rewrite <- Ep0 in Hr. apply rd_stepY' in Hr. rewrite <- Ep1 in Hr.
  stepU (@unsew1_stepU unit) Hr F1 U1. rewrite B2 in F1.
  stepU (@unsew1_stepU unit) Hr F2 U2.
  assert (V2 : beta wk 1 pe = e) by (lk; auto). rewrite V2 in F2.
  stepU (@unsew1_stepU unit) Hr F3 U3.
  assert (V3 : beta wk0 1 ne = pe) by (lk; auto). rewrite V3 in F3.
  rewrite (proj2 (N.eqb_neq q 0) Z4) in Hr. cbn [negb] in Hr.
  stepU (@unsew1_stepU unit) Hr F4 U4.
  assert (V4 : beta wk1 1 q = p1) by (lk; auto). rewrite V4 in F4.
  stepU (@unsew1_stepU unit) Hr F5 U5.
  assert (V5 : beta wk2 1 p0 = q) by (lk; auto). rewrite V5 in F5.
  stepU (@unlink2c_stepU unit) Hr F6 U6.
  assert (V6 : beta wk3 2 ne = q) by (lk; auto). rewrite V6 in F6.
  stepU (@remove_stepU unit) Hr F7 U7. stepU (@remove_stepU unit) Hr F8 U8. stepU (@remove_stepU unit) Hr F9 U9.
  stepU (@sew1_stepU unit) Hr F10 U10.
  apply sew1_last in Hr. destruct Hr as [F11 U11]. unfold img_eq, fl_eq, p_link1 in F11, U11.
  split.
  - intros i y.
    destruct (N.eqb_spec i 0) as [->|Ni0]; [|destruct (N.eqb_spec i 1) as [->|Ni1]; [|destruct (N.eqb_spec i 2) as [->|Ni2]]].
    + change (0 <? 3) with true. lk.
      destruct (N.eqb_spec y pe) as [->|M1]; [simpl_ne; reflexivity|].
      destruct (N.eqb_spec y e) as [->|M2]; [simpl_ne; reflexivity|].
      destruct (N.eqb_spec y ne) as [->|M3]; [simpl_ne; reflexivity|].
      destruct (N.eqb_spec y q) as [->|M4]; [simpl_ne; reflexivity|].
      destruct (N.eqb_spec y p0) as [->|M5]; [simpl_ne; reflexivity|].
      destruct (N.eqb_spec y p1) as [->|M6]; [simpl_ne; reflexivity|]. simpl_ne. reflexivity.
    + change (1 <? 3) with true. lk.
      destruct (N.eqb_spec y pe) as [->|M1]; [simpl_ne; reflexivity|].
      destruct (N.eqb_spec y e) as [->|M2]; [simpl_ne; reflexivity|].
      destruct (N.eqb_spec y ne) as [->|M3]; [simpl_ne; reflexivity|].
      destruct (N.eqb_spec y q) as [->|M4]; [simpl_ne; reflexivity|].
      destruct (N.eqb_spec y p0) as [->|M5]; [simpl_ne; reflexivity|].
      destruct (N.eqb_spec y p1) as [->|M6]; [simpl_ne; reflexivity|]. simpl_ne. reflexivity.
    + change (2 <? 3) with true. lk.
      destruct (N.eqb_spec y pe) as [->|M1]; [simpl_ne; reflexivity|].
      destruct (N.eqb_spec y e) as [->|M2]; [simpl_ne; exact Ze|].
      destruct (N.eqb_spec y ne) as [->|M3]; [simpl_ne; reflexivity|].
      destruct (N.eqb_spec y q) as [->|M4]; [simpl_ne; reflexivity|].
      destruct (N.eqb_spec y p0) as [->|M5]; [simpl_ne; reflexivity|].
      destruct (N.eqb_spec y p1) as [->|M6]; [simpl_ne; reflexivity|]. simpl_ne. reflexivity.
    + assert (Hi : (i <? 3) = false) by (clear - Ni0 Ni1 Ni2; apply N.ltb_ge; lia). rewrite Hi.
      rewrite F11, F10, F9, F8, F7, F6, F5, F4, F3, F2, F1.
      rewrite (proj2 (N.eqb_neq i 0) Ni0), (proj2 (N.eqb_neq i 1) Ni1), (proj2 (N.eqb_neq i 2) Ni2). cbn [andb].
      destruct ((y =? e) || (y =? ne) || (y =? q)); reflexivity.
  - intros y. rewrite U11, U10, U9, U8, U7, U6, U5, U4, U3, U2, U1.
    destruct (N.eqb_spec y e) as [->|M2]; [simpl_ne; reflexivity|].
    destruct (N.eqb_spec y ne) as [->|M3]; [simpl_ne; reflexivity|].
    destruct (N.eqb_spec y q) as [->|M4]; [simpl_ne; reflexivity|]. simpl_ne. reflexivity.
Qed.

(** ... and the map stays well formed (the clause the code before 667f50e broke: a removed dart kept a neighbour) *)
Theorem halfcell_to_base_boundary_wf E n ks pe e ne c w cnt w' cnt' :
  wf2 n w -> pe < n -> pe <> e -> pe <> ne -> e <> ne -> e <> 0 -> ne <> 0 ->
  beta w 1 pe = e -> beta w 1 e = ne -> beta w 1 ne = pe ->
  beta w 2 ne = 0 -> beta w 2 e = 0 ->
  run E (collapse_halfcell_to_base n ks pe e ne) c w cnt = (Done tt, w', cnt') ->
  wf2 n w'.
Proof.
  intros W Hpn Q1 Q2 Q4 E0 N0 B1 B2 B3 Zn Ze Hr.
  pose proof W as [W1 W2 W3 W4 W5 W6].
  assert (P0 : pe <> 0) by (intros ->; rewrite (W1 1 eq_refl) in B1; congruence).
  assert (Hen : e < n) by (rewrite <- B1; apply W2; [reflexivity|exact Hpn]).
  assert (Hnn : ne < n) by (rewrite <- B2; apply W2; [reflexivity|exact Hen]).
  assert (P0e : beta w 0 e = pe) by (rewrite <- B1; apply W3; [exact Hpn|rewrite B1; exact E0]).
  assert (P0n : beta w 0 ne = e) by (rewrite <- B2; apply W3; [exact Hen|rewrite B2; exact N0]).
  assert (P0p : beta w 0 pe = ne) by (rewrite <- B3; apply W3; [exact Hnn|rewrite B3; exact P0]).
  remember (beta w 2 pe) as x eqn:Ex.
  assert (Gx : x <> 0 -> beta w 2 x = pe /\ x <> pe) by (intros Nx; rewrite Ex; apply W5; [exact Hpn|rewrite <- Ex; exact Nx]).
  assert (Xe : x <> 0 -> x <> e) by (intros Nx ->; destruct (Gx Nx) as [G _]; rewrite Ze in G; congruence).
  assert (Xn : x <> 0 -> x <> ne) by (intros Nx ->; destruct (Gx Nx) as [G _]; rewrite Zn in G; congruence).
  assert (Hnd : NoDup [pe; e; ne; x]).
  { destruct (N.eq_dec x 0) as [Zx|Nx].
    - rewrite Zx. repeat constructor; cbn [In]; intuition congruence.
    - pose proof (Gx Nx) as [_ Xp]. specialize (Xe Nx). specialize (Xn Nx).
      repeat constructor; cbn [In]; intuition congruence. }
  assert (T := halfcell_to_base_boundary E n ks pe e ne c w cnt w' cnt').
  cbv zeta in T. rewrite <- Ex in T.
  destruct (T Hnd P0 E0 N0 B1 B2 B3 Zn Ze (fun Nx => proj1 (Gx Nx)) Hr) as (Hb0 & Hu0). clear T.
  set (three := fun y => (y =? pe) || (y =? e) || (y =? ne)).
  set (cut := fun i y => (i =? 2) && (y =? x) && negb (x =? 0)).
  assert (Hb : forall i y, beta w' i y = if three y then (if i <? 3 then 0 else beta w i y) else if cut i y then 0 else beta w i y)
    by (intros i y; rewrite Hb0; reflexivity).
  assert (Hu : forall y, unused w' y = if three y then true else unused w y) by (intros y; rewrite Hu0; reflexivity).
  clear Hb0 Hu0.
  assert (Three : forall y, three y = true <-> (y = pe \/ y = e \/ y = ne)).
  { intros y. unfold three. rewrite !orb_true_iff, !N.eqb_eq. tauto. }
  assert (Cut : forall i y, cut i y = true <-> (i = 2 /\ y = x /\ x <> 0)).
  { intros i y. unfold cut. rewrite !andb_true_iff, negb_true_iff, !N.eqb_eq, N.eqb_neq. tauto. }
  assert (In1 : forall y, three y = true -> three (beta w 1 y) = true).
  { intros y Hy. apply Three in Hy. apply Three. destruct Hy as [->|[->| ->]]; rewrite ?B1, ?B2, ?B3; tauto. }
  assert (In0 : forall y, three y = true -> three (beta w 0 y) = true).
  { intros y Hy. apply Three in Hy. apply Three. destruct Hy as [->|[->| ->]]; rewrite ?P0e, ?P0n, ?P0p; tauto. }
  assert (Cut1 : forall y, cut 1 y = false) by reflexivity.
  assert (Cut0 : forall y, cut 0 y = false) by reflexivity.
  constructor.
  - intros i Hi. rewrite Hb.
    assert (Q : three 0 = false) by (destruct (three 0) eqn:Q; [apply Three in Q; intuition congruence|reflexivity]).
    rewrite Q. destruct (cut i 0); [reflexivity|apply W1; exact Hi].
  - intros i y Hi Hy. rewrite Hb.
    assert (Zn' : 0 < n) by (apply (N.le_lt_trans _ pe); [apply N.le_0_l|exact Hpn]).
    destruct (three y).
    + destruct (i <? 3); [exact Zn'|apply W2; assumption].
    + destruct (cut i y); [exact Zn'|apply W2; assumption].
  - intros y Hy Hnz. rewrite Hb in Hnz. destruct (three y) eqn:Sy; [change (1 <? 3) with true in Hnz; congruence|].
    rewrite Cut1 in Hnz. rewrite (Hb 1 y), Sy, Cut1. rewrite Hb, Cut0.
    destruct (three (beta w 1 y)) eqn:Sz.
    + apply In0 in Sz. rewrite (W3 y Hy Hnz) in Sz. congruence.
    + apply W3; assumption.
  - intros y Hy Hnz. rewrite Hb in Hnz. destruct (three y) eqn:Sy; [change (0 <? 3) with true in Hnz; congruence|].
    rewrite Cut0 in Hnz. rewrite (Hb 0 y), Sy, Cut0. rewrite Hb, Cut1.
    destruct (three (beta w 0 y)) eqn:Sz.
    + apply In1 in Sz. rewrite (W4 y Hy Hnz) in Sz. congruence.
    + apply W4; assumption.
  - intros y Hy Hnz. rewrite Hb in Hnz. destruct (three y) eqn:Sy; [change (2 <? 3) with true in Hnz; congruence|].
    destruct (cut 2 y) eqn:Cy; [congruence|].
    rewrite (Hb 2 y), Sy, Cy.
    destruct (W5 y Hy Hnz) as (I2 & I3).
    remember (beta w 2 y) as z eqn:Ez.
    assert (Sz : three z = false).
    { destruct (three z) eqn:Q; [|reflexivity]. apply Three in Q. exfalso. destruct Q as [->|[->| ->]].
      - rewrite <- Ex in I2.
        assert (C : cut 2 y = true) by (apply Cut; repeat split; [congruence|intros Zx; rewrite Zx in I2; rewrite <- I2, (W1 2 eq_refl) in Ez; congruence]).
        congruence.
      - rewrite Ze in I2. rewrite <- I2, (W1 2 eq_refl) in Ez. congruence.
      - rewrite Zn in I2. rewrite <- I2, (W1 2 eq_refl) in Ez. congruence. }
    assert (Cz : cut 2 z = false).
    { destruct (cut 2 z) eqn:Q; [|reflexivity]. apply Cut in Q. destruct Q as (_ & -> & Nx). exfalso.
      destruct (Gx Nx) as [G _]. rewrite G in I2.
      assert (C : three y = true) by (apply Three; left; congruence). congruence. }
    rewrite Hb, Sz, Cz. split; assumption.
  - intros y Hy Hux i Hi. rewrite Hu in Hux. rewrite Hb. destruct (three y).
    + assert (Q : (i <? 3) = true) by (apply N.ltb_lt; exact Hi). rewrite Q. reflexivity.
    + destruct (cut i y); [reflexivity|]. apply (W6 y Hy Hux); exact Hi.
Qed.

(** ... and the interior half-cell leaves a well-formed map as well *)
Theorem halfcell_to_base_inner_wf E n ks pe e ne c w cnt w' cnt' :
  let q := beta w 2 ne in let p0 := beta w 0 q in let p1 := beta w 1 q in
  wf2 n w -> pe < n ->
  NoDup [pe; e; ne; q; p0; p1] -> ~ In 0 [pe; e; ne; q; p0; p1] ->
  beta w 1 pe = e -> beta w 1 e = ne -> beta w 1 ne = pe -> beta w 2 e = 0 ->
  run E (collapse_halfcell_to_base n ks pe e ne) c w cnt = (Done tt, w', cnt') ->
  wf2 n w'.
Proof.
  intros q p0 p1 W Hpn Hnd Hz B1 B2 B3 Ze Hr.
  pose proof W as [W1 W2 W3 W4 W5 W6].
  assert (Z : pe <> 0 /\ e <> 0 /\ ne <> 0 /\ q <> 0 /\ p0 <> 0 /\ p1 <> 0).
  { cbn [In] in Hz. repeat split; intros Q; apply Hz; rewrite Q; tauto. }
  destruct Z as (Z1 & Z2 & Z3 & Z4 & Z5 & Z6).
  assert (D : (pe <> e /\ pe <> ne /\ pe <> q /\ pe <> p0 /\ pe <> p1) /\ (e <> ne /\ e <> q /\ e <> p0 /\ e <> p1) /\
              (ne <> q /\ ne <> p0 /\ ne <> p1) /\ (q <> p0 /\ q <> p1) /\ p0 <> p1).
  { clear - Hnd. repeat match goal with Hq : NoDup (_ :: _) |- _ => inversion Hq; clear Hq; subst end.
    cbn [In] in *. repeat split; intros Q; intuition congruence. }
  destruct D as ((Q1 & Q2 & Q3 & Q4 & Q5) & (Q6 & Q7 & Q8 & Q9) & (Q10 & Q11 & Q12) & (Q13 & Q14) & Q15).
  assert (Hen : e < n) by (rewrite <- B1; apply W2; [reflexivity|exact Hpn]).
  assert (Hnn : ne < n) by (rewrite <- B2; apply W2; [reflexivity|exact Hen]).
  assert (Hqn : q < n) by (apply W2; [reflexivity|exact Hnn]).
  assert (H0n : p0 < n) by (apply W2; [reflexivity|exact Hqn]).
  assert (H1n : p1 < n) by (apply W2; [reflexivity|exact Hqn]).
  assert (P0e : beta w 0 e = pe) by (rewrite <- B1; apply W3; [exact Hpn|rewrite B1; exact Z2]).
  assert (P0n : beta w 0 ne = e) by (rewrite <- B2; apply W3; [exact Hen|rewrite B2; exact Z3]).
  assert (P0p : beta w 0 pe = ne) by (rewrite <- B3; apply W3; [exact Hnn|rewrite B3; exact Z1]).
  assert (B4 : beta w 1 p0 = q) by (apply (W4 q Hqn); exact Z5).
  assert (P01 : beta w 0 p1 = q) by (apply (W3 q Hqn); exact Z6).
  assert (G2q : beta w 2 q = ne) by (apply (W5 ne Hnn); exact Z4).
  destruct (halfcell_to_base_inner E n ks pe e ne c w cnt w' cnt' Hnd Hz B1 B2 B3 B4 Ze Hr) as (Hb0 & Hu0).
  fold q p0 p1 in Hb0, Hu0.
  set (three := fun y => (y =? e) || (y =? ne) || (y =? q)).
  assert (Hb : forall i y, beta w' i y =
     if three y then (if i <? 3 then 0 else beta w i y)
     else if (i =? 1) && (y =? pe) then p1 else if (i =? 0) && (y =? pe) then p0
     else if (i =? 1) && (y =? p0) then pe else if (i =? 0) && (y =? p1) then pe
     else beta w i y) by (intros i y; rewrite Hb0; reflexivity).
  assert (Hu : forall y, unused w' y = if three y then true else unused w y) by (intros y; rewrite Hu0; reflexivity).
  clear Hb0 Hu0.
  assert (Three : forall y, three y = true <-> (y = e \/ y = ne \/ y = q)).
  { intros y. unfold three. rewrite !orb_true_iff, !N.eqb_eq. tauto. }
  assert (Out : forall y, three y = false -> y <> e /\ y <> ne /\ y <> q).
  { intros y Hy. repeat split; intros ->; match type of Hy with three ?z = false => assert (Q : three z = true) by (apply Three; tauto) end; congruence. }
  assert (Tpe : three pe = false) by (destruct (three pe) eqn:Q; [apply Three in Q; intuition congruence|reflexivity]).
  assert (Tp0 : three p0 = false) by (destruct (three p0) eqn:Q; [apply Three in Q; intuition congruence|reflexivity]).
  assert (Tp1 : three p1 = false) by (destruct (three p1) eqn:Q; [apply Three in Q; intuition congruence|reflexivity]).
  assert (T0 : three 0 = false) by (destruct (three 0) eqn:Q; [apply Three in Q; intuition congruence|reflexivity]).
  (* images in the new map, dimension by dimension, outside the three removed darts *)
  assert (H1 : forall y, three y = false -> beta w' 1 y = if y =? pe then p1 else if y =? p0 then pe else beta w 1 y).
  { intros y Hy. rewrite Hb, Hy. consts. destruct (y =? pe); [reflexivity|]. destruct (y =? p0); reflexivity. }
  assert (H0 : forall y, three y = false -> beta w' 0 y = if y =? pe then p0 else if y =? p1 then pe else beta w 0 y).
  { intros y Hy. rewrite Hb, Hy. consts. destruct (y =? pe); [reflexivity|]. destruct (y =? p1); reflexivity. }
  assert (H2 : forall y, three y = false -> beta w' 2 y = beta w 2 y).
  { intros y Hy. rewrite Hb, Hy. consts. reflexivity. }
  assert (Hz3 : forall i y, i < 3 -> three y = true -> beta w' i y = 0).
  { intros i y Hi Hy. rewrite Hb, Hy. apply N.ltb_lt in Hi. rewrite Hi. reflexivity. }
  constructor.
  - intros i Hi. rewrite Hb, T0.
    destruct (N.eqb_spec 0 pe) as [Q|_]; [congruence|]. destruct (N.eqb_spec 0 p0) as [Q|_]; [congruence|].
    destruct (N.eqb_spec 0 p1) as [Q|_]; [congruence|]. rewrite !andb_false_r. apply W1; exact Hi.
  - intros i y Hi Hy. rewrite Hb.
    assert (Zn' : 0 < n) by (apply (N.le_lt_trans _ pe); [apply N.le_0_l|exact Hpn]).
    destruct (three y); [destruct (i <? 3); [exact Zn'|apply W2; assumption]|].
    destruct ((i =? 1) && (y =? pe)); [exact H1n|]. destruct ((i =? 0) && (y =? pe)); [exact H0n|].
    destruct ((i =? 1) && (y =? p0)); [exact Hpn|]. destruct ((i =? 0) && (y =? p1)); [exact Hpn|]. apply W2; assumption.
  - intros y Hy Hnz. destruct (three y) eqn:Sy; [rewrite (Hz3 1 y eq_refl Sy) in Hnz; congruence|].
    destruct (Out y Sy) as (O1 & O2 & O3).
    rewrite (H1 y Sy) in Hnz |- *.
    destruct (N.eqb_spec y pe) as [->|Np]; [rewrite (H0 p1 Tp1); simpl_ne; reflexivity|].
    destruct (N.eqb_spec y p0) as [->|N0]; [rewrite (H0 pe Tpe); simpl_ne; reflexivity|].
    pose proof (W3 y Hy Hnz) as I.
    remember (beta w 1 y) as z eqn:Ez.
    assert (Sz : three z = false).
    { destruct (three z) eqn:Q; [|reflexivity]. apply Three in Q. exfalso.
      destruct Q as [->|[->| ->]]; [rewrite P0e in I|rewrite P0n in I|fold p0 in I]; congruence. }
    rewrite (H0 z Sz).
    destruct (N.eqb_spec z pe) as [->|Zp]; [rewrite P0p in I; congruence|].
    destruct (N.eqb_spec z p1) as [->|Z1']; [rewrite P01 in I; congruence|]. exact I.
  - intros y Hy Hnz. destruct (three y) eqn:Sy; [rewrite (Hz3 0 y eq_refl Sy) in Hnz; congruence|].
    destruct (Out y Sy) as (O1 & O2 & O3).
    rewrite (H0 y Sy) in Hnz |- *.
    destruct (N.eqb_spec y pe) as [->|Np]; [rewrite (H1 p0 Tp0); simpl_ne; reflexivity|].
    destruct (N.eqb_spec y p1) as [->|N1]; [rewrite (H1 pe Tpe); simpl_ne; reflexivity|].
    pose proof (W4 y Hy Hnz) as I.
    remember (beta w 0 y) as z eqn:Ez.
    assert (Sz : three z = false).
    { destruct (three z) eqn:Q; [|reflexivity]. apply Three in Q. exfalso.
      destruct Q as [->|[->| ->]]; [rewrite B2 in I|rewrite B3 in I|fold p1 in I]; congruence. }
    rewrite (H1 z Sz).
    destruct (N.eqb_spec z pe) as [->|Zp]; [rewrite B1 in I; congruence|].
    destruct (N.eqb_spec z p0) as [->|Z0']; [rewrite B4 in I; congruence|]. exact I.
  - intros y Hy Hnz. destruct (three y) eqn:Sy; [rewrite (Hz3 2 y eq_refl Sy) in Hnz; congruence|].
    destruct (Out y Sy) as (O1 & O2 & O3).
    rewrite (H2 y Sy) in Hnz |- *.
    destruct (W5 y Hy Hnz) as (I2 & I3).
    remember (beta w 2 y) as z eqn:Ez.
    assert (Sz : three z = false).
    { destruct (three z) eqn:Q; [|reflexivity]. apply Three in Q. exfalso.
      destruct Q as [->|[->| ->]].
      - rewrite Ze in I2. rewrite <- I2, (W1 2 eq_refl) in Ez. congruence.
      - fold q in I2. congruence.
      - rewrite G2q in I2. congruence. }
    rewrite (H2 z Sz). split; assumption.
  - intros y Hy Hux i Hi. rewrite Hu in Hux. destruct (three y) eqn:Sy; [apply Hz3; assumption|].
    pose proof (W6 y Hy Hux) as Fr. rewrite Hb, Sy.
    destruct (N.eqb_spec y pe) as [->|Np]; [rewrite (Fr 1 eq_refl) in B1; congruence|].
    destruct (N.eqb_spec y p0) as [->|N0]; [rewrite (Fr 1 eq_refl) in B4; congruence|].
    destruct (N.eqb_spec y p1) as [->|N1]; [rewrite (Fr 0 eq_refl) in P01; congruence|].
    rewrite !andb_false_r. apply Fr; exact Hi.
Qed.

(** ** collapse to the midpoint, one half-cell: the triangle l -> a -> b (l already 2-free) whose two other sides are
    glued to A2 and B2 disappears and B2 | A2 are glued; nothing else changes *)
Theorem halfcell_to_midpoint_topology E n ks l a b c w cnt w' cnt' :
  let A2 := beta w 2 a in let B2 := beta w 2 b in
  NoDup [l; a; b; A2; B2] -> ~ In 0 [l; a; b; A2; B2] ->
  beta w 1 l = a -> beta w 1 a = b -> beta w 1 b = l -> beta w 2 l = 0 ->
  run E (collapse_halfcell_to_midpoint n ks b l a) c w cnt = (Done tt, w', cnt') ->
  (forall i y, beta w' i y =
     if (y =? l) || (y =? a) || (y =? b) then (if i <? 3 then 0 else beta w i y)
     else if i =? 2 then (if y =? B2 then A2 else if y =? A2 then B2 else beta w 2 y)
     else beta w i y) /\
  (forall y, unused w' y = if (y =? l) || (y =? a) || (y =? b) then true else unused w y).
Proof.
  intros A2 B2.
  remember (beta w 2 a) as A2' eqn:EA. subst A2. rename A2' into A2.
  remember (beta w 2 b) as B2' eqn:EB. subst B2. rename B2' into B2.
  intros Hnd Hz B1 B2' B3 Zl Hr.
  assert (Z : l <> 0 /\ a <> 0 /\ b <> 0 /\ A2 <> 0 /\ B2 <> 0).
  { cbn [In] in Hz. repeat split; intros Q; apply Hz; rewrite Q; tauto. }
  destruct Z as (Z1 & Z2 & Z3 & Z4 & Z5).
  assert (D : (l <> a /\ l <> b /\ l <> A2 /\ l <> B2) /\ (a <> b /\ a <> A2 /\ a <> B2) /\ (b <> A2 /\ b <> B2) /\ A2 <> B2).
  { clear - Hnd. repeat match goal with Hq : NoDup (_ :: _) |- _ => inversion Hq; clear Hq; subst end.
    cbn [In] in *. repeat split; intros Q; intuition congruence. }
  destruct D as ((Q1 & Q2 & Q3 & Q4) & (Q5 & Q6 & Q7) & (Q8 & Q9) & Q10).
  clear Hnd Hz.
  unfold collapse_halfcell_to_midpoint in Hr.
  stepU (@unsew1_stepU unit) Hr F1 U1. rewrite B1 in F1.
  stepU (@unsew1_stepU unit) Hr F2 U2.
  assert (V2 : beta wk 1 a = b) by (lk; auto). rewrite V2 in F2.
  stepU (@unsew1_stepU unit) Hr F3 U3.
  assert (V3 : beta wk0 1 b = l) by (lk; auto). rewrite V3 in F3.
  apply rd_stepY' in Hr. apply rd_stepY' in Hr.
  assert (R1 : beta wk1 2 b = B2) by (lk; auto).
  assert (R2 : beta wk1 2 a = A2) by (lk; auto).
  rewrite R1, R2 in Hr.
  stepU (@unsew2_stepU unit) Hr F4 U4. rewrite R1 in F4.
  stepU (@unsew2_stepU unit) Hr F5 U5.
  assert (V5 : beta wk2 2 a = A2) by (lk; auto). rewrite V5 in F5.
  stepU (@sew2_stepU unit) Hr F6 U6.
  stepU (@remove_stepU unit) Hr F7 U7. stepU (@remove_stepU unit) Hr F8 U8.
  assert (Hl : step_to w' (beta wk6) (p_remove (unused wk6) a)).
  { unfold remove_dart_tx in Hr. cbn [run bind rdU wrU] in Hr. destruct (e_dom E (XUnused a)); [|discriminate Hr]. cbn [run] in Hr.
    injection Hr as <- <-. split.
    - intros i d. unfold beta. rewrite upd_other by discriminate. reflexivity.
    - intros d. unfold p_remove. apply unused_upd_unused. }
  destruct Hl as [F9 U9]. unfold img_eq, fl_eq, p_remove in F9, U9.
  split.
  - intros i y.
    destruct (N.eqb_spec i 0) as [->|Ni0]; [|destruct (N.eqb_spec i 1) as [->|Ni1]; [|destruct (N.eqb_spec i 2) as [->|Ni2]]].
    + change (0 <? 3) with true. change (0 =? 2) with false. lk.
      destruct (N.eqb_spec y l) as [->|M1]; [simpl_ne; reflexivity|].
      destruct (N.eqb_spec y a) as [->|M2]; [simpl_ne; reflexivity|].
      destruct (N.eqb_spec y b) as [->|M3]; [simpl_ne; reflexivity|]. simpl_ne. reflexivity.
    + change (1 <? 3) with true. change (1 =? 2) with false. lk.
      destruct (N.eqb_spec y l) as [->|M1]; [simpl_ne; reflexivity|].
      destruct (N.eqb_spec y a) as [->|M2]; [simpl_ne; reflexivity|].
      destruct (N.eqb_spec y b) as [->|M3]; [simpl_ne; reflexivity|]. simpl_ne. reflexivity.
    + change (2 <? 3) with true. change (2 =? 2) with true. lk.
      destruct (N.eqb_spec y l) as [->|M1]; [simpl_ne; exact Zl|].
      destruct (N.eqb_spec y a) as [->|M2]; [simpl_ne; reflexivity|].
      destruct (N.eqb_spec y b) as [->|M3]; [simpl_ne; reflexivity|].
      destruct (N.eqb_spec y B2) as [->|M4]; [simpl_ne; reflexivity|].
      destruct (N.eqb_spec y A2) as [->|M5]; [simpl_ne; reflexivity|]. simpl_ne. reflexivity.
    + assert (Hi : (i <? 3) = false) by (clear - Ni0 Ni1 Ni2; apply N.ltb_ge; lia). rewrite Hi.
      rewrite F9, F8, F7, F6, F5, F4, F3, F2, F1.
      rewrite (proj2 (N.eqb_neq i 0) Ni0), (proj2 (N.eqb_neq i 1) Ni1), (proj2 (N.eqb_neq i 2) Ni2). cbn [andb].
      destruct ((y =? l) || (y =? a) || (y =? b)); reflexivity.
  - intros y. rewrite U9, U8, U7, U6, U5, U4, U3, U2, U1.
    destruct (N.eqb_spec y l) as [->|M1]; [simpl_ne; reflexivity|].
    destruct (N.eqb_spec y a) as [->|M2]; [simpl_ne; reflexivity|].
    destruct (N.eqb_spec y b) as [->|M3]; [simpl_ne; reflexivity|]. simpl_ne. reflexivity.
Qed.

Theorem halfcell_to_midpoint_wf E n ks l a b c w cnt w' cnt' :
  let A2 := beta w 2 a in let B2 := beta w 2 b in
  wf2 n w -> l < n ->
  NoDup [l; a; b; A2; B2] -> ~ In 0 [l; a; b; A2; B2] ->
  beta w 1 l = a -> beta w 1 a = b -> beta w 1 b = l -> beta w 2 l = 0 ->
  run E (collapse_halfcell_to_midpoint n ks b l a) c w cnt = (Done tt, w', cnt') ->
  wf2 n w'.
Proof.
  intros A2 B2 W Hln Hnd Hz B1 B2' B3 Zl Hr.
  pose proof W as [W1 W2 W3 W4 W5 W6].
  assert (Z : l <> 0 /\ a <> 0 /\ b <> 0 /\ A2 <> 0 /\ B2 <> 0).
  { cbn [In] in Hz. repeat split; intros Q; apply Hz; rewrite Q; tauto. }
  destruct Z as (Z1 & Z2 & Z3 & Z4 & Z5).
  assert (D : (l <> a /\ l <> b /\ l <> A2 /\ l <> B2) /\ (a <> b /\ a <> A2 /\ a <> B2) /\ (b <> A2 /\ b <> B2) /\ A2 <> B2).
  { clear - Hnd. repeat match goal with Hq : NoDup (_ :: _) |- _ => inversion Hq; clear Hq; subst end.
    cbn [In] in *. repeat split; intros Q; intuition congruence. }
  destruct D as ((Q1 & Q2 & Q3 & Q4) & (Q5 & Q6 & Q7) & (Q8 & Q9) & Q10).
  assert (Han : a < n) by (rewrite <- B1; apply W2; [reflexivity|exact Hln]).
  assert (Hbn : b < n) by (rewrite <- B2'; apply W2; [reflexivity|exact Han]).
  assert (HAn : A2 < n) by (apply W2; [reflexivity|exact Han]).
  assert (HBn : B2 < n) by (apply W2; [reflexivity|exact Hbn]).
  assert (P0a : beta w 0 a = l) by (rewrite <- B1; apply W3; [exact Hln|rewrite B1; exact Z2]).
  assert (P0b : beta w 0 b = a) by (rewrite <- B2'; apply W3; [exact Han|rewrite B2'; exact Z3]).
  assert (P0l : beta w 0 l = b) by (rewrite <- B3; apply W3; [exact Hbn|rewrite B3; exact Z1]).
  assert (G2A : beta w 2 A2 = a) by (apply (W5 a Han); exact Z4).
  assert (G2B : beta w 2 B2 = b) by (apply (W5 b Hbn); exact Z5).
  destruct (halfcell_to_midpoint_topology E n ks l a b c w cnt w' cnt' Hnd Hz B1 B2' B3 Zl Hr) as (Hb0 & Hu0).
  fold A2 B2 in Hb0, Hu0.
  set (three := fun y => (y =? l) || (y =? a) || (y =? b)).
  assert (Hb : forall i y, beta w' i y =
     if three y then (if i <? 3 then 0 else beta w i y)
     else if i =? 2 then (if y =? B2 then A2 else if y =? A2 then B2 else beta w 2 y)
     else beta w i y) by (intros i y; rewrite Hb0; reflexivity).
  assert (Hu : forall y, unused w' y = if three y then true else unused w y) by (intros y; rewrite Hu0; reflexivity).
  clear Hb0 Hu0.
  assert (Three : forall y, three y = true <-> (y = l \/ y = a \/ y = b)).
  { intros y. unfold three. rewrite !orb_true_iff, !N.eqb_eq. tauto. }
  assert (In1 : forall y, three y = true -> three (beta w 1 y) = true).
  { intros y Hy. apply Three in Hy. apply Three. destruct Hy as [->|[->| ->]]; rewrite ?B1, ?B2', ?B3; tauto. }
  assert (In0 : forall y, three y = true -> three (beta w 0 y) = true).
  { intros y Hy. apply Three in Hy. apply Three. destruct Hy as [->|[->| ->]]; rewrite ?P0a, ?P0b, ?P0l; tauto. }
  assert (TA : three A2 = false) by (destruct (three A2) eqn:Q; [apply Three in Q; intuition congruence|reflexivity]).
  assert (TB : three B2 = false) by (destruct (three B2) eqn:Q; [apply Three in Q; intuition congruence|reflexivity]).
  assert (T0 : three 0 = false) by (destruct (three 0) eqn:Q; [apply Three in Q; intuition congruence|reflexivity]).
  constructor.
  - intros i Hi. rewrite Hb, T0. destruct (i =? 2) eqn:E2; [|apply W1; exact Hi].
    destruct (N.eqb_spec 0 B2); [congruence|]. destruct (N.eqb_spec 0 A2); [congruence|]. apply W1; reflexivity.
  - intros i y Hi Hy. rewrite Hb.
    assert (Zn' : 0 < n) by (apply (N.le_lt_trans _ l); [apply N.le_0_l|exact Hln]).
    destruct (three y); [destruct (i <? 3); [exact Zn'|apply W2; assumption]|].
    destruct (i =? 2); [|apply W2; assumption].
    destruct (y =? B2); [exact HAn|]. destruct (y =? A2); [exact HBn|]. apply W2; [reflexivity|exact Hy].
  - intros y Hy Hnz. rewrite Hb in Hnz. destruct (three y) eqn:Sy; [change (1 <? 3) with true in Hnz; congruence|].
    change (1 =? 2) with false in Hnz. cbv iota in Hnz.
    rewrite (Hb 1 y), Sy. change (1 =? 2) with false. cbv iota.
    rewrite Hb. change (0 =? 2) with false.
    destruct (three (beta w 1 y)) eqn:Sz.
    + apply In0 in Sz. rewrite (W3 y Hy Hnz) in Sz. congruence.
    + cbv iota. apply W3; assumption.
  - intros y Hy Hnz. rewrite Hb in Hnz. destruct (three y) eqn:Sy; [change (0 <? 3) with true in Hnz; congruence|].
    change (0 =? 2) with false in Hnz. cbv iota in Hnz.
    rewrite (Hb 0 y), Sy. change (0 =? 2) with false. cbv iota.
    rewrite Hb. change (1 =? 2) with false.
    destruct (three (beta w 0 y)) eqn:Sz.
    + apply In1 in Sz. rewrite (W4 y Hy Hnz) in Sz. congruence.
    + cbv iota. apply W4; assumption.
  - intros y Hy Hnz. rewrite Hb in Hnz. destruct (three y) eqn:Sy; [change (2 <? 3) with true in Hnz; congruence|].
    change (2 =? 2) with true in Hnz. cbv iota in Hnz.
    rewrite (Hb 2 y), Sy. change (2 =? 2) with true. cbv iota.
    destruct (N.eqb_spec y B2) as [->|NB].
    { rewrite Hb, TA. change (2 =? 2) with true. cbv iota. simpl_ne. split; [reflexivity|congruence]. }
    destruct (N.eqb_spec y A2) as [->|NA].
    { rewrite Hb, TB. change (2 =? 2) with true. cbv iota. simpl_ne. split; [reflexivity|congruence]. }
    destruct (W5 y Hy Hnz) as (I2 & I3).
    remember (beta w 2 y) as z eqn:Ez.
    assert (Sz : three z = false).
    { destruct (three z) eqn:Q; [|reflexivity]. apply Three in Q. exfalso. destruct Q as [->|[->| ->]].
      - rewrite Zl in I2. rewrite <- I2, (W1 2 eq_refl) in Ez. congruence.
      - fold A2 in I2. congruence.
      - fold B2 in I2. congruence. }
    assert (zB : z <> B2) by (intros Q; rewrite Q, G2B in I2; rewrite <- I2 in Sy; assert (three b = true) by (apply Three; tauto); congruence).
    assert (zA : z <> A2) by (intros Q; rewrite Q, G2A in I2; rewrite <- I2 in Sy; assert (three a = true) by (apply Three; tauto); congruence).
    rewrite Hb, Sz. change (2 =? 2) with true. cbv iota.
    rewrite (proj2 (N.eqb_neq z B2) zB), (proj2 (N.eqb_neq z A2) zA). split; assumption.
  - intros y Hy Hux i Hi. rewrite Hu in Hux. rewrite Hb. destruct (three y) eqn:Sy.
    + assert (Q : (i <? 3) = true) by (apply N.ltb_lt; exact Hi). rewrite Q. reflexivity.
    + pose proof (W6 y Hy Hux) as Fr.
      destruct (i =? 2) eqn:E2; [|apply Fr; exact Hi].
      destruct (N.eqb_spec y B2) as [->|NB]; [rewrite (Fr 2 eq_refl) in G2B; congruence|].
      destruct (N.eqb_spec y A2) as [->|NA]; [rewrite (Fr 2 eq_refl) in G2A; congruence|].
      apply Fr. reflexivity.
Qed.

End CollapseTopo.
