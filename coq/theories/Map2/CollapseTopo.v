(** * C15, edge collapse (midpoint variant): the two triangles of the edge disappear and their outer neighbours are glued
    pairwise.  Exact images and removal flags after a collapse that terminates normally, on every store. *)
From Coq Require Import List NArith Bool Lia.
From HC Require Import Base.Closure Stm.Prog Stm.ProgFacts Stm.Atomic Map2.Ops2 Map2.State2 Map2.Wf2 Map2.Wf2Proofs
  Map2.Orbit2 Map2.SewTopo Map2.SewData Map2.Kern2 Map2.SwapTopo Map2.FanTopo.
Import ListNotations.
Open Scope N_scope.
Arguments N.eqb : simpl never.

Section CollapseTopo.
Context `{Sig}.

Definition p_unlink2 (f : img) (l : N) : img :=
  fun i d => if (i =? 2) && (d =? f 2 l) then 0 else if (i =? 2) && (d =? l) then 0 else f i d.
Definition flags := N -> bool.
Definition fl_eq (u v : flags) : Prop := forall d, u d = v d.
Definition p_remove (u : flags) (x : N) : flags := fun d => if d =? x then true else u d.

(* one step: images and removal flags of the resulting store *)
Definition step_to (wa : store) (f : img) (u : flags) : Prop := img_eq (beta wa) f /\ fl_eq (unused wa) u.

Lemma sew1_stepU {Y} E n ks l r (k : prog Y) c w cnt o w1 cnt1 :
  run E (one_sew n ks l r ;;; k) c w cnt = (Done o, w1, cnt1) ->
  exists wa cnta, step_to wa (p_link1 (beta w) l r) (unused w) /\ run E k c wa cnta = (Done o, w1, cnt1).
Proof.
  intros Hr. rewrite run_bind in Hr.
  destruct (run E (one_sew n ks l r) c w cnt) as [[[[]|e| |q] wa] cnta] eqn:Es; try discriminate Hr.
  exists wa, cnta. split; [|exact Hr].
  destruct (one_sew_topology E n ks l r c w cnt wa cnta Es) as (w2 & Ec & [Hb Hu]).
  apply run_one_link_core in Ec. destruct Ec as (-> & _). split.
  - intros i d. rewrite Hb. unfold set1, p_link1. rewrite !beta_upd_beta. reflexivity.
  - intros d. rewrite Hu. unfold set1. rewrite !unused_upd_other by (intros; discriminate). reflexivity.
Qed.
Lemma unsew1_stepU {Y} E n ks l (k : prog Y) c w cnt o w1 cnt1 :
  run E (one_unsew n ks l ;;; k) c w cnt = (Done o, w1, cnt1) ->
  exists wa cnta, step_to wa (p_unlink1 (beta w) l) (unused w) /\ run E k c wa cnta = (Done o, w1, cnt1).
Proof.
  intros Hr. rewrite run_bind in Hr.
  destruct (run E (one_unsew n ks l) c w cnt) as [[[[]|e| |q] wa] cnta] eqn:Es; try discriminate Hr.
  exists wa, cnta. split; [|exact Hr].
  destruct (one_unsew_topology E n ks l c w cnt wa cnta Es) as (w2 & Ec & [Hb Hu]).
  apply run_one_unlink_core in Ec. destruct Ec as (-> & _). split.
  - intros i d. rewrite Hb. unfold clr1, p_unlink1. rewrite !beta_upd_beta. reflexivity.
  - intros d. rewrite Hu. unfold clr1. rewrite !unused_upd_other by (intros; discriminate). reflexivity.
Qed.
Lemma sew2_stepU {Y} E n ks l r (k : prog Y) c w cnt o w1 cnt1 :
  run E (two_sew n ks l r ;;; k) c w cnt = (Done o, w1, cnt1) ->
  exists wa cnta, step_to wa (p_link2 (beta w) l r) (unused w) /\ run E k c wa cnta = (Done o, w1, cnt1).
Proof.
  intros Hr. rewrite run_bind in Hr.
  destruct (run E (two_sew n ks l r) c w cnt) as [[[[]|e| |q] wa] cnta] eqn:Es; try discriminate Hr.
  exists wa, cnta. split; [|exact Hr].
  destruct (two_sew_topology E n ks l r c w cnt wa cnta Es) as (w2 & Ec & [Hb Hu]).
  apply run_two_link_core in Ec. destruct Ec as (-> & _). split.
  - intros i d. rewrite Hb. unfold set2, p_link2. rewrite !beta_upd_beta. reflexivity.
  - intros d. rewrite Hu. unfold set2. rewrite !unused_upd_other by (intros; discriminate). reflexivity.
Qed.
Lemma unsew2_stepU {Y} E n ks l (k : prog Y) c w cnt o w1 cnt1 :
  run E (two_unsew n ks l ;;; k) c w cnt = (Done o, w1, cnt1) ->
  exists wa cnta, step_to wa (p_unlink2 (beta w) l) (unused w) /\ run E k c wa cnta = (Done o, w1, cnt1).
Proof.
  intros Hr. rewrite run_bind in Hr.
  destruct (run E (two_unsew n ks l) c w cnt) as [[[[]|e| |q] wa] cnta] eqn:Es; try discriminate Hr.
  exists wa, cnta. split; [|exact Hr].
  destruct (two_unsew_topology E n ks l c w cnt wa cnta Es) as (w2 & Ec & [Hb Hu]).
  apply run_two_unlink_core in Ec. destruct Ec as (-> & _). split.
  - intros i d. rewrite Hb. unfold clr2, p_unlink2. rewrite !beta_upd_beta. reflexivity.
  - intros d. rewrite Hu. unfold clr2. rewrite !unused_upd_other by (intros; discriminate). reflexivity.
Qed.
Lemma remove_stepU {Y} E x (k : prog Y) c w cnt o w1 cnt1 :
  run E (remove_dart_tx x ;;; k) c w cnt = (Done o, w1, cnt1) ->
  exists wa cnta, step_to wa (beta w) (p_remove (unused w) x) /\ run E k c wa cnta = (Done o, w1, cnt1).
Proof.
  unfold remove_dart_tx. cbn [run bind rdU wrU]. destruct (e_dom E (XUnused x)); [|discriminate]. cbn [run].
  intros Hr. eexists _, _. split; [|exact Hr]. split.
  - intros i d. unfold beta. rewrite upd_other by discriminate. reflexivity.
  - intros d. unfold p_remove. apply unused_upd_unused.
Qed.

Ltac simpl_ne := repeat match goal with
  | Hne : ?x <> ?y |- context [?x =? ?y] => rewrite (proj2 (N.eqb_neq x y) Hne)
  | Hne : ?y <> ?x |- context [?x =? ?y] => rewrite (proj2 (N.eqb_neq x y) (not_eq_sym Hne))
  end; rewrite ?N.eqb_refl; cbn [andb orb negb].
Ltac consts := change (1 =? 0) with false; change (0 =? 1) with false; change (1 =? 1) with true;
  change (0 =? 0) with true; change (2 =? 0) with false; change (2 =? 1) with false; change (0 =? 2) with false;
  change (1 =? 2) with false; change (2 =? 2) with true; cbn [andb].
Ltac lk := repeat (match goal with
  | Hx : forall i d, beta ?s i d = _ |- context [beta ?s _ _] => rewrite Hx
  end; consts; simpl_ne).
Ltac stepU L Hr F U :=
  apply L in Hr; let wk := fresh "wk" in let ck := fresh "ck" in
  destruct Hr as (wk & ck & [F U] & Hr);
  unfold img_eq, fl_eq, p_link1, p_link2, p_unlink1, p_unlink2, p_remove in F, U.

Lemma rd_stepY' {Y} E i d (k : N -> prog Y) c w cnt o w1 cnt1 :
  run E (x <- rdB i d ;; k x) c w cnt = (Done o, w1, cnt1) -> run E (k (beta w i d)) c w cnt = (Done o, w1, cnt1).
Proof. cbn [run bind rdB]. destruct (e_dom E (XBeta i d)); [auto|discriminate]. Qed.

(** interior edge (l | r) between the triangles l -> a -> b and r -> c0 -> d, whose four other sides are glued to
    A2, B2, C2, D2: after the collapse to the midpoint the six darts of the two triangles are removed (all images null,
    flagged), B2 | A2 and D2 | C2 are glued, everything else is as it was *)
Theorem collapse_midpoint_topology E n ks l c w cnt vid w' cnt' :
  let a := beta w 1 l in let b := beta w 0 l in let r := beta w 2 l in
  let c0 := beta w 1 r in let d := beta w 0 r in
  let A2 := beta w 2 a in let B2 := beta w 2 b in let C2 := beta w 2 c0 in let D2 := beta w 2 d in
  NoDup [l; a; b; r; c0; d; A2; B2; C2; D2] -> ~ In 0 [l; a; b; r; c0; d; A2; B2; C2; D2] ->
  beta w 1 a = b -> beta w 1 b = l -> beta w 1 c0 = d -> beta w 1 d = r -> beta w 2 r = l ->
  run E (collapse_edge_to_midpoint n ks b l a d r c0) c w cnt = (Done vid, w', cnt') ->
  (forall i x, beta w' i x =
     if (x =? l) || (x =? a) || (x =? b) || (x =? r) || (x =? c0) || (x =? d) then (if i <? 3 then 0 else beta w i x)
     else if i =? 2 then (if x =? B2 then A2 else if x =? A2 then B2 else if x =? D2 then C2 else if x =? C2 then D2 else beta w 2 x)
     else beta w i x) /\
  (forall x, unused w' x = if (x =? l) || (x =? a) || (x =? b) || (x =? r) || (x =? c0) || (x =? d) then true else unused w x).
Proof.
  intros a b r c0 d A2 B2 C2 D2.
  remember (beta w 1 l) as a' eqn:Ea. subst a. rename a' into a.
  remember (beta w 0 l) as b' eqn:Eb. subst b. rename b' into b.
  remember (beta w 2 l) as r' eqn:Er. subst r. rename r' into r.
  remember (beta w 1 r) as c' eqn:Ec. subst c0. rename c' into c0.
  remember (beta w 0 r) as d' eqn:Ed. subst d. rename d' into d.
  remember (beta w 2 a) as A' eqn:EA. subst A2. rename A' into A2.
  remember (beta w 2 b) as B' eqn:EB. subst B2. rename B' into B2.
  remember (beta w 2 c0) as C' eqn:EC. subst C2. rename C' into C2.
  remember (beta w 2 d) as D' eqn:ED. subst D2. rename D' into D2.
  intros Hnd Hnz Bab Bbl Bcd Bdr Brl Hr.
  assert (D : l <> a /\ l <> b /\ l <> r /\ l <> c0 /\ l <> d /\ l <> A2 /\ l <> B2 /\ l <> C2 /\ l <> D2 /\ a <> b /\ a <> r /\ a <> c0 /\ a <> d /\ a <> A2 /\ a <> B2 /\ a <> C2 /\ a <> D2 /\ b <> r /\ b <> c0 /\ b <> d /\ b <> A2 /\ b <> B2 /\ b <> C2 /\ b <> D2 /\ r <> c0 /\ r <> d /\ r <> A2 /\ r <> B2 /\ r <> C2 /\ r <> D2 /\ c0 <> d /\ c0 <> A2 /\ c0 <> B2 /\ c0 <> C2 /\ c0 <> D2 /\ d <> A2 /\ d <> B2 /\ d <> C2 /\ d <> D2 /\ A2 <> B2 /\ A2 <> C2 /\ A2 <> D2 /\ B2 <> C2 /\ B2 <> D2 /\ C2 <> D2).
  { repeat match goal with Hx : NoDup (_ :: _) |- _ => inversion Hx; clear Hx; subst end.
    cbn [In] in *. repeat split; intros Q; intuition congruence. }
  destruct D as (Q0 & Q1 & Q2 & Q3 & Q4 & Q5 & Q6 & Q7 & Q8 & Q9 & Q10 & Q11 & Q12 & Q13 & Q14 & Q15 & Q16 & Q17 & Q18 & Q19 & Q20 & Q21 & Q22 & Q23 & Q24 & Q25 & Q26 & Q27 & Q28 & Q29 & Q30 & Q31 & Q32 & Q33 & Q34 & Q35 & Q36 & Q37 & Q38 & Q39 & Q40 & Q41 & Q42 & Q43 & Q44).
  assert (Hr0 : r <> 0) by (intros Z; apply Hnz; do 3 right; left; auto).
  assert (HB0 : B2 <> 0) by (intros Z; apply Hnz; do 7 right; left; auto).
  unfold collapse_edge_to_midpoint in Hr.
  destruct (N.eqb_spec r 0) as [Z|_]; [contradiction|]. cbn [negb] in Hr.
  unfold collapse_halfcell_to_midpoint in Hr.
  (* right triangle *)
  rewrite bind_assoc in Hr. stepU (@unsew2_stepU N) Hr F0 U0. rewrite Brl in F0.
  rewrite bind_assoc in Hr. stepU (@unsew1_stepU N) Hr F1 U1.
  assert (V1 : beta wk 1 r = c0) by (lk; auto). rewrite V1 in F1.
  rewrite bind_assoc in Hr. stepU (@unsew1_stepU N) Hr F2 U2.
  assert (V2 : beta wk0 1 c0 = d) by (lk; auto). rewrite V2 in F2.
  rewrite bind_assoc in Hr. stepU (@unsew1_stepU N) Hr F3 U3.
  assert (V3 : beta wk1 1 d = r) by (lk; auto). rewrite V3 in F3.
  rewrite bind_assoc in Hr. apply rd_stepY' in Hr. rewrite bind_assoc in Hr. apply rd_stepY' in Hr.
  assert (R1 : beta wk2 2 d = D2) by (lk; auto). assert (R2 : beta wk2 2 c0 = C2) by (lk; auto). rewrite R1, R2 in Hr.
  rewrite bind_assoc in Hr. stepU (@unsew2_stepU N) Hr F4 U4. rewrite R1 in F4.
  rewrite bind_assoc in Hr. stepU (@unsew2_stepU N) Hr F5 U5.
  assert (V5 : beta wk3 2 c0 = C2) by (lk; auto). rewrite V5 in F5.
  rewrite bind_assoc in Hr. stepU (@sew2_stepU N) Hr F6 U6.
  rewrite bind_assoc in Hr. stepU (@remove_stepU N) Hr F7 U7.
  rewrite bind_assoc in Hr. stepU (@remove_stepU N) Hr F8 U8.
  stepU (@remove_stepU N) Hr F9 U9.
  (* left triangle *)
  apply rd_stepY' in Hr.
  assert (R3 : beta wk8 2 b = B2) by (lk; auto). rewrite R3 in Hr.
  rewrite bind_assoc in Hr. stepU (@unsew1_stepU N) Hr F10 U10.
  assert (V10 : beta wk8 1 l = a) by (lk; auto). rewrite V10 in F10.
  rewrite bind_assoc in Hr. stepU (@unsew1_stepU N) Hr F11 U11.
  assert (V11 : beta wk9 1 a = b) by (lk; auto). rewrite V11 in F11.
  rewrite bind_assoc in Hr. stepU (@unsew1_stepU N) Hr F12 U12.
  assert (V12 : beta wk10 1 b = l) by (lk; auto). rewrite V12 in F12.
  rewrite bind_assoc in Hr. apply rd_stepY' in Hr. rewrite bind_assoc in Hr. apply rd_stepY' in Hr.
  assert (R4 : beta wk11 2 b = B2) by (lk; auto). assert (R5 : beta wk11 2 a = A2) by (lk; auto). rewrite R4, R5 in Hr.
  rewrite bind_assoc in Hr. stepU (@unsew2_stepU N) Hr F13 U13. rewrite R4 in F13.
  rewrite bind_assoc in Hr. stepU (@unsew2_stepU N) Hr F14 U14.
  assert (V14 : beta wk12 2 a = A2) by (lk; auto). rewrite V14 in F14.
  rewrite bind_assoc in Hr. stepU (@sew2_stepU N) Hr F15 U15.
  rewrite bind_assoc in Hr. stepU (@remove_stepU N) Hr F16 U16.
  rewrite bind_assoc in Hr. stepU (@remove_stepU N) Hr F17 U17.
  stepU (@remove_stepU N) Hr F18 U18.
  (* the identifier of the new vertex: a read *)
  destruct (N.eqb_spec B2 0) as [Z|_]; [contradiction|]. cbn [negb] in Hr.
  assert (Tl : topo_eq wk17 w').
  { eapply last_data; [|exact Hr]. apply wi_vertex_id. }
  destruct Tl as [Tb Tu].
  split.
  - intros i x. rewrite Tb.
    destruct (N.eqb_spec i 0) as [->|Ni0]; [|destruct (N.eqb_spec i 1) as [->|Ni1]; [|destruct (N.eqb_spec i 2) as [->|Ni2]]].
    + change (0 <? 3) with true. change (0 =? 2) with false. lk.
    destruct (N.eqb_spec x l) as [->|N0]; [simpl_ne; reflexivity|].
    destruct (N.eqb_spec x a) as [->|N1]; [simpl_ne; reflexivity|].
    destruct (N.eqb_spec x b) as [->|N2]; [simpl_ne; reflexivity|].
    destruct (N.eqb_spec x r) as [->|N3]; [simpl_ne; reflexivity|].
    destruct (N.eqb_spec x c0) as [->|N4]; [simpl_ne; reflexivity|].
    destruct (N.eqb_spec x d) as [->|N5]; [simpl_ne; reflexivity|].
    simpl_ne. reflexivity.
    + change (1 <? 3) with true. change (1 =? 2) with false. lk.
    destruct (N.eqb_spec x l) as [->|N0]; [simpl_ne; reflexivity|].
    destruct (N.eqb_spec x a) as [->|N1]; [simpl_ne; reflexivity|].
    destruct (N.eqb_spec x b) as [->|N2]; [simpl_ne; reflexivity|].
    destruct (N.eqb_spec x r) as [->|N3]; [simpl_ne; reflexivity|].
    destruct (N.eqb_spec x c0) as [->|N4]; [simpl_ne; reflexivity|].
    destruct (N.eqb_spec x d) as [->|N5]; [simpl_ne; reflexivity|].
    simpl_ne. reflexivity.
    + change (2 <? 3) with true. change (2 =? 2) with true. lk.
    destruct (N.eqb_spec x l) as [->|N0]; [simpl_ne; reflexivity|].
    destruct (N.eqb_spec x a) as [->|N1]; [simpl_ne; reflexivity|].
    destruct (N.eqb_spec x b) as [->|N2]; [simpl_ne; reflexivity|].
    destruct (N.eqb_spec x r) as [->|N3]; [simpl_ne; reflexivity|].
    destruct (N.eqb_spec x c0) as [->|N4]; [simpl_ne; reflexivity|].
    destruct (N.eqb_spec x d) as [->|N5]; [simpl_ne; reflexivity|].
    destruct (N.eqb_spec x B2) as [->|N6]; [simpl_ne; reflexivity|].
    destruct (N.eqb_spec x A2) as [->|N7]; [simpl_ne; reflexivity|].
    destruct (N.eqb_spec x D2) as [->|N8]; [simpl_ne; reflexivity|].
    destruct (N.eqb_spec x C2) as [->|N9]; [simpl_ne; reflexivity|].
    simpl_ne. reflexivity.
    + assert (Hi : (i <? 3) = false) by (clear - Ni0 Ni1 Ni2; apply N.ltb_ge; lia). rewrite Hi.
      rewrite F18, F17, F16, F15, F14, F13, F12, F11, F10, F9, F8, F7, F6, F5, F4, F3, F2, F1, F0.
      rewrite (proj2 (N.eqb_neq i 0) Ni0), (proj2 (N.eqb_neq i 1) Ni1), (proj2 (N.eqb_neq i 2) Ni2). cbn [andb].
      destruct ((x =? l) || (x =? a) || (x =? b) || (x =? r) || (x =? c0) || (x =? d)); reflexivity.
  - intros x. rewrite Tu, U18, U17, U16, U15, U14, U13, U12, U11, U10, U9, U8, U7, U6, U5, U4, U3, U2, U1, U0.
    destruct (N.eqb_spec x l) as [->|N0]; [simpl_ne; reflexivity|].
    destruct (N.eqb_spec x a) as [->|N1]; [simpl_ne; reflexivity|].
    destruct (N.eqb_spec x b) as [->|N2]; [simpl_ne; reflexivity|].
    destruct (N.eqb_spec x r) as [->|N3]; [simpl_ne; reflexivity|].
    destruct (N.eqb_spec x c0) as [->|N4]; [simpl_ne; reflexivity|].
    destruct (N.eqb_spec x d) as [->|N5]; [simpl_ne; reflexivity|].
    simpl_ne. reflexivity.
Qed.

End CollapseTopo.
