(** * C04, topology clause: a successful 2D sew / unsew has exactly the effect of the corresponding link /
    unlink on the images and removal flags of every dart (coordinates and attributes apart).

    Every sew is  (steps that only read, or only write data) ; core ; (steps that only write data),
    and the cores only read images: their outcome is determined by the topology part of the store. *)
From Coq Require Import List NArith Bool Lia.
From HC Require Import Stm.Prog Stm.ProgFacts Stm.Atomic Map2.Ops2 Map2.State2 Map2.Wf2 Map2.Wf2Proofs.
Import ListNotations.
Open Scope N_scope.
Arguments N.eqb : simpl never.

Section SewTopo.
Context `{Sig}.

Lemma topo_eq_refl w : topo_eq w w. Proof. split; auto. Qed.
Lemma topo_eq_trans a b c : topo_eq a b -> topo_eq b c -> topo_eq a c.
Proof. intros [A1 A2] [B1 B2]. split; intros; [rewrite B1, A1|rewrite B2, A2]; reflexivity. Qed.
Lemma topo_eq_sym a b : topo_eq a b -> topo_eq b a.
Proof. intros [A1 A2]. split; intros; [rewrite A1|rewrite A2]; reflexivity. Qed.

(** a data-only first step: it finishes normally, leaves the topology alone, and the rest runs after it *)
Lemma peel_data {X Y} E (a : prog X) (k : X -> prog Y) c w cnt y w1 cnt1 :
  writes_in Sdata a -> run E (bind a k) c w cnt = (Done y, w1, cnt1) ->
  exists x wa cnta, topo_eq w wa /\ run E (k x) c wa cnta = (Done y, w1, cnt1).
Proof.
  intros Hw Hr. rewrite run_bind in Hr.
  destruct (run E a c w cnt) as [[[x|e| |q] wa] cnta] eqn:Ea; try discriminate Hr.
  exists x, wa, cnta. split; [|exact Hr]. apply Sdata_topo. intros v Hv. eapply writes_in_run; eauto.
Qed.

Lemma last_data {X} E (a : prog X) c w cnt y w1 cnt1 :
  writes_in Sdata a -> run E a c w cnt = (Done y, w1, cnt1) -> topo_eq w w1.
Proof. intros Hw Hr. apply Sdata_topo. intros v Hv. eapply writes_in_run; eauto. Qed.

(** the cores are determined by the topology: same outcome, topology-equal results, on topology-equal stores *)
Definition core_topo (p : prog unit) : Prop :=
  forall E c c' w w' cnt cnt' w1 cnt1, topo_eq w w' ->
    run E p c' w' cnt' = (Done tt, w1, cnt1) ->
    exists w2, run E p c w cnt = (Done tt, w2, cnt) /\ topo_eq w2 w1.

Lemma beta_of_topo w w' i d : topo_eq w w' -> asN (w' (XBeta i d)) = asN (w (XBeta i d)).
Proof. intros [Hb _]. apply (Hb i d). Qed.

Lemma topo_eq_upd_beta w w' i d x : topo_eq w w' -> topo_eq (upd w (XBeta i d) (VN x)) (upd w' (XBeta i d) (VN x)).
Proof.
  intros [Hb Hu]. split.
  - intros j e. rewrite !beta_upd_beta. destruct ((j =? i) && (e =? d)); auto.
  - intros e. rewrite !unused_upd_other by (intros; discriminate). auto.
Qed.

Lemma one_link_core_topo l r : core_topo (one_link_core l r).
Proof.
  unfold one_link_core. intros E c c' w w' cnt cnt' w1 cnt1 T Hr.
  cbn [run bind rdB wrB] in *.
  destruct (e_dom E (XBeta 1 l)) eqn:D1; [|discriminate Hr].
  rewrite (beta_of_topo _ _ _ _ T) in Hr.
  destruct (N.eqb_spec (asN (w (XBeta 1 l))) 0) as [E1|E1]; cbn [negb run] in Hr |- *; [|discriminate Hr].
  destruct (e_dom E (XBeta 0 r)) eqn:D0; [|discriminate Hr].
  rewrite (beta_of_topo _ _ _ _ T) in Hr.
  destruct (N.eqb_spec (asN (w (XBeta 0 r))) 0) as [E0|E0]; cbn [negb run] in Hr |- *; [|discriminate Hr].
  rewrite ?D1, ?D0 in *. cbn [run wrB bind] in *. rewrite ?D1, ?D0 in *. cbn [run] in *.
  injection Hr as <- <-. eexists. split; [reflexivity|]. now repeat apply topo_eq_upd_beta.
Qed.

Lemma two_link_core_topo l r : core_topo (two_link_core l r).
Proof.
  unfold two_link_core. intros E c c' w w' cnt cnt' w1 cnt1 T Hr.
  cbn [run bind rdB wrB] in *.
  destruct (e_dom E (XBeta 2 l)) eqn:D1; [|discriminate Hr].
  rewrite (beta_of_topo _ _ _ _ T) in Hr.
  destruct (N.eqb_spec (asN (w (XBeta 2 l))) 0) as [E1|E1]; cbn [negb run] in Hr |- *; [|discriminate Hr].
  destruct (e_dom E (XBeta 2 r)) eqn:D0; [|discriminate Hr].
  rewrite (beta_of_topo _ _ _ _ T) in Hr.
  destruct (N.eqb_spec (asN (w (XBeta 2 r))) 0) as [E0|E0]; cbn [negb run] in Hr |- *; [|discriminate Hr].
  rewrite ?D1, ?D0 in *. cbn [run wrB bind] in *. rewrite ?D1, ?D0 in *. cbn [run] in *.
  injection Hr as <- <-. eexists. split; [reflexivity|]. now repeat apply topo_eq_upd_beta.
Qed.

Lemma one_unlink_core_topo l : core_topo (one_unlink_core l).
Proof.
  unfold one_unlink_core. intros E c c' w w' cnt cnt' w1 cnt1 T Hr.
  cbn [run bind rdB wrB] in *.
  destruct (e_dom E (XBeta 1 l)) eqn:D1; [|discriminate Hr].
  rewrite (beta_of_topo _ _ _ _ T) in Hr. fold (beta w 1 l) in *.
  destruct (N.eqb_spec (beta w 1 l) 0); cbn [run bind wrB] in Hr |- *; [discriminate Hr|].
  destruct (e_dom E (XBeta 0 (beta w 1 l))) eqn:D0; [|discriminate Hr].
  injection Hr as <- <-. eexists. split; [reflexivity|]. now repeat apply topo_eq_upd_beta.
Qed.

Lemma two_unlink_core_topo l : core_topo (two_unlink_core l).
Proof.
  unfold two_unlink_core. intros E c c' w w' cnt cnt' w1 cnt1 T Hr.
  cbn [run bind rdB wrB] in *.
  destruct (e_dom E (XBeta 2 l)) eqn:D1; [|discriminate Hr].
  rewrite (beta_of_topo _ _ _ _ T) in Hr. fold (beta w 2 l) in *.
  destruct (N.eqb_spec (beta w 2 l) 0); cbn [run bind wrB] in Hr |- *; [discriminate Hr|].
  destruct (e_dom E (XBeta 2 (beta w 2 l))) eqn:D0; [|discriminate Hr].
  injection Hr as <- <-. eexists. split; [reflexivity|]. now repeat apply topo_eq_upd_beta.
Qed.

(** core followed by a data-only tail, run from a store that is topology-equal to [w] *)
Lemma core_then_data E (core : prog unit) (tail : prog unit) c w w' cnt cnt' w1 cnt1 :
  core_topo core -> writes_in Sdata tail -> topo_eq w w' ->
  run E (core ;;; tail) c w' cnt' = (Done tt, w1, cnt1) ->
  exists w2, run E core c w cnt = (Done tt, w2, cnt) /\ topo_eq w2 w1.
Proof.
  intros Hc Ht T Hr. rewrite run_bind in Hr.
  destruct (run E core c w' cnt') as [[[[]|e| |q] wb] cntb] eqn:Ec; try discriminate Hr.
  destruct (Hc E c c w w' cnt cnt' wb cntb T Ec) as (w2 & E2 & T2).
  exists w2. split; [exact E2|]. eapply topo_eq_trans; [exact T2|]. eapply last_data; eauto.
Qed.

Lemma core_alone E (core : prog unit) c w w' cnt cnt' w1 cnt1 :
  core_topo core -> topo_eq w w' -> run E core c w' cnt' = (Done tt, w1, cnt1) ->
  exists w2, run E core c w cnt = (Done tt, w2, cnt) /\ topo_eq w2 w1.
Proof. intros Hc T Hr. exact (Hc E c c w w' cnt cnt' w1 cnt1 T Hr). Qed.

Ltac wis := first
  [ apply wi_vertex_id | apply wi_edge_id | apply wi_face_id | apply wi_vertices_merge
  | apply wi_vertices_split | apply wi_merge_attributes | apply wi_split_attributes
  | (cbn; intros; exact I) ].

(* peel one data-only bind from the run hypothesis, accumulating the topology equality *)
Ltac peel Hr T :=
  let x := fresh "x" in let wa := fresh "wa" in let ca := fresh "ca" in let Ta := fresh "Ta" in
  apply peel_data in Hr; [|solve [wis]];
  destruct Hr as (x & wa & ca & Ta & Hr); cbv beta in Hr;
  pose proof (topo_eq_trans _ _ _ T Ta) as T'; clear T Ta; rename T' into T.

Ltac tail_wi := repeat (apply writes_in_bind; [solve [wis]|intros ?]); solve [wis].

Theorem one_sew_topology E n ks l r c w cnt w1 cnt1 :
  run E (one_sew n ks l r) c w cnt = (Done tt, w1, cnt1) ->
  exists w2, run E (one_link_core l r) c w cnt = (Done tt, w2, cnt) /\ topo_eq w2 w1.
Proof.
  intros Hr. unfold one_sew in Hr. pose proof (topo_eq_refl w) as T.
  peel Hr T. destruct (x =? 0).
  - eapply core_alone; eauto using one_link_core_topo.
  - peel Hr T. peel Hr T.
    eapply core_then_data; [apply one_link_core_topo| |exact T|exact Hr]. tail_wi.
Qed.

Theorem one_unsew_topology E n ks l c w cnt w1 cnt1 :
  run E (one_unsew n ks l) c w cnt = (Done tt, w1, cnt1) ->
  exists w2, run E (one_unlink_core l) c w cnt = (Done tt, w2, cnt) /\ topo_eq w2 w1.
Proof.
  intros Hr. unfold one_unsew in Hr. pose proof (topo_eq_refl w) as T.
  peel Hr T. destruct (x =? 0).
  - eapply core_alone; eauto using one_unlink_core_topo.
  - peel Hr T. peel Hr T.
    eapply core_then_data; [apply one_unlink_core_topo| |exact T|exact Hr]. tail_wi.
Qed.

Theorem two_sew_topology E n ks l r c w cnt w1 cnt1 :
  run E (two_sew n ks l r) c w cnt = (Done tt, w1, cnt1) ->
  exists w2, run E (two_link_core l r) c w cnt = (Done tt, w2, cnt) /\ topo_eq w2 w1.
Proof.
  intros Hr. unfold two_sew in Hr. pose proof (topo_eq_refl w) as T.
  peel Hr T. peel Hr T. destruct (x =? 0), (x0 =? 0).
  - eapply core_then_data; [apply two_link_core_topo| |exact T|exact Hr]. tail_wi.
  - peel Hr T. peel Hr T.
    eapply core_then_data; [apply two_link_core_topo| |exact T|exact Hr]. tail_wi.
  - peel Hr T. peel Hr T.
    eapply core_then_data; [apply two_link_core_topo| |exact T|exact Hr]. tail_wi.
  - peel Hr T. peel Hr T. peel Hr T. peel Hr T. peel Hr T. peel Hr T. peel Hr T. peel Hr T.
    (* the orientation test: a data-free step that either fails or does nothing *)
    apply peel_data in Hr.
    2:{ destruct x5 as [a|], x6 as [b|], x7 as [c0|], x8 as [d|]; try exact I. destruct (bad_orient a b c0 d); exact I. }
    destruct Hr as (xz & wz & cz & Tz & Hr). cbv beta in Hr.
    pose proof (topo_eq_trans _ _ _ T Tz) as T'.
    eapply core_then_data; [apply two_link_core_topo| |exact T'|exact Hr]. tail_wi.
Qed.

Theorem two_unsew_topology E n ks l c w cnt w1 cnt1 :
  run E (two_unsew n ks l) c w cnt = (Done tt, w1, cnt1) ->
  exists w2, run E (two_unlink_core l) c w cnt = (Done tt, w2, cnt) /\ topo_eq w2 w1.
Proof.
  intros Hr. unfold two_unsew in Hr. pose proof (topo_eq_refl w) as T.
  peel Hr T. peel Hr T. peel Hr T. destruct (x0 =? 0), (x1 =? 0).
  - peel Hr T. eapply core_then_data; [apply two_unlink_core_topo| |exact T|exact Hr]. tail_wi.
  - peel Hr T. peel Hr T. eapply core_then_data; [apply two_unlink_core_topo| |exact T|exact Hr]. tail_wi.
  - peel Hr T. peel Hr T. eapply core_then_data; [apply two_unlink_core_topo| |exact T|exact Hr]. tail_wi.
  - peel Hr T. peel Hr T. peel Hr T. eapply core_then_data; [apply two_unlink_core_topo| |exact T|exact Hr]. tail_wi.
Qed.

End SewTopo.
