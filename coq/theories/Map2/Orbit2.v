(** * Orbits, cell identifiers and cell iterators of CMap2.
    Sources: cmap/dim2/orbits.rs, cmap/dim2/basic_ops.rs, cmap/components/orbits.rs.
    Model only, no proofs. *)
From Coq Require Import List NArith Bool.
From HC Require Import Base.Closure Stm.Prog Map2.Ops2 Map2.State2 Map2.Wf2.
Import ListNotations.
Open Scope N_scope.

Inductive policy :=
| PVertex | PVertexLinear | PEdge | PFace | PFaceLinear | PCustom (l : list N).

Section Orbit2.
Context `{Sig}.

(** the images checked for dart [d], in the order the code checks them *)
Definition succ2 (s : store) (p : policy) (d : N) : list N :=
  match p with
  | PVertex => [beta s 1 (beta s 2 d); beta s 2 (beta s 0 d)]
  | PVertexLinear => [beta s 1 (beta s 2 d)]
  | PEdge => [beta s 2 d]
  | PFace => [beta s 1 d; beta s 0 d]
  | PFaceLinear => [beta s 1 d]
  | PCustom l => map (fun i => beta s i d) l
  end.

Definition policy_ok (p : policy) : bool :=
  match p with PCustom l => forallb (fun i => i <? 3) l | _ => true end.

Definition bfs_fuel (n : N) : nat := 2 * N.to_nat n + 2.

(** [CMap2::orbit] (non transactional; [beta::<I>] asserts I < 3, out-of-range darts index
    out of bounds: both are [None] here) *)
Definition orbit2 (n : N) (s : store) (p : policy) (d : N) : option (list N) :=
  if policy_ok p && (d <? n) then orbit (succ2 s p) (bfs_fuel n) d else None.

(** [CMap2::orbit_transac]: the same worklist, every image read through the transaction *)
Fixpoint custom_tx (d : N) (l : list N) : prog (list N) :=
  match l with
  | [] => Ret []
  | i :: r => im <- rdB i d ;; ims <- custom_tx d r ;; Ret (im :: ims)
  end.

Definition succ2_tx (p : policy) (d : N) : prog (list N) :=
  match p with
  | PVertex =>
      b2 <- rdB 2 d ;; b0 <- rdB 0 d ;; im1 <- rdB 1 b2 ;; im2 <- rdB 2 b0 ;; Ret [im1; im2]
  | PVertexLinear => b2 <- rdB 2 d ;; im <- rdB 1 b2 ;; Ret [im]
  | PEdge => im <- rdB 2 d ;; Ret [im]
  | PFace => im1 <- rdB 1 d ;; im2 <- rdB 0 d ;; Ret [im1; im2]
  | PFaceLinear => im <- rdB 1 d ;; Ret [im]
  | PCustom l => custom_tx d l
  end.

Fixpoint orbit_tx_loop (fuel : nat) (p : policy) (q m out : list N) : prog (list N) :=
  match fuel with
  | O => Panic OutOfFuel
  | S f =>
    match q with
    | [] => Ret (rev out)
    | d :: q' =>
      ims <- succ2_tx p d ;;
      let '(q2, m2) := fold_left check ims (q', m) in
      orbit_tx_loop f p q2 m2 (d :: out)
    end
  end.

Definition orbit2_tx (n : N) (p : policy) (d : N) : prog (list N) :=
  if policy_ok p then orbit_tx_loop (bfs_fuel n) p [d] [d; 0] [] else Panic AssertFailed.

(** evaluation of a read-only program on a store *)
Definition eval {X} (E : env) (p : prog X) (s : store) : option X :=
  match run E p s s 0 with
  | (Done x, _, _) => Some x
  | _ => None
  end.

(** [iter_vertices] / [iter_edges] / [iter_faces] *)
Definition iter_ids (E : env) (n : N) (s : store) (idf : N -> prog N) : list N :=
  filter (fun d => negb (d =? 0) && negb (unused s d) &&
                   match eval E (idf d) s with Some v => d =? v | None => false end)
         (nrange n).

Definition iter_vertices2 E n s := iter_ids E n s (vertex_id_tx n).
Definition iter_edges2 E n s := iter_ids E n s edge_id_tx.
Definition iter_faces2 E n s := iter_ids E n s (face_id_tx n).

End Orbit2.
