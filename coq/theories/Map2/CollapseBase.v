(** * C15, edge collapse towards an end point, boundary edge whose triangle has its next side on the boundary too:
    the whole driver [collapse_edge_to_base] (reads of the data to keep, the half-cell, the identifier of the
    resulting vertex, the writes of the kept data) has exactly the topological effect of its half-cell. *)
From Coq Require Import List NArith Bool Lia.
From HC Require Import Base.Closure Stm.Prog Stm.ProgFacts Stm.Atomic Map2.Ops2 Map2.State2 Map2.Wf2 Map2.Wf2Proofs
  Map2.Orbit2 Map2.SewTopo Map2.SewData Map2.Kern2 Map2.SwapTopo Map2.FanTopo Map2.InsertTopo Map2.CollapseTopo.
Import ListNotations.
Open Scope N_scope.
Arguments N.eqb : simpl never.

Section CollapseBase.
Context `{Sig}.

Lemma ro_stepN {X Y} E (a : prog X) (k : X -> prog Y) c w cnt o w1 cnt1 :
  writes_in Snone a -> run E (bind a k) c w cnt = (Done o, w1, cnt1) ->
  exists x wa cnta, s_same w wa /\ run E (k x) c wa cnta = (Done o, w1, cnt1).
Proof.
  intros Hw Hr. rewrite run_bind in Hr.
  destruct (run E a c w cnt) as [[[x|e| |q] wa] cnta] eqn:Ea; try discriminate Hr.
  exists x, wa, cnta. split; [|exact Hr]. intros v. eapply writes_in_run; [exact Hw|exact Ea|]. intros [].
Qed.

Ltac wi' := repeat (cbn; match goal with
  | |- _ /\ _ => split
  | |- forall _, _ => intro
  | |- True => exact I
  | |- writes_in _ (vertex_id_tx _ _) => apply wi_vertex_id
  | |- writes_in _ (bind _ _) => apply writes_in_bind
  | |- writes_in _ (if ?b then _ else _) => destruct b
  | |- writes_in _ (match ?o with Some _ => _ | None => _ end) => destruct o
  end); auto.

(* the driver around one half-cell: boundary edge (no right side) *)
Lemma to_base_boundary_split E n ks b0l l b1l b0r b1r c w cnt vid w' cnt' :
  run E (collapse_edge_to_base n ks b0l l b1l b0r 0 b1r) c w cnt = (Done vid, w', cnt') ->
  exists w3 c3 wa cnta, s_same w w3 /\
    run E (collapse_halfcell_to_base n ks b0l l b1l) c w3 c3 = (Done tt, wa, cnta) /\ topo_eq wa w'.
Proof.
  intros Hr. unfold collapse_edge_to_base in Hr.
  apply ro_stepN in Hr; [|apply wi_vertex_id]. destruct Hr as (lv & w1 & c1 & S1 & Hr).
  apply ro_stepN in Hr; [|wi']. destruct Hr as (tv & w2 & c2 & S2 & Hr).
  apply ro_stepN in Hr; [|wi']. destruct Hr as (ta & w3 & c3 & S3 & Hr).
  change (0 =? 0) with true in Hr. cbn [negb bind] in Hr.
  apply rd_stepY' in Hr.
  rewrite run_bind in Hr.
  destruct (run E (collapse_halfcell_to_base n ks b0l l b1l) c w3 c3) as [[[[]|e| |q] wa] cnta] eqn:Eh; try discriminate Hr.
  exists w3, c3, wa, cnta. split; [|split; [exact Eh|]].
  - eapply s_same_trans; [eapply s_same_trans|]; eassumption.
  - apply Sdata_topo. intros v Hv. eapply writes_in_run; [|exact Hr|exact Hv]. wi'.
Qed.

Theorem collapse_to_base_boundary E n ks b0l l b1l b0r b1r c w cnt vid w' cnt' :
  let x := beta w 2 b0l in
  NoDup [b0l; l; b1l; x] -> b0l <> 0 -> l <> 0 -> b1l <> 0 ->
  beta w 1 b0l = l -> beta w 1 l = b1l -> beta w 1 b1l = b0l ->
  beta w 2 b1l = 0 -> beta w 2 l = 0 -> (x <> 0 -> beta w 2 x = b0l) ->
  run E (collapse_edge_to_base n ks b0l l b1l b0r 0 b1r) c w cnt = (Done vid, w', cnt') ->
  (forall i y, beta w' i y =
     if (y =? b0l) || (y =? l) || (y =? b1l) then (if i <? 3 then 0 else beta w i y)
     else if (i =? 2) && (y =? x) && negb (x =? 0) then 0
     else beta w i y) /\
  (forall y, unused w' y = if (y =? b0l) || (y =? l) || (y =? b1l) then true else unused w y).
Proof.
  intros x Hnd P0 E0 N0 B1 B2 B3 Zn Ze Hx Hr.
  destruct (to_base_boundary_split _ _ _ _ _ _ _ _ _ _ _ _ _ _ Hr) as (w3 & c3 & wa & cnta & S & Eh & [Tb Tu]).
  pose proof (s_same_b _ _ S) as Sb.
  assert (Su : forall y, unused w3 y = unused w y) by (intros y; unfold unused; rewrite S; reflexivity).
  pose proof (halfcell_to_base_boundary E n ks b0l l b1l c w3 c3 wa cnta) as T. cbv zeta in T.
  rewrite !Sb in T. fold x in T.
  destruct (T Hnd P0 E0 N0 B1 B2 B3 Zn Ze Hx Eh) as (Hb & Hu).
  split.
  - intros i y. rewrite Tb, Hb, !Sb. reflexivity.
  - intros y. rewrite Tu, Hu, Su. reflexivity.
Qed.

Theorem collapse_to_base_boundary_wf E n ks b0l l b1l b0r b1r c w cnt vid w' cnt' :
  wf2 n w -> b0l < n -> b0l <> l -> b0l <> b1l -> l <> b1l -> l <> 0 -> b1l <> 0 ->
  beta w 1 b0l = l -> beta w 1 l = b1l -> beta w 1 b1l = b0l ->
  beta w 2 b1l = 0 -> beta w 2 l = 0 ->
  run E (collapse_edge_to_base n ks b0l l b1l b0r 0 b1r) c w cnt = (Done vid, w', cnt') ->
  wf2 n w'.
Proof.
  intros W Hn Q1 Q2 Q3 E0 N0 B1 B2 B3 Zn Ze Hr.
  destruct (to_base_boundary_split _ _ _ _ _ _ _ _ _ _ _ _ _ _ Hr) as (w3 & c3 & wa & cnta & S & Eh & Ht).
  pose proof (s_same_b _ _ S) as Sb.
  eapply wf2_ext; [|exact Ht].
  eapply (halfcell_to_base_boundary_wf E n ks b0l l b1l c w3 c3 wa cnta); try eassumption; rewrite ?Sb; try assumption.
  eapply s_same_wf; eassumption.
Qed.

(* the same boundary edge when the next side of its triangle is interior: the triangle merges into the neighbouring face *)
Theorem collapse_to_base_boundary_inner E n ks b0l l b1l b0r b1r c w cnt vid w' cnt' :
  let q := beta w 2 b1l in let p0 := beta w 0 q in let p1 := beta w 1 q in
  NoDup [b0l; l; b1l; q; p0; p1] -> ~ In 0 [b0l; l; b1l; q; p0; p1] ->
  beta w 1 b0l = l -> beta w 1 l = b1l -> beta w 1 b1l = b0l -> beta w 1 p0 = q -> beta w 2 l = 0 ->
  run E (collapse_edge_to_base n ks b0l l b1l b0r 0 b1r) c w cnt = (Done vid, w', cnt') ->
  (forall i y, beta w' i y =
     if (y =? l) || (y =? b1l) || (y =? q) then (if i <? 3 then 0 else beta w i y)
     else if (i =? 1) && (y =? b0l) then p1 else if (i =? 0) && (y =? b0l) then p0
     else if (i =? 1) && (y =? p0) then b0l else if (i =? 0) && (y =? p1) then b0l
     else beta w i y) /\
  (forall y, unused w' y = if (y =? l) || (y =? b1l) || (y =? q) then true else unused w y).
Proof.
  intros q p0 p1 Hnd Hz B1 B2 B3 B4 Ze Hr.
  destruct (to_base_boundary_split _ _ _ _ _ _ _ _ _ _ _ _ _ _ Hr) as (w3 & c3 & wa & cnta & S & Eh & [Tb Tu]).
  pose proof (s_same_b _ _ S) as Sb.
  assert (Su : forall y, unused w3 y = unused w y) by (intros y; unfold unused; rewrite S; reflexivity).
  pose proof (halfcell_to_base_inner E n ks b0l l b1l c w3 c3 wa cnta) as T. cbv zeta in T.
  rewrite !Sb in T. fold q p0 p1 in T.
  destruct (T Hnd Hz B1 B2 B3 B4 Ze Eh) as (Hb & Hu).
  split.
  - intros i y. rewrite Tb, Hb, !Sb. reflexivity.
  - intros y. rewrite Tu, Hu, Su. reflexivity.
Qed.

Theorem collapse_to_base_boundary_inner_wf E n ks b0l l b1l b0r b1r c w cnt vid w' cnt' :
  let q := beta w 2 b1l in let p0 := beta w 0 q in let p1 := beta w 1 q in
  wf2 n w -> b0l < n ->
  NoDup [b0l; l; b1l; q; p0; p1] -> ~ In 0 [b0l; l; b1l; q; p0; p1] ->
  beta w 1 b0l = l -> beta w 1 l = b1l -> beta w 1 b1l = b0l -> beta w 2 l = 0 ->
  run E (collapse_edge_to_base n ks b0l l b1l b0r 0 b1r) c w cnt = (Done vid, w', cnt') ->
  wf2 n w'.
Proof.
  intros q p0 p1 W Hn Hnd Hz B1 B2 B3 Ze Hr.
  destruct (to_base_boundary_split _ _ _ _ _ _ _ _ _ _ _ _ _ _ Hr) as (w3 & c3 & wa & cnta & S & Eh & Ht).
  pose proof (s_same_b _ _ S) as Sb.
  eapply wf2_ext; [|exact Ht].
  pose proof (halfcell_to_base_inner_wf E n ks b0l l b1l c w3 c3 wa cnta) as T. cbv zeta in T.
  rewrite !Sb in T. fold q p0 p1 in T.
  apply T; try assumption. eapply s_same_wf; eassumption.
Qed.

(** ** collapse to the midpoint of a boundary edge l (no right side), triangle l -> a -> b: the driver has exactly the
    topological effect of its half-cell *)
Lemma to_mid_boundary_split E n ks b l a b0r b1r c w cnt vid w' cnt' :
  run E (collapse_edge_to_midpoint n ks b l a b0r 0 b1r) c w cnt = (Done vid, w', cnt') ->
  exists wa cnta, run E (collapse_halfcell_to_midpoint n ks b l a) c w cnt = (Done tt, wa, cnta) /\ topo_eq wa w'.
Proof.
  intros Hr. unfold collapse_edge_to_midpoint in Hr.
  change (0 =? 0) with true in Hr. cbn [negb bind] in Hr.
  apply rd_stepY' in Hr.
  rewrite run_bind in Hr.
  destruct (run E (collapse_halfcell_to_midpoint n ks b l a) c w cnt) as [[[[]|e| |q] wa] cnta] eqn:Eh; try discriminate Hr.
  exists wa, cnta. split; [reflexivity|].
  apply Sdata_topo. intros v Hv. eapply writes_in_run; [|exact Hr|exact Hv]. wi'.
Qed.

Theorem collapse_to_midpoint_boundary E n ks l a b b0r b1r c w cnt vid w' cnt' :
  let A2 := beta w 2 a in let B2 := beta w 2 b in
  NoDup [l; a; b; A2; B2] -> ~ In 0 [l; a; b; A2; B2] ->
  beta w 1 l = a -> beta w 1 a = b -> beta w 1 b = l -> beta w 2 l = 0 ->
  run E (collapse_edge_to_midpoint n ks b l a b0r 0 b1r) c w cnt = (Done vid, w', cnt') ->
  (forall i y, beta w' i y =
     if (y =? l) || (y =? a) || (y =? b) then (if i <? 3 then 0 else beta w i y)
     else if i =? 2 then (if y =? B2 then A2 else if y =? A2 then B2 else beta w 2 y)
     else beta w i y) /\
  (forall y, unused w' y = if (y =? l) || (y =? a) || (y =? b) then true else unused w y).
Proof.
  intros A2 B2 Hnd Hz B1 B2' B3 Zl Hr.
  destruct (to_mid_boundary_split _ _ _ _ _ _ _ _ _ _ _ _ _ _ Hr) as (wa & cnta & Eh & [Tb Tu]).
  destruct (halfcell_to_midpoint_topology E n ks l a b c w cnt wa cnta Hnd Hz B1 B2' B3 Zl Eh) as (Hb & Hu).
  split.
  - intros i y. rewrite Tb, Hb. reflexivity.
  - intros y. rewrite Tu, Hu. reflexivity.
Qed.

Theorem collapse_to_midpoint_boundary_wf E n ks l a b b0r b1r c w cnt vid w' cnt' :
  let A2 := beta w 2 a in let B2 := beta w 2 b in
  wf2 n w -> l < n ->
  NoDup [l; a; b; A2; B2] -> ~ In 0 [l; a; b; A2; B2] ->
  beta w 1 l = a -> beta w 1 a = b -> beta w 1 b = l -> beta w 2 l = 0 ->
  run E (collapse_edge_to_midpoint n ks b l a b0r 0 b1r) c w cnt = (Done vid, w', cnt') ->
  wf2 n w'.
Proof.
  intros A2 B2 W Hln Hnd Hz B1 B2' B3 Zl Hr.
  destruct (to_mid_boundary_split _ _ _ _ _ _ _ _ _ _ _ _ _ _ Hr) as (wa & cnta & Eh & Ht).
  eapply wf2_ext; [|exact Ht].
  exact (halfcell_to_midpoint_wf E n ks l a b c w cnt wa cnta W Hln Hnd Hz B1 B2' B3 Zl Eh).
Qed.

(** ** collapse towards an end point of an INTERIOR edge (l | r): the driver is, for the topology, exactly three
    steps in sequence -- the 2-unsew of the edge, the half-cell on the right (b1r -> r -> b0r) and the half-cell on
    the left (b0l -> l -> b1l) -- between a read-only prefix (the stores before and after it agree on everything)
    and a data-only suffix (same images and removal flags).  The theorems on the 2-unsew (C04) and on the two
    half-cells (above and in CollapseTopo.v) therefore speak about the driver's intermediate stores. *)
Lemma to_base_interior_split E n ks b0l l b1l b0r r b1r c w cnt vid w' cnt' :
  r <> 0 ->
  run E (collapse_edge_to_base n ks b0l l b1l b0r r b1r) c w cnt = (Done vid, w', cnt') ->
  exists w3 c3 w4 c4 w5 c5 w6 c6, s_same w w3 /\
    run E (two_unsew n ks l) c w3 c3 = (Done tt, w4, c4) /\
    run E (collapse_halfcell_to_base n ks b1r r b0r) c w4 c4 = (Done tt, w5, c5) /\
    run E (collapse_halfcell_to_base n ks b0l l b1l) c w5 c5 = (Done tt, w6, c6) /\
    topo_eq w6 w'.
Proof.
  intros Hr0 Hr. unfold collapse_edge_to_base in Hr.
  apply ro_stepN in Hr; [|apply wi_vertex_id]. destruct Hr as (lv & w1 & c1 & S1 & Hr).
  apply ro_stepN in Hr; [|wi']. destruct Hr as (tv & w2 & c2 & S2 & Hr).
  apply ro_stepN in Hr; [|wi']. destruct Hr as (ta & w3 & c3 & S3 & Hr).
  assert (Er : (r =? 0) = false) by (apply N.eqb_neq; exact Hr0).
  rewrite Er in Hr. cbn [negb] in Hr.
  rewrite run_bind in Hr.
  destruct (run E (two_unsew n ks l ;;; collapse_halfcell_to_base n ks b1r r b0r) c w3 c3) as [[[[]|e| |q] w5] c5] eqn:E45; try discriminate Hr.
  rewrite run_bind in E45.
  destruct (run E (two_unsew n ks l) c w3 c3) as [[[[]|e| |q] w4] c4] eqn:E4; try discriminate E45.
  apply rd_stepY' in Hr.
  rewrite run_bind in Hr.
  destruct (run E (collapse_halfcell_to_base n ks b0l l b1l) c w5 c5) as [[[[]|e| |q] w6] c6] eqn:E6; try discriminate Hr.
  exists w3, c3, w4, c4, w5, c5, w6, c6. split; [|split; [exact E4|split; [exact E45|split; [exact E6|]]]].
  - eapply s_same_trans; [eapply s_same_trans|]; eassumption.
  - apply Sdata_topo. intros v Hv. eapply writes_in_run; [|exact Hr|exact Hv]. wi'.
Qed.

End CollapseBase.
