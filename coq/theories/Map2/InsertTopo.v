(** * C14, exact images after the insertion of one vertex on an edge (insert_vertex_on_edge): the edge is replaced by
    two consecutive segments, on both sides when it has two darts, and every other image is untouched. *)
From Coq Require Import List NArith Bool Lia.
From HC Require Import Base.Closure Stm.Prog Stm.ProgFacts Stm.Atomic Map2.Ops2 Map2.State2 Map2.Wf2 Map2.Wf2Proofs
  Map2.Orbit2 Map2.Orbit2Proofs Map2.SewTopo Map2.SewData Map2.SewAttr Map2.Kern2 Map2.KernWf Map2.SwapTopo.
Import ListNotations.
Open Scope N_scope.
Arguments N.eqb : simpl never.

Section InsertTopo.
Context `{Sig}.

Ltac simpl_ne := repeat match goal with
  | Hne : ?x <> ?y |- context [?x =? ?y] => rewrite (proj2 (N.eqb_neq x y) Hne)
  | Hne : ?y <> ?x |- context [?x =? ?y] => rewrite (proj2 (N.eqb_neq x y) (not_eq_sym Hne))
  end; rewrite ?N.eqb_refl; cbn [andb orb negb].
Ltac consts := change (1 =? 0) with false; change (0 =? 1) with false; change (1 =? 1) with true;
  change (0 =? 0) with true; cbn [andb].
Ltac consts2 := change (2 =? 0) with false; change (2 =? 1) with false; change (0 =? 2) with false;
  change (1 =? 2) with false; change (2 =? 2) with true; cbn [andb].
Ltac lk2 := repeat (match goal with
  | Hx : forall i d, beta ?s i d = _ |- context [beta ?s _ _] => rewrite Hx
  end; consts; consts2; simpl_ne).

Lemma unlink1_step E l (k : prog unit) c w cnt w1 cnt1 :
  run E (one_unlink_core l ;;; k) c w cnt = (Done tt, w1, cnt1) ->
  exists wa cnta, b_unlink1 w wa l /\ run E k c wa cnta = (Done tt, w1, cnt1).
Proof.
  intros Hr. rewrite run_bind in Hr.
  destruct (run E (one_unlink_core l) c w cnt) as [[[[]|e| |q] wa] cnta] eqn:Es; try discriminate Hr.
  exists wa, cnta. split; [|exact Hr]. apply run_one_unlink_core in Es. destruct Es as (-> & _).
  intros i d. unfold clr1. rewrite !beta_upd_beta. reflexivity.
Qed.
Lemma unlink2_step E l (k : prog unit) c w cnt w1 cnt1 :
  run E (two_unlink_core l ;;; k) c w cnt = (Done tt, w1, cnt1) ->
  exists wa cnta, b_unlink2 w wa l /\ run E k c wa cnta = (Done tt, w1, cnt1).
Proof.
  intros Hr. rewrite run_bind in Hr.
  destruct (run E (two_unlink_core l) c w cnt) as [[[[]|e| |q] wa] cnta] eqn:Es; try discriminate Hr.
  exists wa, cnta. split; [|exact Hr]. apply run_two_unlink_core in Es. destruct Es as (-> & _).
  intros i d. unfold clr2. rewrite !beta_upd_beta. reflexivity.
Qed.
Lemma wi_is_free d : writes_in Sdata (is_free_atomic d).
Proof.
  unfold is_free_atomic. cbn. intros x. destruct (negb _); [exact I|]. cbn. intros y. destruct (negb _); [exact I|]. cbn. auto.
Qed.
Ltac dstep3 Hr S :=
  apply data_step in Hr;
  [ let x := fresh "x" in let wk := fresh "wk" in let ck := fresh "ck" in destruct Hr as (x & wk & ck & S & Hr); cbv beta in Hr
  | first [ apply wi_vertex_id | (cbn; intros; repeat split; exact I) | apply wi_is_free
          | (repeat match goal with |- writes_in _ (if ?b then _ else _) => destruct b end; first [exact I | apply wi_is_free]) ] ].

(** boundary (one-dart) edge e -> b1: the result is e -> nd1 -> b1, everything else untouched *)
Theorem insert_vertex_topology_boundary E n ks e nd1 nd2 t c w cnt w' cnt' :
  let b1 := beta w 1 e in
  beta w 2 e = 0 -> NoDup [e; b1; nd1] -> ~ In 0 [e; b1; nd1] ->
  run E (insert_vertex_on_edge n ks e nd1 nd2 t) c w cnt = (Done tt, w', cnt') ->
  forall i x, beta w' i x =
    if i =? 1 then (if x =? e then nd1 else if x =? nd1 then b1 else beta w 1 x)
    else if i =? 0 then (if x =? nd1 then e else if x =? b1 then nd1 else beta w 0 x)
    else beta w i x.
Proof.
  intros b1. remember (beta w 1 e) as b0 eqn:Eb. subst b1. rename b0 into b1.
  intros Z2 Hnd Hnz Hr.
  assert (D : e <> b1 /\ e <> nd1 /\ b1 <> nd1).
  { repeat match goal with Hx : NoDup (_ :: _) |- _ => inversion Hx; clear Hx; subst end.
    cbn [In] in *. repeat split; intros Q; intuition congruence. }
  destruct D as (D1 & D2 & D3).
  assert (Hb0 : b1 <> 0) by (intros Z; apply Hnz; right; left; auto).
  unfold insert_vertex_on_edge in Hr. cbv zeta in Hr.
  destruct (match t with Some t0 => negb (sc_in_unit t0) | None => false end); [cbn in Hr; discriminate Hr|].
  apply rd_step in Hr. rewrite Z2 in Hr.
  dstep3 Hr S1. destruct x; cbn [negb] in Hr; [|cbn in Hr; discriminate Hr].
  change (0 =? 0) with true in Hr. cbv iota in Hr.
  cbn [bind negb] in Hr.
  apply rd_step in Hr. rewrite S1, Z2 in Hr. change (0 =? 0) with true in Hr. cbv iota in Hr.
  apply rd_step in Hr. rewrite S1, <- Eb in Hr.
  dstep3 Hr S3. dstep3 Hr S4. dstep3 Hr S5. dstep3 Hr S6.
  match type of Hr with context [match ?o with Some _ => _ | None => _ end] => destruct o as [v1|]; [|cbn in Hr; discriminate Hr] end.
  match type of Hr with context [match ?o with Some _ => _ | None => _ end] => destruct o as [v2|]; [|cbn in Hr; discriminate Hr] end.
  match type of Hr with run _ _ _ ?s _ = _ => rename s into wcur end.
  assert (P0 : forall i d, beta wcur i d = beta w i d) by (intros i y; rewrite S6, S5, S4, S3, S1; reflexivity).
  clear S1 S3 S4 S5 S6.
  destruct (N.eqb_spec b1 0) as [Z|_]; [contradiction|]. cbn [negb] in Hr.
  apply unlink1_step in Hr. destruct Hr as (u1 & k1 & U1 & Hr). unfold b_unlink1 in U1.
  assert (V1 : beta wcur 1 e = b1) by (rewrite P0; auto). rewrite V1 in U1.
  apply link1_step in Hr. destruct Hr as (s1 & j1 & L1 & Hr). unfold b_link1 in L1.
  apply link1_step in Hr. destruct Hr as (s2 & j2 & L2 & Hr). unfold b_link1 in L2.
  assert (T : b_same s2 w').
  { eapply last_step; [|exact Hr]. apply writes_in_bind; [apply wi_vertex_id|]. intros ?. cbn. intros; repeat split; exact I. }
  unfold b_same in T. intros i y. rewrite T.
  destruct (N.eqb_spec i 1) as [->|Ni1]; [|destruct (N.eqb_spec i 0) as [->|Ni0]].
  - lk2.
    destruct (N.eqb_spec y e) as [->|N1]; [simpl_ne; reflexivity|].
    destruct (N.eqb_spec y nd1) as [->|N2]; [simpl_ne; reflexivity|].
    simpl_ne. reflexivity.
  - lk2.
    destruct (N.eqb_spec y nd1) as [->|N1]; [simpl_ne; reflexivity|].
    destruct (N.eqb_spec y b1) as [->|N2]; [simpl_ne; reflexivity|].
    simpl_ne. reflexivity.
  - rewrite L2, L1, U1, P0.
    rewrite (proj2 (N.eqb_neq i 0) Ni0), (proj2 (N.eqb_neq i 1) Ni1). cbn [andb]. reflexivity.
Qed.

(** two-dart edge (e | d2) with e -> b1 and d2 -> c1: the result is e -> nd1 -> b1 and d2 -> nd2 -> c1, glued e | nd2 and
    d2 | nd1 (segment by segment); everything else untouched *)
Theorem insert_vertex_topology_inner E n ks e nd1 nd2 t c w cnt w' cnt' :
  let d2 := beta w 2 e in let b1 := beta w 1 e in let c1 := beta w 1 d2 in
  NoDup [e; d2; b1; c1; nd1; nd2] -> ~ In 0 [e; d2; b1; c1; nd1; nd2] ->
  run E (insert_vertex_on_edge n ks e nd1 nd2 t) c w cnt = (Done tt, w', cnt') ->
  forall i x, beta w' i x =
    if i =? 1 then (if x =? e then nd1 else if x =? nd1 then b1 else if x =? d2 then nd2 else if x =? nd2 then c1 else beta w 1 x)
    else if i =? 0 then (if x =? nd1 then e else if x =? b1 then nd1 else if x =? nd2 then d2 else if x =? c1 then nd2 else beta w 0 x)
    else if i =? 2 then (if x =? e then nd2 else if x =? nd2 then e else if x =? d2 then nd1 else if x =? nd1 then d2 else beta w 2 x)
    else beta w i x.
Proof.
  intros d2 b1 c1.
  remember (beta w 2 e) as d0 eqn:Ed. subst d2. rename d0 into d2.
  remember (beta w 1 e) as b0 eqn:Eb. subst b1. rename b0 into b1.
  remember (beta w 1 d2) as c0 eqn:Ec. subst c1. rename c0 into c1.
  intros Hnd Hnz Hr.
  assert (D : e <> d2 /\ e <> b1 /\ e <> c1 /\ e <> nd1 /\ e <> nd2 /\ d2 <> b1 /\ d2 <> c1 /\ d2 <> nd1 /\ d2 <> nd2 /\ b1 <> c1 /\ b1 <> nd1 /\ b1 <> nd2 /\ c1 <> nd1 /\ c1 <> nd2 /\ nd1 <> nd2).
  { repeat match goal with Hx : NoDup (_ :: _) |- _ => inversion Hx; clear Hx; subst end.
    cbn [In] in *. repeat split; intros Q; intuition congruence. }
  destruct D as (Q0 & Q1 & Q2 & Q3 & Q4 & Q5 & Q6 & Q7 & Q8 & Q9 & Q10 & Q11 & Q12 & Q13 & Q14).
  assert (Hd0 : d2 <> 0) by (intros Z; apply Hnz; right; left; auto).
  assert (Hb0 : b1 <> 0) by (intros Z; apply Hnz; do 2 right; left; auto).
  assert (Hc0 : c1 <> 0) by (intros Z; apply Hnz; do 3 right; left; auto).
  unfold insert_vertex_on_edge in Hr. cbv zeta in Hr.
  destruct (match t with Some t0 => negb (sc_in_unit t0) | None => false end); [cbn in Hr; discriminate Hr|].
  apply rd_step in Hr. rewrite <- Ed in Hr.
  dstep3 Hr S1. destruct x; cbn [negb] in Hr; [|cbn in Hr; discriminate Hr].
  dstep3 Hr S2. destruct x; cbn [negb] in Hr; [|cbn in Hr; discriminate Hr].
  apply rd_step in Hr. rewrite S2, S1, <- Ed in Hr.
  destruct (N.eqb_spec d2 0) as [Z|_]; [contradiction|].
  apply rd_step in Hr. rewrite S2, S1, <- Eb in Hr.
  apply rd_step in Hr. rewrite S2, S1, <- Ec in Hr.
  dstep3 Hr S3. dstep3 Hr S4. dstep3 Hr S5. dstep3 Hr S6.
  match type of Hr with context [match ?o with Some _ => _ | None => _ end] => destruct o as [v1|]; [|cbn in Hr; discriminate Hr] end.
  match type of Hr with context [match ?o with Some _ => _ | None => _ end] => destruct o as [v2|]; [|cbn in Hr; discriminate Hr] end.
  match type of Hr with run _ _ _ ?s _ = _ => rename s into wcur end.
  assert (P0 : forall i d, beta wcur i d = beta w i d) by (intros i y; rewrite S6, S5, S4, S3, S2, S1; reflexivity).
  clear S1 S2 S3 S4 S5 S6.
  destruct (N.eqb_spec b1 0) as [Z|_]; [contradiction|]. destruct (N.eqb_spec c1 0) as [Z|_]; [contradiction|]. cbn [negb] in Hr.
  apply unlink1_step in Hr. destruct Hr as (u1 & k1 & U1 & Hr). unfold b_unlink1 in U1.
  assert (V1 : beta wcur 1 e = b1) by (rewrite P0; auto). rewrite V1 in U1.
  apply unlink1_step in Hr. destruct Hr as (u2 & k2 & U2 & Hr). unfold b_unlink1 in U2.
  assert (V2 : beta u1 1 d2 = c1) by (lk2; auto). rewrite V2 in U2.
  apply unlink2_step in Hr. destruct Hr as (u3 & k3 & U3 & Hr). unfold b_unlink2 in U3.
  assert (V3 : beta u2 2 e = d2) by (lk2; auto). rewrite V3 in U3.
  apply link1_step in Hr. destruct Hr as (s1 & j1 & L1 & Hr). unfold b_link1 in L1.
  apply link1_step in Hr. destruct Hr as (s2 & j2 & L2 & Hr). unfold b_link1 in L2.
  apply link1_step in Hr. destruct Hr as (s3 & j3 & L3 & Hr). unfold b_link1 in L3.
  apply link1_step in Hr. destruct Hr as (s4 & j4 & L4 & Hr). unfold b_link1 in L4.
  apply link2_step in Hr. destruct Hr as (s5 & j5 & L5 & Hr). unfold b_link2 in L5.
  apply link2_step in Hr. destruct Hr as (s6 & j6 & L6 & Hr). unfold b_link2 in L6.
  assert (T : b_same s6 w').
  { eapply last_step; [|exact Hr]. apply writes_in_bind; [apply wi_vertex_id|]. intros ?. cbn. intros; repeat split; exact I. }
  unfold b_same in T. intros i y. rewrite T.
  destruct (N.eqb_spec i 1) as [->|Ni1]; [|destruct (N.eqb_spec i 0) as [->|Ni0]; [|destruct (N.eqb_spec i 2) as [->|Ni2]]].
  - lk2.
    destruct (N.eqb_spec y e) as [->|N0]; [simpl_ne; reflexivity|].
    destruct (N.eqb_spec y nd1) as [->|N1]; [simpl_ne; reflexivity|].
    destruct (N.eqb_spec y d2) as [->|N2]; [simpl_ne; reflexivity|].
    destruct (N.eqb_spec y nd2) as [->|N3]; [simpl_ne; reflexivity|].
    simpl_ne. reflexivity.
  - lk2.
    destruct (N.eqb_spec y nd1) as [->|N0]; [simpl_ne; reflexivity|].
    destruct (N.eqb_spec y b1) as [->|N1]; [simpl_ne; reflexivity|].
    destruct (N.eqb_spec y nd2) as [->|N2]; [simpl_ne; reflexivity|].
    destruct (N.eqb_spec y c1) as [->|N3]; [simpl_ne; reflexivity|].
    simpl_ne. reflexivity.
  - lk2.
    destruct (N.eqb_spec y e) as [->|N0]; [simpl_ne; reflexivity|].
    destruct (N.eqb_spec y nd2) as [->|N1]; [simpl_ne; reflexivity|].
    destruct (N.eqb_spec y d2) as [->|N2]; [simpl_ne; reflexivity|].
    destruct (N.eqb_spec y nd1) as [->|N3]; [simpl_ne; reflexivity|].
    simpl_ne. reflexivity.
  - rewrite L6, L5, L4, L3, L2, L1, U3, U2, U1, P0.
    rewrite (proj2 (N.eqb_neq i 0) Ni0), (proj2 (N.eqb_neq i 1) Ni1), (proj2 (N.eqb_neq i 2) Ni2). cbn [andb]. reflexivity.
Qed.

(** ** the new vertex is at the requested position, under its identifier; no other coordinate changes *)
Definition Snone (v : var) : Prop := False.
Definition v_same (w w' : store) : Prop := forall d, vertex w' d = vertex w d.

Definition s_same (w w' : store) : Prop := forall v, w' v = w v.
Lemma s_same_b w w' : s_same w w' -> b_same w w'.
Proof. intros Hs i d. unfold beta. rewrite Hs. reflexivity. Qed.
Lemma s_same_v w w' : s_same w w' -> v_same w w'.
Proof. intros Hs d. unfold vertex. rewrite Hs. reflexivity. Qed.
Lemma s_same_wf n w w' : s_same w w' -> wf2 n w -> wf2 n w'.
Proof. intros Hs W. eapply wf2_ext; [exact W|]. split; intros; unfold beta, unused; rewrite Hs; reflexivity. Qed.
Lemma s_same_trans a b c : s_same a b -> s_same b c -> s_same a c.
Proof. intros H1 H2 v. rewrite H2, H1. reflexivity. Qed.
Lemma ro_step {X} E (a : prog X) (k : X -> prog unit) c w cnt w1 cnt1 :
  writes_in Snone a -> run E (bind a k) c w cnt = (Done tt, w1, cnt1) ->
  exists x wa cnta, s_same w wa /\ run E (k x) c wa cnta = (Done tt, w1, cnt1).
Proof.
  intros Hw Hr. rewrite run_bind in Hr.
  destruct (run E a c w cnt) as [[[x|e| |q] wa] cnta] eqn:Ea; try discriminate Hr.
  exists x, wa, cnta. split; [|exact Hr]. intros v. eapply writes_in_run; [exact Hw|exact Ea|]. intros [].
Qed.
Lemma wi_is_free_n d : writes_in Snone (is_free_atomic d).
Proof.
  unfold is_free_atomic. cbn. intros x. destruct (negb _); [exact I|]. cbn. intros y. destruct (negb _); [exact I|]. cbn. auto.
Qed.
Lemma link1_step_v E l r (k : prog unit) c w cnt w1 cnt1 :
  run E (one_link_core l r ;;; k) c w cnt = (Done tt, w1, cnt1) ->
  exists wa cnta, v_same w wa /\ run E k c wa cnta = (Done tt, w1, cnt1).
Proof.
  intros Hr. rewrite run_bind in Hr.
  destruct (run E (one_link_core l r) c w cnt) as [[[[]|e| |q] wa] cnta] eqn:Es; try discriminate Hr.
  exists wa, cnta. split; [|exact Hr]. apply run_one_link_core in Es. destruct Es as (-> & _). intros d. apply vertex_set1.
Qed.
Lemma link2_step_v E l r (k : prog unit) c w cnt w1 cnt1 :
  run E (two_link_core l r ;;; k) c w cnt = (Done tt, w1, cnt1) ->
  exists wa cnta, v_same w wa /\ run E k c wa cnta = (Done tt, w1, cnt1).
Proof.
  intros Hr. rewrite run_bind in Hr.
  destruct (run E (two_link_core l r) c w cnt) as [[[[]|e| |q] wa] cnta] eqn:Es; try discriminate Hr.
  exists wa, cnta. split; [|exact Hr]. apply run_two_link_core in Es. destruct Es as (-> & _). intros d. apply vertex_set2.
Qed.
Lemma unlink1_step_v E l (k : prog unit) c w cnt w1 cnt1 :
  run E (one_unlink_core l ;;; k) c w cnt = (Done tt, w1, cnt1) ->
  exists wa cnta, v_same w wa /\ run E k c wa cnta = (Done tt, w1, cnt1).
Proof.
  intros Hr. rewrite run_bind in Hr.
  destruct (run E (one_unlink_core l) c w cnt) as [[[[]|e| |q] wa] cnta] eqn:Es; try discriminate Hr.
  exists wa, cnta. split; [|exact Hr]. apply run_one_unlink_core in Es. destruct Es as (-> & _). intros d. apply vertex_clr1.
Qed.
Lemma unlink2_step_v E l (k : prog unit) c w cnt w1 cnt1 :
  run E (two_unlink_core l ;;; k) c w cnt = (Done tt, w1, cnt1) ->
  exists wa cnta, v_same w wa /\ run E k c wa cnta = (Done tt, w1, cnt1).
Proof.
  intros Hr. rewrite run_bind in Hr.
  destruct (run E (two_unlink_core l) c w cnt) as [[[[]|e| |q] wa] cnta] eqn:Es; try discriminate Hr.
  exists wa, cnta. split; [|exact Hr]. apply run_two_unlink_core in Es. destruct Es as (-> & _). intros d. apply vertex_clr2.
Qed.

Ltac rostep Hr B :=
  apply ro_step in Hr;
  [ let x := fresh "x" in let wk := fresh "wk" in let ck := fresh "ck" in destruct Hr as (x & wk & ck & B & Hr); cbv beta in Hr
  | first [ apply wi_vertex_id | (cbn; intros; exact I) | apply wi_is_free_n
          | (repeat match goal with |- writes_in _ (if ?b then _ else _) => destruct b end; first [exact I | apply wi_is_free_n]) ] ].
Ltac vstep L Hr V := apply L in Hr; let wk := fresh "wv" in let ck := fresh "cv" in destruct Hr as (wk & ck & V & Hr).

(* the last two statements: identifier of nd1 in the final topology, then the write *)
Lemma final_write E n c s cnt w' cnt' nd1 (vv : V) :
  dom_ok E n -> wf2 n w' -> nd1 <> 0 -> nd1 < n ->
  run E (vnew <- vertex_id_tx n nd1 ;; write_vertex vnew vv) c s cnt = (Done tt, w', cnt') ->
  exists i', is_vid n w' nd1 i' /\ vertex w' i' = Some vv /\ forall d, d <> i' -> vertex w' d = vertex s d.
Proof.
  intros Hdom W' Hn0 Hnn Hr.
  assert (Ht : topo_eq s w').
  { apply Sdata_topo. intros v Hv. eapply writes_in_run; [|exact Hr|exact Hv].
    apply writes_in_bind; [apply wi_vertex_id|]. intros ?. cbn. intros; repeat split; exact I. }
  assert (Ws : wf2 n s) by (eapply wf2_ext; [exact W'|]; destruct Ht as [A B]; split; intros; [rewrite A|rewrite B]; reflexivity).
  destruct (vid_run E n c s nd1 cnt Hdom Ws Hn0 Hnn) as (i' & Ri & Vi). rewrite run_bind, Ri in Hr.
  unfold write_vertex in Hr. cbn [run bind rdV wrV] in Hr.
  destruct (e_dom E (XVertex i')); [|discriminate Hr]. cbn [run] in Hr. injection Hr as <- <-.
  exists i'. split; [|split].
  - destruct Vi as (L & EL & ML). exists L. split; [|exact ML]. rewrite <- EL. apply orbit2_topo.
    split; intros; unfold beta, unused; rewrite upd_other; auto; discriminate.
  - unfold vertex. rewrite upd_same. reflexivity.
  - intros d Hd. unfold vertex. rewrite upd_other; [reflexivity|congruence].
Qed.


Lemma rdV_step {X} E d (k : option V -> prog X) c w cnt o w1 cnt1 :
  run E (x <- rdV d ;; k x) c w cnt = (Done o, w1, cnt1) -> run E (k (vertex w d)) c w cnt = (Done o, w1, cnt1).
Proof. cbn [run bind rdV]. destruct (e_dom E (XVertex d)); [auto|discriminate]. Qed.
Lemma s_same_topo w w' : s_same w w' -> topo_eq w w'.
Proof. intros Hs. split; intros; unfold beta, unused; rewrite Hs; reflexivity. Qed.
Lemma is_vid_same n w w' d i : s_same w w' -> is_vid n w' d i -> is_vid n w d i.
Proof. intros Hs. apply is_vid_topo, s_same_topo, Hs. Qed.

Theorem insert_vertex_position E n ks e nd1 nd2 t c w cnt w' cnt' :
  dom_ok E n -> wf2 n w -> okd n w e -> okd n w nd1 -> (beta w 2 e <> 0 -> okd n w nd2) ->
  ~ (beta w 1 e = 0 /\ beta w 2 e = 0) ->
  run E (insert_vertex_on_edge n ks e nd1 nd2 t) c w cnt = (Done tt, w', cnt') ->
  exists i1 i2 i' v1 v2,
    is_vid n w e i1 /\ is_vid n w (if beta w 2 e =? 0 then beta w 1 e else beta w 2 e) i2 /\
    vertex w i1 = Some v1 /\ vertex w i2 = Some v2 /\
    is_vid n w' nd1 i' /\ vertex w' i' = Some (new_vertex v1 v2 t) /\ forall d, d <> i' -> vertex w' d = vertex w d.
Proof.
  intros Hdom W Oe O1 O2 Hends Hr.
  pose proof (insert_vertex_wf E n w ks e nd1 nd2 t c cnt w' cnt' W Oe O1 O2 Hends Hr) as W'.
  pose proof Oe as (He0 & Hen & _). pose proof O1 as (H10 & H1n & _).
  unfold insert_vertex_on_edge in Hr. cbv zeta in Hr.
  destruct (match t with Some t0 => negb (sc_in_unit t0) | None => false end); [cbn in Hr; discriminate Hr|].
  apply rd_step in Hr.
  rostep Hr B1. destruct x; cbn [negb] in Hr; [|cbn in Hr; discriminate Hr].
  rostep Hr B2. destruct x; cbn [negb] in Hr; [|cbn in Hr; discriminate Hr].
  pose proof (s_same_trans _ _ _ B1 B2) as B. clear B1 B2.
  pose proof (s_same_wf n _ _ B W) as Wk. pose proof (s_same_b _ _ B) as Bb. pose proof (s_same_v _ _ B) as Bv.
  apply rd_step in Hr. rewrite Bb in Hr.
  destruct (N.eqb_spec (beta w 2 e) 0) as [Z2|N2].
  - (* one-dart edge *)
    apply rd_step in Hr. rewrite Bb in Hr.
    assert (Nb : beta w 1 e <> 0) by (intros Z; apply Hends; auto).
    assert (Hbn : beta w 1 e < n) by (apply W; [lia|exact Hen]).
    destruct (vid_run E n c wk0 e ck0 Hdom Wk He0 Hen) as (i1 & R1 & Vi1). rewrite run_bind, R1 in Hr.
    destruct (vid_run E n c wk0 (beta w 1 e) ck0 Hdom Wk Nb Hbn) as (i2 & R2 & Vi2). rewrite run_bind, R2 in Hr.
    apply rdV_step in Hr. apply rdV_step in Hr. rewrite !Bv in Hr.
    destruct (vertex w i1) as [v1|] eqn:E1; [|cbn in Hr; discriminate Hr].
    destruct (vertex w i2) as [v2|] eqn:E2; [|cbn in Hr; discriminate Hr].
    destruct (N.eqb_spec (beta w 1 e) 0) as [Z|_]; [contradiction|]. cbn [negb] in Hr.
    vstep unlink1_step_v Hr X1. vstep link1_step_v Hr X2. vstep link1_step_v Hr X3.
    destruct (final_write E n c _ _ w' cnt' nd1 _ Hdom W' H10 H1n Hr) as (i' & Vi' & Ei' & Fr).
    exists i1, i2, i', v1, v2. split; [eapply is_vid_same; eauto|]. split; [eapply is_vid_same; eauto|].
    split; [exact E1|]. split; [exact E2|]. split; [exact Vi'|]. split; [exact Ei'|].
    intros d Hd. rewrite (Fr d Hd), X3, X2, X1. apply Bv.
  - (* two-dart edge *)
    assert (Hdn : beta w 2 e < n) by (apply W; [lia|exact Hen]).
    apply rd_step in Hr. apply rd_step in Hr. rewrite !Bb in Hr.
    destruct (vid_run E n c wk0 e ck0 Hdom Wk He0 Hen) as (i1 & R1 & Vi1). rewrite run_bind, R1 in Hr.
    destruct (vid_run E n c wk0 (beta w 2 e) ck0 Hdom Wk N2 Hdn) as (i2 & R2 & Vi2). rewrite run_bind, R2 in Hr.
    apply rdV_step in Hr. apply rdV_step in Hr. rewrite !Bv in Hr.
    destruct (vertex w i1) as [v1|] eqn:E1; [|cbn in Hr; discriminate Hr].
    destruct (vertex w i2) as [v2|] eqn:E2; [|cbn in Hr; discriminate Hr].
    assert (Hk : exists s cs, v_same wk0 s /\
              run E (vnew <- vertex_id_tx n nd1 ;; write_vertex vnew (new_vertex v1 v2 t)) c s cs = (Done tt, w', cnt')).
    { destruct (negb (beta w 1 e =? 0)), (negb (beta w 1 (beta w 2 e) =? 0)).
      - vstep unlink1_step_v Hr X1. vstep unlink1_step_v Hr X2. vstep unlink2_step_v Hr X3.
        vstep link1_step_v Hr X4. vstep link1_step_v Hr X5. vstep link1_step_v Hr X6. vstep link1_step_v Hr X7.
        vstep link2_step_v Hr X8. vstep link2_step_v Hr X9.
        eexists _, _. split; [|exact Hr]. intros d. rewrite X9, X8, X7, X6, X5, X4, X3, X2, X1. reflexivity.
      - vstep unlink1_step_v Hr X1. cbn [run bind] in Hr. vstep unlink2_step_v Hr X3.
        vstep link1_step_v Hr X4. vstep link1_step_v Hr X5. vstep link1_step_v Hr X6. cbn [run bind] in Hr.
        vstep link2_step_v Hr X8. vstep link2_step_v Hr X9.
        eexists _, _. split; [|exact Hr]. intros d. rewrite X9, X8, X6, X5, X4, X3, X1. reflexivity.
      - cbn [run bind] in Hr. vstep unlink1_step_v Hr X2. vstep unlink2_step_v Hr X3.
        vstep link1_step_v Hr X4. cbn [run bind] in Hr. vstep link1_step_v Hr X6. vstep link1_step_v Hr X7.
        vstep link2_step_v Hr X8. vstep link2_step_v Hr X9.
        eexists _, _. split; [|exact Hr]. intros d. rewrite X9, X8, X7, X6, X4, X3, X2. reflexivity.
      - cbn [run bind] in Hr. vstep unlink2_step_v Hr X3.
        vstep link1_step_v Hr X4. cbn [run bind] in Hr. vstep link1_step_v Hr X6. cbn [run bind] in Hr.
        vstep link2_step_v Hr X8. vstep link2_step_v Hr X9.
        eexists _, _. split; [|exact Hr]. intros d. rewrite X9, X8, X6, X4, X3. reflexivity. }
    destruct Hk as (s & cs & Xs & Hk).
    destruct (final_write E n c s cs w' cnt' nd1 _ Hdom W' H10 H1n Hk) as (i' & Vi' & Ei' & Fr).
    exists i1, i2, i', v1, v2. split; [eapply is_vid_same; eauto|]. split; [eapply is_vid_same; eauto|].
    split; [exact E1|]. split; [exact E2|]. split; [exact Vi'|]. split; [exact Ei'|].
    intros d Hd. rewrite (Fr d Hd), Xs. apply Bv.
Qed.

End InsertTopo.
