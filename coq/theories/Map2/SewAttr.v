(** * C04, data clause for the attribute kinds other than coordinates: what [merge_attributes] / [split_attributes]
    do to the attribute slots, kind by kind, and what the sews make of it.

    [amerge_effect k w w' l r out]: in kind [k], slot [out] of [w'] carries the lawful merge (the kind's own law)
    of slots [l] and [r] of [w], which exists; the two former slots are emptied unless one of them is [out]; every
    other slot of the kind is untouched (when [l = r] the value is kept, moved if the identifier changed).
    [attrs_effect ks c w w' ...]: this holds for every registered kind bound to cell kind [c], and the slots of every
    other kind are untouched.  [asplit_effect] / [attrs_split_effect] are the mirror images. *)
From Coq Require Import List NArith Bool Lia.
From HC Require Import Base.Closure Stm.Prog Stm.ProgFacts Stm.Atomic Map2.Ops2 Map2.State2 Map2.Wf2 Map2.Wf2Proofs
  Map2.Orbit2 Map2.Orbit2Proofs Map2.SewData.
Import ListNotations.
Open Scope N_scope.
Arguments N.eqb : simpl never.

Section SewAttr.
Context `{Sig}.

Definition amerged (k : N) (a b : option A) : option A :=
  match a, b with
  | Some v1, Some v2 => a_merge k v1 v2
  | Some v, None | None, Some v => a_merge_inc k v
  | None, None => a_merge_none k
  end.
Definition asplit_of (k : N) (a : option A) : option (A * A) :=
  match a with Some v => a_split k v | None => a_split_none k end.

Definition amerge_effect (k : N) (w w' : store) (l r out : N) : Prop :=
  (forall d, d <> l -> d <> r -> d <> out -> attr w' k d = attr w k d) /\
  (l <> r -> amerged k (attr w k l) (attr w k r) <> None /\ attr w' k out = amerged k (attr w k l) (attr w k r) /\
             (l <> out -> attr w' k l = None) /\ (r <> out -> attr w' k r = None)) /\
  (l = r -> attr w' k out = attr w k l /\ (l <> out -> attr w' k l = None)).
Definition asplit_effect (k : N) (w w' : store) (lo ro inp : N) : Prop :=
  (forall d, d <> lo -> d <> ro -> d <> inp -> attr w' k d = attr w k d) /\
  (lo <> ro -> exists lv rv, asplit_of k (attr w k inp) = Some (lv, rv) /\ attr w' k lo = Some lv /\ attr w' k ro = Some rv /\
                (inp <> lo -> inp <> ro -> attr w' k inp = None)) /\
  (lo = ro -> attr w' k lo = attr w k inp /\ (inp <> lo -> attr w' k inp = None)).

Definition attrs_effect (ks : kinds) (c0 : cellkind) (w w' : store) (l r out : N) : Prop :=
  forall k, (In (k, c0) ks -> amerge_effect k w w' l r out) /\ (~ In (k, c0) ks -> forall d, attr w' k d = attr w k d).
Definition attrs_split_effect (ks : kinds) (c0 : cellkind) (w w' : store) (lo ro inp : N) : Prop :=
  forall k, (In (k, c0) ks -> asplit_effect k w w' lo ro inp) /\ (~ In (k, c0) ks -> forall d, attr w' k d = attr w k d).

Lemma attr_upd_a s k e x k' d : attr (upd s (XAttr k e) (VA x)) k' d = if (k' =? k) && (d =? e) then x else attr s k' d.
Proof.
  unfold attr. destruct (N.eqb_spec k' k) as [->|Nk]; cbn [andb].
  - destruct (N.eqb_spec d e) as [->|Nd]; [rewrite upd_same; reflexivity|rewrite upd_other; [reflexivity|congruence]].
  - rewrite upd_other; [reflexivity|congruence].
Qed.

(* the only variables a merge / split of kind [k] writes *)
Definition Sk (k : N) (v : var) : Prop := match v with XAttr k' _ => k' = k | _ => False end.
Lemma wi_attr_merge_k k o l r : writes_in (Sk k) (attr_merge k o l r).
Proof.
  unfold attr_merge. destruct (l =? r).
  - destruct (o =? l); cbn; auto.
  - cbn. intros a b inj. destruct (if inj then None else _); cbn; auto.
Qed.
Lemma wi_attr_split_k k lo ro i : writes_in (Sk k) (attr_split k lo ro i).
Proof.
  unfold attr_split. destruct (lo =? ro).
  - destruct (lo =? i); cbn; auto.
  - cbn. intros a inj. destruct (if inj then None else _) as [[? ?]|]; cbn; auto.
Qed.

Lemma run_attr_merge E k out l r c w cnt w' cnt' :
  run E (attr_merge k out l r) c w cnt = (Done tt, w', cnt') -> amerge_effect k w w' l r out.
Proof.
  unfold attr_merge, amerge_effect. destruct (N.eqb_spec l r) as [->|Hlr].
  - destruct (N.eqb_spec out r) as [->|Hor]; cbn [run bind rdA wrA].
    + intros Hr. inversion Hr; subst. repeat split; auto; congruence.
    + destruct (e_dom E (XAttr k r)); [|discriminate]. cbn [run]. destruct (e_dom E (XAttr k out)); [|intros Hx; discriminate Hx].
      cbn [run]. intros Hr. inversion Hr; subst. split; [|split; [congruence|]].
      * intros d D1 _ D3. rewrite !attr_upd_a, N.eqb_refl. cbn [andb].
        destruct (N.eqb_spec d out); [contradiction|]. destruct (N.eqb_spec d r); [contradiction|]. reflexivity.
      * intros _. rewrite !attr_upd_a, !N.eqb_refl. cbn [andb]. split; [reflexivity|].
        intros Hne. destruct (N.eqb_spec r out); [congruence|]. reflexivity.
  - cbn [run bind rdA wrA].
    destruct (e_dom E (XAttr k l)) eqn:Dl; [|discriminate]. destruct (e_dom E (XAttr k r)) eqn:Dr; [|discriminate].
    fold (attr w k l). fold (attr w k r).
    destruct (match e_fail_at E with Some j => j =? cnt | None => false end); [cbn [run]; discriminate|].
    assert (Tail : forall v, amerged k (attr w k l) (attr w k r) = Some v ->
      run E (Wr (XAttr k r) (VA None) (Wr (XAttr k l) (VA None) (wrA k out (Some v)))) c w (cnt + 1) = (Done tt, w', cnt') ->
      (forall d : N, d <> l -> d <> r -> d <> out -> attr w' k d = attr w k d) /\
      (l <> r -> amerged k (attr w k l) (attr w k r) <> None /\ attr w' k out = amerged k (attr w k l) (attr w k r) /\
         (l <> out -> attr w' k l = None) /\ (r <> out -> attr w' k r = None)) /\
      (l = r -> attr w' k out = attr w k l /\ (l <> out -> attr w' k l = None))).
    { intros v Em. cbn [run bind wrA]. rewrite Dr, Dl. cbn [run]. destruct (e_dom E (XAttr k out)); [|discriminate]. cbn [run].
      intros Hr. inversion Hr; subst. split; [|split; [|congruence]].
      + intros d D1 D2 D3. rewrite !attr_upd_a, N.eqb_refl. cbn [andb].
        destruct (N.eqb_spec d out); [contradiction|]. destruct (N.eqb_spec d l); [contradiction|]. destruct (N.eqb_spec d r); [contradiction|]. reflexivity.
      + intros _. rewrite Em. split; [discriminate|]. rewrite !attr_upd_a, !N.eqb_refl. cbn [andb]. split; [reflexivity|]. split.
        * intros Hne. destruct (N.eqb_spec l out); [congruence|]. reflexivity.
        * intros Hne. destruct (N.eqb_spec r out); [congruence|]. destruct (N.eqb_spec r l); [congruence|]. reflexivity. }
    revert Tail. unfold amerged. destruct (attr w k l) as [a|], (attr w k r) as [b|]; intros Tail; cbn [run].
    + destruct (a_merge k a b) as [v|] eqn:Em; [apply (Tail v eq_refl)|cbn [run]; discriminate].
    + destruct (a_merge_inc k a) as [v|] eqn:Em; [apply (Tail v eq_refl)|cbn [run]; discriminate].
    + destruct (a_merge_inc k b) as [v|] eqn:Em; [apply (Tail v eq_refl)|cbn [run]; discriminate].
    + destruct (a_merge_none k) as [v|] eqn:Em; [apply (Tail v eq_refl)|cbn [run]; discriminate].
Qed.

Lemma run_attr_split E k lo ro inp c w cnt w' cnt' :
  run E (attr_split k lo ro inp) c w cnt = (Done tt, w', cnt') -> asplit_effect k w w' lo ro inp.
Proof.
  unfold attr_split, asplit_effect. destruct (N.eqb_spec lo ro) as [->|Hlr].
  - destruct (N.eqb_spec ro inp) as [->|Hor]; cbn [run bind rdA wrA].
    + intros Hr. inversion Hr; subst. repeat split; auto; congruence.
    + destruct (e_dom E (XAttr k inp)); [|discriminate]. cbn [run]. destruct (e_dom E (XAttr k ro)); [|discriminate].
      cbn [run]. intros Hr. inversion Hr; subst. split; [|split; [congruence|]].
      * intros d D1 _ D3. rewrite !attr_upd_a, N.eqb_refl. cbn [andb].
        destruct (N.eqb_spec d ro); [contradiction|]. destruct (N.eqb_spec d inp); [contradiction|]. reflexivity.
      * intros _. rewrite !attr_upd_a, !N.eqb_refl. cbn [andb]. split; [reflexivity|].
        intros Hne. destruct (N.eqb_spec inp ro); [congruence|]. reflexivity.
  - cbn [run bind rdA wrA].
    destruct (e_dom E (XAttr k inp)) eqn:Di; [|discriminate]. fold (attr w k inp).
    destruct (match e_fail_at E with Some j => j =? cnt | None => false end); [cbn [run]; discriminate|].
    change (match attr w k inp with Some v => a_split k v | None => a_split_none k end) with (asplit_of k (attr w k inp)).
    destruct (asplit_of k (attr w k inp)) as [[lv rv]|] eqn:Es; [|cbn [run]; discriminate].
    cbn [run bind wrA]. rewrite Di. cbn [run]. destruct (e_dom E (XAttr k lo)); [|discriminate]. cbn [run].
    destruct (e_dom E (XAttr k ro)); [|discriminate]. cbn [run].
    intros Hr. inversion Hr; subst. split; [|split; [|congruence]].
    + intros d D1 D2 D3. rewrite !attr_upd_a, N.eqb_refl. cbn [andb].
      destruct (N.eqb_spec d ro); [contradiction|]. destruct (N.eqb_spec d lo); [contradiction|]. destruct (N.eqb_spec d inp); [contradiction|]. reflexivity.
    + intros _. exists lv, rv. split; [reflexivity|]. rewrite !attr_upd_a, !N.eqb_refl. cbn [andb].
      destruct (N.eqb_spec lo ro); [congruence|]. split; [reflexivity|]. split; [reflexivity|].
      intros A1 B1. destruct (N.eqb_spec inp ro); [congruence|]. destruct (N.eqb_spec inp lo); [congruence|]. reflexivity.
Qed.

Lemma cellkind_eqb_eq a b : cellkind_eqb a b = true <-> a = b.
Proof. destruct a, b; cbn; split; intros; try reflexivity; try discriminate. Qed.

(* a step that leaves every slot of kind [k] alone transports an effect of kind [k] *)
Lemma amerge_effect_ext k w1 w2 w1' w2' l r out :
  (forall d, attr w2 k d = attr w1 k d) -> (forall d, attr w2' k d = attr w1' k d) ->
  amerge_effect k w1 w1' l r out -> amerge_effect k w2 w2' l r out.
Proof.
  intros H1 H2 (A & B & C). unfold amerge_effect. split; [|split].
  - intros d D1 D2 D3. rewrite H2, H1. apply A; auto.
  - intros Hd. destruct (B Hd) as (P1 & P2 & P3 & P4). rewrite ?H1, ?H2. auto.
  - intros Hd. destruct (C Hd) as (P1 & P2). rewrite ?H1, ?H2. auto.
Qed.
Lemma asplit_effect_ext k w1 w2 w1' w2' lo ro inp :
  (forall d, attr w2 k d = attr w1 k d) -> (forall d, attr w2' k d = attr w1' k d) ->
  asplit_effect k w1 w1' lo ro inp -> asplit_effect k w2 w2' lo ro inp.
Proof.
  intros H1 H2 (A & B & C). unfold asplit_effect. split; [|split].
  - intros d D1 D2 D3. rewrite H2, H1. apply A; auto.
  - intros Hd. destruct (B Hd) as (lv & rv & P1 & P2 & P3 & P4). exists lv, rv. rewrite ?H1, ?H2. auto.
  - intros Hd. destruct (C Hd) as (P1 & P2). rewrite ?H1, ?H2. auto.
Qed.

Lemma kind_frame E k (p : prog unit) c w cnt w' cnt' k' :
  writes_in (Sk k) p -> run E p c w cnt = (Done tt, w', cnt') -> k' <> k -> forall d, attr w' k' d = attr w k' d.
Proof. intros Hw Hr Hk d. unfold attr. f_equal. eapply writes_in_run; [exact Hw|exact Hr|]. cbn. congruence. Qed.

Lemma run_merge_attributes E c0 out l r : forall ks c w cnt w' cnt', NoDup (map fst ks) ->
  run E (merge_attributes ks c0 out l r) c w cnt = (Done tt, w', cnt') -> attrs_effect ks c0 w w' l r out.
Proof.
  induction ks as [|[k1 c1] ks IH]; intros c w cnt w' cnt' Hnd Hr; cbn [merge_attributes] in Hr.
  - cbn in Hr. injection Hr as <- <-. intros k. split; [intros []|reflexivity].
  - cbn [map fst] in Hnd. inversion Hnd as [|? ? Hk1 Hnd']; subst.
    rewrite run_bind in Hr.
    destruct (run E (if cellkind_eqb c0 c1 then attr_merge k1 out l r else Ret tt) c w cnt) as [[o1 w1] cnt1] eqn:H1.
    destruct o1 as [[]|e| |q]; try discriminate Hr.
    specialize (IH c w1 cnt1 w' cnt' Hnd' Hr).
    assert (Hnot : ~ In (k1, c0) ks) by (intros Hin; apply Hk1; apply in_map_iff; exists (k1, c0); auto).
    destruct (cellkind_eqb c0 c1) eqn:Ec.
    + apply cellkind_eqb_eq in Ec. subst c1.
      pose proof (run_attr_merge E k1 out l r c w cnt w1 cnt1 H1) as Eff.
      intros k. destruct (N.eq_dec k k1) as [->|Nk].
      * split.
        -- intros _. eapply amerge_effect_ext; [reflexivity| |exact Eff]. intros d. apply (proj2 (IH k1) Hnot).
        -- intros Hn. exfalso. apply Hn. left. reflexivity.
      * pose proof (kind_frame E k1 _ c w cnt w1 cnt1 k (wi_attr_merge_k k1 out l r) H1 Nk) as Fr.
        split.
        -- intros [Heq|Hin]; [injection Heq as ->; contradiction|].
           eapply amerge_effect_ext; [exact (fun d => eq_sym (Fr d))|reflexivity|]. apply (proj1 (IH k) Hin).
        -- intros Hn d. rewrite (proj2 (IH k)); [apply Fr|]. intros Hin. apply Hn. right. exact Hin.
    + cbn in H1. injection H1 as <- <-.
      assert (Ne : c0 <> c1) by (intros ->; destruct c1; discriminate Ec).
      intros k. split.
      * intros [Heq|Hin]; [injection Heq as -> ->; contradiction|]. apply (proj1 (IH k) Hin).
      * intros Hn. apply (proj2 (IH k)). intros Hin. apply Hn. right. exact Hin.
Qed.

Lemma run_split_attributes E c0 lo ro inp : forall ks c w cnt w' cnt', NoDup (map fst ks) ->
  run E (split_attributes ks c0 lo ro inp) c w cnt = (Done tt, w', cnt') -> attrs_split_effect ks c0 w w' lo ro inp.
Proof.
  induction ks as [|[k1 c1] ks IH]; intros c w cnt w' cnt' Hnd Hr; cbn [split_attributes] in Hr.
  - cbn in Hr. injection Hr as <- <-. intros k. split; [intros []|reflexivity].
  - cbn [map fst] in Hnd. inversion Hnd as [|? ? Hk1 Hnd']; subst.
    rewrite run_bind in Hr.
    destruct (run E (if cellkind_eqb c0 c1 then attr_split k1 lo ro inp else Ret tt) c w cnt) as [[o1 w1] cnt1] eqn:H1.
    destruct o1 as [[]|e| |q]; try discriminate Hr.
    specialize (IH c w1 cnt1 w' cnt' Hnd' Hr).
    assert (Hnot : ~ In (k1, c0) ks) by (intros Hin; apply Hk1; apply in_map_iff; exists (k1, c0); auto).
    destruct (cellkind_eqb c0 c1) eqn:Ec.
    + apply cellkind_eqb_eq in Ec. subst c1.
      pose proof (run_attr_split E k1 lo ro inp c w cnt w1 cnt1 H1) as Eff.
      intros k. destruct (N.eq_dec k k1) as [->|Nk].
      * split.
        -- intros _. eapply asplit_effect_ext; [reflexivity| |exact Eff]. intros d. apply (proj2 (IH k1) Hnot).
        -- intros Hn. exfalso. apply Hn. left. reflexivity.
      * pose proof (kind_frame E k1 _ c w cnt w1 cnt1 k (wi_attr_split_k k1 lo ro inp) H1 Nk) as Fr.
        split.
        -- intros [Heq|Hin]; [injection Heq as ->; contradiction|].
           eapply asplit_effect_ext; [exact (fun d => eq_sym (Fr d))|reflexivity|]. apply (proj1 (IH k) Hin).
        -- intros Hn d. rewrite (proj2 (IH k)); [apply Fr|]. intros Hin. apply Hn. right. exact Hin.
    + cbn in H1. injection H1 as <- <-.
      assert (Ne : c0 <> c1) by (intros ->; destruct c1; discriminate Ec).
      intros k. split.
      * intros [Heq|Hin]; [injection Heq as -> ->; contradiction|]. apply (proj1 (IH k) Hin).
      * intros Hn. apply (proj2 (IH k)). intros Hin. apply Hn. right. exact Hin.
Qed.

(** ** the sews: coordinates steps and link steps leave the attribute slots alone *)
Definition Sv (v : var) : Prop := match v with XVertex _ => True | _ => False end.
Ltac wi := repeat (cbn; match goal with
  | |- _ /\ _ => split
  | |- forall _, _ => intro
  | |- True => exact I
  | |- writes_in _ (bind _ _) => apply writes_in_bind
  | |- writes_in _ (if ?b then _ else _) => destruct b
  | |- writes_in _ (match ?o with Some _ => _ | None => _ end) => destruct o
  | |- writes_in _ (let '(_, _) := ?o in _) => destruct o
  end); auto.
Lemma wi_vertices_merge_v o l r : writes_in Sv (vertices_merge o l r).
Proof. unfold vertices_merge. wi. Qed.
Lemma wi_vertices_split_v lo ro i : writes_in Sv (vertices_split lo ro i).
Proof. unfold vertices_split. wi. Qed.
Lemma vstep_attrs E (p : prog unit) c w cnt w' cnt' :
  writes_in Sv p -> run E p c w cnt = (Done tt, w', cnt') -> forall k d, attr w' k d = attr w k d.
Proof. intros Hw Hr k d. unfold attr. f_equal. eapply writes_in_run; [exact Hw|exact Hr|]. cbn. auto. Qed.

Lemma attrs_effect_ext ks c0 w1 w2 w1' w2' l r out :
  (forall k d, attr w2 k d = attr w1 k d) -> (forall k d, attr w2' k d = attr w1' k d) ->
  attrs_effect ks c0 w1 w1' l r out -> attrs_effect ks c0 w2 w2' l r out.
Proof.
  intros H1 H2 Eff k. destruct (Eff k) as [A B]. split.
  - intros Hin. eapply amerge_effect_ext; [apply H1|apply H2|exact (A Hin)].
  - intros Hn d. rewrite H2, H1. apply B, Hn.
Qed.
Lemma attrs_split_effect_ext ks c0 w1 w2 w1' w2' lo ro inp :
  (forall k d, attr w2 k d = attr w1 k d) -> (forall k d, attr w2' k d = attr w1' k d) ->
  attrs_split_effect ks c0 w1 w1' lo ro inp -> attrs_split_effect ks c0 w2 w2' lo ro inp.
Proof.
  intros H1 H2 Eff k. destruct (Eff k) as [A B]. split.
  - intros Hin. eapply asplit_effect_ext; [apply H1|apply H2|exact (A Hin)].
  - intros Hn d. rewrite H2, H1. apply B, Hn.
Qed.

Definition is_eid (n : N) (s : store) (d i : N) : Prop :=
  exists L, orbit2 n s PEdge d = Some L /\ minof i L.

(* identifiers as the programs compute them *)
Lemma vid_run E n c w d cnt : dom_ok E n -> wf2 n w -> d <> 0 -> d < n ->
  exists i, run E (vertex_id_tx n d) c w cnt = (Done i, w, cnt) /\ is_vid n w d i.
Proof.
  intros Hdom W Hd Hdn. destruct (orbit2_spec n w PVertex d W eq_refl Hd Hdn) as (L & EL & _).
  destruct (vertex_id_min E n c w d cnt L Hdom W Hd Hdn EL) as (i & Ri & Mi). exists i. split; [exact Ri|exists L; auto].
Qed.
Lemma eid_run E n c w d cnt : dom_ok E n -> wf2 n w -> d <> 0 -> d < n ->
  exists i, run E (edge_id_tx d) c w cnt = (Done i, w, cnt) /\ is_eid n w d i.
Proof.
  intros Hdom W Hd Hdn. destruct (orbit2_spec n w PEdge d W eq_refl Hd Hdn) as (L & EL & _).
  destruct (edge_id_min E n c w d cnt L Hdom W Hd Hdn EL) as (i & Ri & Mi). exists i. split; [exact Ri|exists L; auto].
Qed.
Lemma is_eid_topo n w w' d i : topo_eq w w' -> is_eid n w' d i -> is_eid n w d i.
Proof. intros Ht (L & EL & ML). exists L. rewrite <- (orbit2_topo n w w' PEdge d Ht). auto. Qed.

(** *** 1-sew / 1-unsew *)
Theorem one_sew_attr_data E n ks l r c w cnt w' cnt' :
  dom_ok E n -> wf2 n w -> okd n w l -> okd n w r -> beta w 2 l <> 0 -> NoDup (map fst ks) ->
  run E (one_sew n ks l r) c w cnt = (Done tt, w', cnt') ->
  exists i1 i2 i',
    is_vid n w (beta w 2 l) i1 /\ is_vid n w r i2 /\ is_vid n (set1 w l r) r i' /\
    attrs_effect ks KVertex w w' i1 i2 i'.
Proof.
  intros Hdom W Ol Or Nb Hks Hr. pose proof Ol as (Hl0 & Hln & Hlu). pose proof Or as (Hr0 & Hrn & Hru).
  unfold one_sew in Hr. rewrite run_rdB in Hr by (apply Hdom; [lia|exact Hln]).
  destruct (N.eqb_spec (beta w 2 l) 0) as [Z|_]; [contradiction|].
  assert (Hb2n : beta w 2 l < n) by (apply W; [lia|exact Hln]).
  destruct (vid_run E n c w (beta w 2 l) cnt Hdom W Nb Hb2n) as (i1 & R1 & V1). rewrite run_bind, R1 in Hr.
  destruct (vid_run E n c w r cnt Hdom W Hr0 Hrn) as (i2 & R2 & V2). rewrite run_bind, R2 in Hr.
  rewrite run_bind in Hr.
  destruct (run E (one_link_core l r) c w cnt) as [[o1 w1] cnt1] eqn:Hc.
  pose proof (triple_one_link_core E n l r c w cnt _ _ _ (conj W (conj Ol Or)) Hc) as W1.
  apply run_one_link_core in Hc. destruct o1 as [[]|e| |q]; try discriminate Hr.
  destruct Hc as (-> & ->).
  destruct (vid_run E n c (set1 w l r) r cnt Hdom W1 Hr0 Hrn) as (i' & R' & V'). rewrite run_bind, R' in Hr.
  rewrite run_bind in Hr.
  destruct (run E (vertices_merge i' i1 i2) c (set1 w l r) cnt) as [[o2 w2] cnt2] eqn:Hm.
  destruct o2 as [[]|e| |q]; try discriminate Hr.
  pose proof (vstep_attrs E _ _ _ _ _ _ (wi_vertices_merge_v i' i1 i2) Hm) as Ha.
  exists i1, i2, i'. split; [exact V1|]. split; [exact V2|]. split; [exact V'|].
  eapply attrs_effect_ext; [|reflexivity|exact (run_merge_attributes E KVertex i' i1 i2 ks c w2 cnt2 w' cnt' Hks Hr)].
  intros k d. symmetry. apply Ha.
Qed.

Theorem one_unsew_attr_data E n ks l c w cnt w' cnt' :
  dom_ok E n -> wf2 n w -> okd n w l -> beta w 2 l <> 0 -> beta w 1 l <> 0 -> NoDup (map fst ks) ->
  run E (one_unsew n ks l) c w cnt = (Done tt, w', cnt') ->
  let r := beta w 1 l in let w1 := clr1 w l r in
  exists i0 il ir,
    is_vid n w r i0 /\ is_vid n w1 (beta w 2 l) il /\ is_vid n w1 r ir /\
    attrs_split_effect ks KVertex w w' il ir i0.
Proof.
  intros Hdom W Ol Nb Nr Hks Hr r w1. pose proof Ol as (Hl0 & Hln & Hlu).
  unfold one_unsew in Hr. rewrite run_rdB in Hr by (apply Hdom; [lia|exact Hln]).
  destruct (N.eqb_spec (beta w 2 l) 0) as [Z|_]; [contradiction|].
  rewrite run_rdB in Hr by (apply Hdom; [lia|exact Hln]). fold r in Hr.
  assert (Hb2n : beta w 2 l < n) by (apply W; [lia|exact Hln]).
  assert (Hrn : r < n) by (apply W; [lia|exact Hln]).
  destruct (vid_run E n c w r cnt Hdom W Nr Hrn) as (i0 & R0 & V0). rewrite run_bind, R0 in Hr.
  rewrite run_bind in Hr.
  destruct (run E (one_unlink_core l) c w cnt) as [[o1 w1'] cnt1] eqn:Hc.
  pose proof (triple_one_unlink_core E n l c w cnt _ _ _ (conj W Ol) Hc) as W1.
  apply run_one_unlink_core in Hc. destruct o1 as [[]|e| |q]; try discriminate Hr.
  destruct Hc as (-> & ->). fold r in Hr, W1. fold w1 in Hr, W1.
  destruct (vid_run E n c w1 (beta w 2 l) cnt Hdom W1 Nb Hb2n) as (il & Rl & Vl). rewrite run_bind, Rl in Hr.
  destruct (vid_run E n c w1 r cnt Hdom W1 Nr Hrn) as (ir & Rr & Vr). rewrite run_bind, Rr in Hr.
  rewrite run_bind in Hr.
  destruct (run E (vertices_split il ir i0) c w1 cnt) as [[o2 w2] cnt2] eqn:Hs.
  destruct o2 as [[]|e| |q]; try discriminate Hr.
  pose proof (vstep_attrs E _ _ _ _ _ _ (wi_vertices_split_v il ir i0) Hs) as Ha.
  exists i0, il, ir. split; [exact V0|]. split; [exact Vl|]. split; [exact Vr|].
  eapply attrs_split_effect_ext; [|reflexivity|exact (run_split_attributes E KVertex il ir i0 ks c w2 cnt2 w' cnt' Hks Hr)].
  intros k d. symmetry. apply Ha.
Qed.

(** *** 2-sew: edge-bound kinds always, vertex-bound kinds at the ends that meet *)
Theorem two_sew_attr_data_none E n ks l r c w cnt w' cnt' :
  dom_ok E n -> wf2 n w -> okd n w l -> okd n w r -> l <> r -> beta w 1 l = 0 -> beta w 1 r = 0 -> NoDup (map fst ks) ->
  run E (two_sew n ks l r) c w cnt = (Done tt, w', cnt') ->
  exists en, is_eid n (set2 w l r) l en /\ attrs_effect ks KEdge w w' l r en.
Proof.
  intros Hdom W Ol Or Hlr A1 A2 Hks Hr. pose proof Ol as (Hl0 & Hln & Hlu). pose proof Or as (Hr0 & Hrn & Hru).
  assert (Hbln : beta w 1 l < n) by (apply W; [lia|exact Hln]).
  assert (Hbrn : beta w 1 r < n) by (apply W; [lia|exact Hrn]).
  unfold two_sew in Hr. rewrite !run_rdB in Hr by (apply Hdom; [lia|assumption]).
  rewrite A1, A2 in Hr. change (0 =? 0) with true in Hr. cbv iota in Hr.
  
  rewrite run_bind in Hr.
  destruct (run E (two_link_core l r) c w cnt) as [[o1 w1] cnt1] eqn:Hc.
  pose proof (triple_two_link_core E n l r c w cnt _ _ _ (conj W (conj Ol (conj Or Hlr))) Hc) as W1.
  apply run_two_link_core in Hc. destruct o1 as [[]|e| |q]; try discriminate Hr.
  destruct Hc as (-> & ->).
  destruct (eid_run E n c (set2 w l r) l cnt Hdom W1 Hl0 Hln) as (en & Ren & Ven). rewrite run_bind, Ren in Hr.
  exists en. split; [exact Ven|].
  exact (run_merge_attributes E KEdge en l r ks c (set2 w l r) cnt w' cnt' Hks Hr).
Qed.

Theorem two_sew_attr_data_left E n ks l r c w cnt w' cnt' :
  dom_ok E n -> wf2 n w -> okd n w l -> okd n w r -> l <> r -> beta w 1 l = 0 -> beta w 1 r <> 0 -> NoDup (map fst ks) ->
  run E (two_sew n ks l r) c w cnt = (Done tt, w', cnt') ->
  exists i1 i2 i' en wa,
    is_vid n w l i1 /\ is_vid n w (beta w 1 r) i2 /\ is_vid n (set2 w l r) l i' /\ is_eid n (set2 w l r) l en /\
    attrs_effect ks KVertex w wa i1 i2 i' /\ attrs_effect ks KEdge wa w' l r en.
Proof.
  intros Hdom W Ol Or Hlr A1 A2 Hks Hr. pose proof Ol as (Hl0 & Hln & Hlu). pose proof Or as (Hr0 & Hrn & Hru).
  assert (Hbln : beta w 1 l < n) by (apply W; [lia|exact Hln]).
  assert (Hbrn : beta w 1 r < n) by (apply W; [lia|exact Hrn]).
  unfold two_sew in Hr. rewrite !run_rdB in Hr by (apply Hdom; [lia|assumption]).
  rewrite A1 in Hr. change (0 =? 0) with true in Hr.
  destruct (N.eqb_spec (beta w 1 r) 0) as [Z|_]; [contradiction|].
  destruct (vid_run E n c w l cnt Hdom W Hl0 Hln) as (i1 & R1 & V1). rewrite run_bind, R1 in Hr.
  destruct (vid_run E n c w (beta w 1 r) cnt Hdom W A2 Hbrn) as (i2 & R2 & V2). rewrite run_bind, R2 in Hr.
  rewrite run_bind in Hr.
  destruct (run E (two_link_core l r) c w cnt) as [[o1 w1] cnt1] eqn:Hc.
  pose proof (triple_two_link_core E n l r c w cnt _ _ _ (conj W (conj Ol (conj Or Hlr))) Hc) as W1.
  apply run_two_link_core in Hc. destruct o1 as [[]|e| |q]; try discriminate Hr.
  destruct Hc as (-> & ->).
  destruct (vid_run E n c (set2 w l r) l cnt Hdom W1 Hl0 Hln) as (i' & R' & V'). rewrite run_bind, R' in Hr.
  destruct (eid_run E n c (set2 w l r) l cnt Hdom W1 Hl0 Hln) as (en & Ren & Ven). rewrite run_bind, Ren in Hr.
  rewrite run_bind in Hr.
  destruct (run E (vertices_merge i' i1 i2) c (set2 w l r) cnt) as [[o2 w2] cnt2] eqn:Hm.
  destruct o2 as [[]|e| |q]; try discriminate Hr.
  pose proof (vstep_attrs E _ _ _ _ _ _ (wi_vertices_merge_v i' i1 i2) Hm) as Ha.
  rewrite run_bind in Hr.
  destruct (run E (merge_attributes ks KVertex i' i1 i2) c w2 cnt2) as [[o3 wa] cnta] eqn:Hma.
  destruct o3 as [[]|e| |q]; try discriminate Hr.
  exists i1, i2, i', en, wa. split; [exact V1|]. split; [exact V2|]. split; [exact V'|]. split; [exact Ven|]. split.
  - eapply attrs_effect_ext; [|reflexivity|exact (run_merge_attributes E KVertex i' i1 i2 ks c w2 cnt2 wa cnta Hks Hma)].
    intros k d. symmetry. apply Ha.
  - exact (run_merge_attributes E KEdge en l r ks c wa cnta w' cnt' Hks Hr).
Qed.

Theorem two_sew_attr_data_right E n ks l r c w cnt w' cnt' :
  dom_ok E n -> wf2 n w -> okd n w l -> okd n w r -> l <> r -> beta w 1 l <> 0 -> beta w 1 r = 0 -> NoDup (map fst ks) ->
  run E (two_sew n ks l r) c w cnt = (Done tt, w', cnt') ->
  exists i1 i2 i' en wa,
    is_vid n w (beta w 1 l) i1 /\ is_vid n w r i2 /\ is_vid n (set2 w l r) r i' /\ is_eid n (set2 w l r) l en /\
    attrs_effect ks KVertex w wa i1 i2 i' /\ attrs_effect ks KEdge wa w' l r en.
Proof.
  intros Hdom W Ol Or Hlr A1 A2 Hks Hr. pose proof Ol as (Hl0 & Hln & Hlu). pose proof Or as (Hr0 & Hrn & Hru).
  assert (Hbln : beta w 1 l < n) by (apply W; [lia|exact Hln]).
  assert (Hbrn : beta w 1 r < n) by (apply W; [lia|exact Hrn]).
  unfold two_sew in Hr. rewrite !run_rdB in Hr by (apply Hdom; [lia|assumption]).
  rewrite A2 in Hr. change (0 =? 0) with true in Hr.
  destruct (N.eqb_spec (beta w 1 l) 0) as [Z|_]; [contradiction|].
  destruct (vid_run E n c w (beta w 1 l) cnt Hdom W A1 Hbln) as (i1 & R1 & V1). rewrite run_bind, R1 in Hr.
  destruct (vid_run E n c w r cnt Hdom W Hr0 Hrn) as (i2 & R2 & V2). rewrite run_bind, R2 in Hr.
  rewrite run_bind in Hr.
  destruct (run E (two_link_core l r) c w cnt) as [[o1 w1] cnt1] eqn:Hc.
  pose proof (triple_two_link_core E n l r c w cnt _ _ _ (conj W (conj Ol (conj Or Hlr))) Hc) as W1.
  apply run_two_link_core in Hc. destruct o1 as [[]|e| |q]; try discriminate Hr.
  destruct Hc as (-> & ->).
  destruct (vid_run E n c (set2 w l r) r cnt Hdom W1 Hr0 Hrn) as (i' & R' & V'). rewrite run_bind, R' in Hr.
  destruct (eid_run E n c (set2 w l r) l cnt Hdom W1 Hl0 Hln) as (en & Ren & Ven). rewrite run_bind, Ren in Hr.
  rewrite run_bind in Hr.
  destruct (run E (vertices_merge i' i1 i2) c (set2 w l r) cnt) as [[o2 w2] cnt2] eqn:Hm.
  destruct o2 as [[]|e| |q]; try discriminate Hr.
  pose proof (vstep_attrs E _ _ _ _ _ _ (wi_vertices_merge_v i' i1 i2) Hm) as Ha.
  rewrite run_bind in Hr.
  destruct (run E (merge_attributes ks KVertex i' i1 i2) c w2 cnt2) as [[o3 wa] cnta] eqn:Hma.
  destruct o3 as [[]|e| |q]; try discriminate Hr.
  exists i1, i2, i', en, wa. split; [exact V1|]. split; [exact V2|]. split; [exact V'|]. split; [exact Ven|]. split.
  - eapply attrs_effect_ext; [|reflexivity|exact (run_merge_attributes E KVertex i' i1 i2 ks c w2 cnt2 wa cnta Hks Hma)].
    intros k d. symmetry. apply Ha.
  - exact (run_merge_attributes E KEdge en l r ks c wa cnta w' cnt' Hks Hr).
Qed.

Theorem two_sew_attr_data_both E n ks l r c w cnt w' cnt' :
  dom_ok E n -> wf2 n w -> okd n w l -> okd n w r -> l <> r -> beta w 1 l <> 0 -> beta w 1 r <> 0 -> NoDup (map fst ks) ->
  run E (two_sew n ks l r) c w cnt = (Done tt, w', cnt') ->
  exists i1 i2 i3 i4 iL iR en wa wb,
    is_vid n w l i1 /\ is_vid n w (beta w 1 r) i2 /\ is_vid n w (beta w 1 l) i3 /\ is_vid n w r i4 /\
    is_vid n (set2 w l r) l iL /\ is_vid n (set2 w l r) r iR /\ is_eid n (set2 w l r) l en /\
    attrs_effect ks KVertex w wa i1 i2 iL /\ attrs_effect ks KVertex wa wb i3 i4 iR /\ attrs_effect ks KEdge wb w' l r en.
Proof.
  intros Hdom W Ol Or Hlr A1 A2 Hks Hr. pose proof Ol as (Hl0 & Hln & Hlu). pose proof Or as (Hr0 & Hrn & Hru).
  assert (Hbln : beta w 1 l < n) by (apply W; [lia|exact Hln]).
  assert (Hbrn : beta w 1 r < n) by (apply W; [lia|exact Hrn]).
  unfold two_sew in Hr. rewrite !run_rdB in Hr by (apply Hdom; [lia|assumption]).
  destruct (N.eqb_spec (beta w 1 l) 0) as [Z|_]; [contradiction|].
  destruct (N.eqb_spec (beta w 1 r) 0) as [Z|_]; [contradiction|].
  destruct (vid_run E n c w l cnt Hdom W Hl0 Hln) as (i1 & R1 & V1). rewrite run_bind, R1 in Hr.
  destruct (vid_run E n c w (beta w 1 r) cnt Hdom W A2 Hbrn) as (i2 & R2 & V2). rewrite run_bind, R2 in Hr.
  destruct (vid_run E n c w (beta w 1 l) cnt Hdom W A1 Hbln) as (i3 & R3 & V3). rewrite run_bind, R3 in Hr.
  destruct (vid_run E n c w r cnt Hdom W Hr0 Hrn) as (i4 & R4 & V4). rewrite run_bind, R4 in Hr.
  rewrite run_bind in Hr. destruct (run E (rdV i1) c w cnt) as [[oa sa] ka] eqn:Ea.
  apply run_rdV_plain in Ea as (-> & ->). destruct oa as [lv|e| |q]; try discriminate Hr.
  rewrite run_bind in Hr. destruct (run E (rdV i2) c w cnt) as [[ob sb] kb] eqn:Eb.
  apply run_rdV_plain in Eb as (-> & ->). destruct ob as [b1rv|e| |q]; try discriminate Hr.
  rewrite run_bind in Hr. destruct (run E (rdV i3) c w cnt) as [[oc sc] kc] eqn:Ec.
  apply run_rdV_plain in Ec as (-> & ->). destruct oc as [b1lv|e| |q]; try discriminate Hr.
  rewrite run_bind in Hr. destruct (run E (rdV i4) c w cnt) as [[od sd] kd] eqn:Ed.
  apply run_rdV_plain in Ed as (-> & ->). destruct od as [rv|e| |q]; try discriminate Hr.
  rewrite run_bind in Hr.
  match type of Hr with context [run E ?p c w cnt] =>
    assert (Ho : run E p c w cnt = (Done tt, w, cnt) \/ exists e, run E p c w cnt = (Failed e, w, cnt)) end.
  { destruct lv as [a|], b1rv as [b|], b1lv as [c0|], rv as [d0|]; try (left; reflexivity).
    destruct (bad_orient a b c0 d0); [right; eexists; reflexivity|left; reflexivity]. }
  destruct Ho as [Ho|[e Ho]]; rewrite Ho in Hr; [|discriminate Hr].
  rewrite run_bind in Hr.
  destruct (run E (two_link_core l r) c w cnt) as [[o1 w1] cnt1] eqn:Hc.
  pose proof (triple_two_link_core E n l r c w cnt _ _ _ (conj W (conj Ol (conj Or Hlr))) Hc) as W1.
  apply run_two_link_core in Hc. destruct o1 as [[]|e| |q]; try discriminate Hr.
  destruct Hc as (-> & ->).
  destruct (vid_run E n c (set2 w l r) l cnt Hdom W1 Hl0 Hln) as (iL & RL & VL). rewrite run_bind, RL in Hr.
  destruct (vid_run E n c (set2 w l r) r cnt Hdom W1 Hr0 Hrn) as (iR & RR & VR). rewrite run_bind, RR in Hr.
  destruct (eid_run E n c (set2 w l r) l cnt Hdom W1 Hl0 Hln) as (en & Ren & Ven). rewrite run_bind, Ren in Hr.
  rewrite run_bind in Hr.
  destruct (run E (vertices_merge iL i1 i2) c (set2 w l r) cnt) as [[o2 w2] cnt2] eqn:Hm1.
  destruct o2 as [[]|e| |q]; try discriminate Hr.
  pose proof (vstep_attrs E _ _ _ _ _ _ (wi_vertices_merge_v iL i1 i2) Hm1) as Ha1.
  rewrite run_bind in Hr.
  destruct (run E (vertices_merge iR i3 i4) c w2 cnt2) as [[o3 w3] cnt3] eqn:Hm2.
  destruct o3 as [[]|e| |q]; try discriminate Hr.
  pose proof (vstep_attrs E _ _ _ _ _ _ (wi_vertices_merge_v iR i3 i4) Hm2) as Ha2.
  rewrite run_bind in Hr.
  destruct (run E (merge_attributes ks KVertex iL i1 i2) c w3 cnt3) as [[o4 wa] cnta] eqn:Hma.
  destruct o4 as [[]|e| |q]; try discriminate Hr.
  rewrite run_bind in Hr.
  destruct (run E (merge_attributes ks KVertex iR i3 i4) c wa cnta) as [[o5 wb] cntb] eqn:Hmb.
  destruct o5 as [[]|e| |q]; try discriminate Hr.
  exists i1, i2, i3, i4, iL, iR, en, wa, wb.
  split; [exact V1|]. split; [exact V2|]. split; [exact V3|]. split; [exact V4|]. split; [exact VL|]. split; [exact VR|]. split; [exact Ven|].
  split; [|split].
  - eapply attrs_effect_ext; [|reflexivity|exact (run_merge_attributes E KVertex iL i1 i2 ks c w3 cnt3 wa cnta Hks Hma)].
    intros k d. symmetry. rewrite Ha2, Ha1. reflexivity.
  - exact (run_merge_attributes E KVertex iR i3 i4 ks c wa cnta wb cntb Hks Hmb).
  - exact (run_merge_attributes E KEdge en l r ks c wb cntb w' cnt' Hks Hr).
Qed.

(** *** 2-unsew *)
Theorem two_unsew_attr_data_none E n ks l c w cnt w' cnt' :
  dom_ok E n -> wf2 n w -> okd n w l -> beta w 2 l <> 0 -> beta w 1 l = 0 -> beta w 1 (beta w 2 l) = 0 -> NoDup (map fst ks) ->
  run E (two_unsew n ks l) c w cnt = (Done tt, w', cnt') ->
  let r := beta w 2 l in let w1 := clr2 w l r in
  exists eo, is_eid n w l eo /\ attrs_split_effect ks KEdge w w' l r eo.
Proof.
  intros Hdom W Ol N2 A1 A2 Hks Hr r w1. pose proof Ol as (Hl0 & Hln & Hlu).
  assert (Hrn : r < n) by (apply W; [lia|exact Hln]).
  assert (Hbln : beta w 1 l < n) by (apply W; [lia|exact Hln]).
  assert (Hbrn : beta w 1 r < n) by (apply W; [lia|exact Hrn]).
  change (beta w 1 r = 0) in A2.
  unfold two_unsew in Hr. rewrite run_rdB in Hr by (apply Hdom; [lia|exact Hln]). fold r in Hr.
  rewrite run_rdB in Hr by (apply Hdom; [lia|exact Hln]). rewrite run_rdB in Hr by (apply Hdom; [lia|exact Hrn]).
  rewrite A1, A2 in Hr. change (0 =? 0) with true in Hr. cbv iota in Hr.
  destruct (eid_run E n c w l cnt Hdom W Hl0 Hln) as (eo & Reo & Veo). rewrite run_bind, Reo in Hr.
  
  rewrite run_bind in Hr.
  destruct (run E (two_unlink_core l) c w cnt) as [[o1 w1'] cnt1] eqn:Hc.
  pose proof (triple_two_unlink_core E n l c w cnt _ _ _ (conj W Ol) Hc) as W1.
  apply run_two_unlink_core in Hc. destruct o1 as [[]|e| |q]; try discriminate Hr.
  destruct Hc as (-> & ->). fold r in Hr, W1. fold w1 in Hr, W1.
  exists eo. split; [exact Veo|].
  exact (run_split_attributes E KEdge l r eo ks c w1 cnt w' cnt' Hks Hr).
Qed.

Theorem two_unsew_attr_data_left E n ks l c w cnt w' cnt' :
  dom_ok E n -> wf2 n w -> okd n w l -> beta w 2 l <> 0 -> beta w 1 l = 0 -> beta w 1 (beta w 2 l) <> 0 -> NoDup (map fst ks) ->
  run E (two_unsew n ks l) c w cnt = (Done tt, w', cnt') ->
  let r := beta w 2 l in let w1 := clr2 w l r in
  exists eo i0 il ir wa,
    is_eid n w l eo /\ is_vid n w l i0 /\ is_vid n w1 l il /\ is_vid n w1 (beta w 1 r) ir /\
    attrs_split_effect ks KEdge w wa l r eo /\ attrs_split_effect ks KVertex wa w' il ir i0.
Proof.
  intros Hdom W Ol N2 A1 A2 Hks Hr r w1. pose proof Ol as (Hl0 & Hln & Hlu).
  assert (Hrn : r < n) by (apply W; [lia|exact Hln]).
  assert (Hbln : beta w 1 l < n) by (apply W; [lia|exact Hln]).
  assert (Hbrn : beta w 1 r < n) by (apply W; [lia|exact Hrn]).
  change (beta w 1 r <> 0) in A2.
  unfold two_unsew in Hr. rewrite run_rdB in Hr by (apply Hdom; [lia|exact Hln]). fold r in Hr.
  rewrite run_rdB in Hr by (apply Hdom; [lia|exact Hln]). rewrite run_rdB in Hr by (apply Hdom; [lia|exact Hrn]).
  rewrite A1 in Hr. change (0 =? 0) with true in Hr.
  destruct (N.eqb_spec (beta w 1 r) 0) as [Z|_]; [contradiction|].
  destruct (eid_run E n c w l cnt Hdom W Hl0 Hln) as (eo & Reo & Veo). rewrite run_bind, Reo in Hr.
  destruct (vid_run E n c w l cnt Hdom W Hl0 Hln) as (i0 & R0 & V0). rewrite run_bind, R0 in Hr.
  rewrite run_bind in Hr.
  destruct (run E (two_unlink_core l) c w cnt) as [[o1 w1'] cnt1] eqn:Hc.
  pose proof (triple_two_unlink_core E n l c w cnt _ _ _ (conj W Ol) Hc) as W1.
  apply run_two_unlink_core in Hc. destruct o1 as [[]|e| |q]; try discriminate Hr.
  destruct Hc as (-> & ->). fold r in Hr, W1. fold w1 in Hr, W1.
  rewrite run_bind in Hr.
  destruct (run E (split_attributes ks KEdge l r eo) c w1 cnt) as [[oa wa] cnta] eqn:Ha.
  destruct oa as [[]|e| |q]; try discriminate Hr.
  destruct (attrs_step E _ _ _ _ _ _ (wi_split_attributes_a ks KEdge l r eo) Ha) as (_ & Hta).
  pose proof (wf2_ext n w1 wa W1 Hta) as Wa.
  pose proof (run_split_attributes E KEdge l r eo ks c w1 cnt wa cnta Hks Ha) as EffE.
  destruct (vid_run E n c wa l cnta Hdom Wa Hl0 Hln) as (il & Rl & Vl). rewrite run_bind, Rl in Hr.
  destruct (vid_run E n c wa (beta w 1 r) cnta Hdom Wa A2 Hbrn) as (ir & Rr & Vr). rewrite run_bind, Rr in Hr.
  rewrite run_bind in Hr.
  destruct (run E (vertices_split il ir i0) c wa cnta) as [[o2 w2] cnt2] eqn:Hs.
  destruct o2 as [[]|e| |q]; try discriminate Hr.
  pose proof (vstep_attrs E _ _ _ _ _ _ (wi_vertices_split_v il ir i0) Hs) as Hav.
  exists eo, i0, il, ir, wa. split; [exact Veo|]. split; [exact V0|].
  split; [apply (is_vid_topo n w1 wa _ il Hta); exact Vl|].
  split; [apply (is_vid_topo n w1 wa _ ir Hta); exact Vr|].
  split; [exact EffE|].
  eapply attrs_split_effect_ext; [|reflexivity|exact (run_split_attributes E KVertex il ir i0 ks c w2 cnt2 w' cnt' Hks Hr)].
  intros k d. symmetry. apply Hav.
Qed.

Theorem two_unsew_attr_data_right E n ks l c w cnt w' cnt' :
  dom_ok E n -> wf2 n w -> okd n w l -> beta w 2 l <> 0 -> beta w 1 l <> 0 -> beta w 1 (beta w 2 l) = 0 -> NoDup (map fst ks) ->
  run E (two_unsew n ks l) c w cnt = (Done tt, w', cnt') ->
  let r := beta w 2 l in let w1 := clr2 w l r in
  exists eo i0 il ir wa,
    is_eid n w l eo /\ is_vid n w r i0 /\ is_vid n w1 (beta w 1 l) il /\ is_vid n w1 r ir /\
    attrs_split_effect ks KEdge w wa l r eo /\ attrs_split_effect ks KVertex wa w' il ir i0.
Proof.
  intros Hdom W Ol N2 A1 A2 Hks Hr r w1. pose proof Ol as (Hl0 & Hln & Hlu).
  assert (Hrn : r < n) by (apply W; [lia|exact Hln]).
  assert (Hbln : beta w 1 l < n) by (apply W; [lia|exact Hln]).
  assert (Hbrn : beta w 1 r < n) by (apply W; [lia|exact Hrn]).
  change (beta w 1 r = 0) in A2.
  unfold two_unsew in Hr. rewrite run_rdB in Hr by (apply Hdom; [lia|exact Hln]). fold r in Hr.
  rewrite run_rdB in Hr by (apply Hdom; [lia|exact Hln]). rewrite run_rdB in Hr by (apply Hdom; [lia|exact Hrn]).
  rewrite A2 in Hr. change (0 =? 0) with true in Hr.
  destruct (N.eqb_spec (beta w 1 l) 0) as [Z|_]; [contradiction|].
  destruct (eid_run E n c w l cnt Hdom W Hl0 Hln) as (eo & Reo & Veo). rewrite run_bind, Reo in Hr.
  destruct (vid_run E n c w r cnt Hdom W N2 Hrn) as (i0 & R0 & V0). rewrite run_bind, R0 in Hr.
  rewrite run_bind in Hr.
  destruct (run E (two_unlink_core l) c w cnt) as [[o1 w1'] cnt1] eqn:Hc.
  pose proof (triple_two_unlink_core E n l c w cnt _ _ _ (conj W Ol) Hc) as W1.
  apply run_two_unlink_core in Hc. destruct o1 as [[]|e| |q]; try discriminate Hr.
  destruct Hc as (-> & ->). fold r in Hr, W1. fold w1 in Hr, W1.
  rewrite run_bind in Hr.
  destruct (run E (split_attributes ks KEdge l r eo) c w1 cnt) as [[oa wa] cnta] eqn:Ha.
  destruct oa as [[]|e| |q]; try discriminate Hr.
  destruct (attrs_step E _ _ _ _ _ _ (wi_split_attributes_a ks KEdge l r eo) Ha) as (_ & Hta).
  pose proof (wf2_ext n w1 wa W1 Hta) as Wa.
  pose proof (run_split_attributes E KEdge l r eo ks c w1 cnt wa cnta Hks Ha) as EffE.
  destruct (vid_run E n c wa (beta w 1 l) cnta Hdom Wa A1 Hbln) as (il & Rl & Vl). rewrite run_bind, Rl in Hr.
  destruct (vid_run E n c wa r cnta Hdom Wa N2 Hrn) as (ir & Rr & Vr). rewrite run_bind, Rr in Hr.
  rewrite run_bind in Hr.
  destruct (run E (vertices_split il ir i0) c wa cnta) as [[o2 w2] cnt2] eqn:Hs.
  destruct o2 as [[]|e| |q]; try discriminate Hr.
  pose proof (vstep_attrs E _ _ _ _ _ _ (wi_vertices_split_v il ir i0) Hs) as Hav.
  exists eo, i0, il, ir, wa. split; [exact Veo|]. split; [exact V0|].
  split; [apply (is_vid_topo n w1 wa _ il Hta); exact Vl|].
  split; [apply (is_vid_topo n w1 wa _ ir Hta); exact Vr|].
  split; [exact EffE|].
  eapply attrs_split_effect_ext; [|reflexivity|exact (run_split_attributes E KVertex il ir i0 ks c w2 cnt2 w' cnt' Hks Hr)].
  intros k d. symmetry. apply Hav.
Qed.

Theorem two_unsew_attr_data_both E n ks l c w cnt w' cnt' :
  dom_ok E n -> wf2 n w -> okd n w l -> beta w 2 l <> 0 -> beta w 1 l <> 0 -> beta w 1 (beta w 2 l) <> 0 -> NoDup (map fst ks) ->
  run E (two_unsew n ks l) c w cnt = (Done tt, w', cnt') ->
  let r := beta w 2 l in let w1 := clr2 w l r in
  exists eo j0 jl jr k0 kl kr wa wb,
    is_eid n w l eo /\ is_vid n w l j0 /\ is_vid n w r k0 /\
    is_vid n w1 l jl /\ is_vid n w1 (beta w 1 r) jr /\ is_vid n w1 (beta w 1 l) kl /\ is_vid n w1 r kr /\
    attrs_split_effect ks KEdge w wa l r eo /\ attrs_split_effect ks KVertex wa wb jl jr j0 /\ attrs_split_effect ks KVertex wb w' kl kr k0.
Proof.
  intros Hdom W Ol N2 A1 A2 Hks Hr r w1. pose proof Ol as (Hl0 & Hln & Hlu).
  assert (Hrn : r < n) by (apply W; [lia|exact Hln]).
  assert (Hbln : beta w 1 l < n) by (apply W; [lia|exact Hln]).
  assert (Hbrn : beta w 1 r < n) by (apply W; [lia|exact Hrn]).
  change (beta w 1 r <> 0) in A2.
  unfold two_unsew in Hr. rewrite run_rdB in Hr by (apply Hdom; [lia|exact Hln]). fold r in Hr.
  rewrite run_rdB in Hr by (apply Hdom; [lia|exact Hln]). rewrite run_rdB in Hr by (apply Hdom; [lia|exact Hrn]).
  destruct (N.eqb_spec (beta w 1 l) 0) as [Z|_]; [contradiction|].
  destruct (N.eqb_spec (beta w 1 r) 0) as [Z|_]; [contradiction|].
  destruct (eid_run E n c w l cnt Hdom W Hl0 Hln) as (eo & Reo & Veo). rewrite run_bind, Reo in Hr.
  destruct (vid_run E n c w l cnt Hdom W Hl0 Hln) as (j0 & RJ0 & VJ0). rewrite run_bind, RJ0 in Hr.
  destruct (vid_run E n c w r cnt Hdom W N2 Hrn) as (k0 & RK0 & VK0). rewrite run_bind, RK0 in Hr.
  rewrite run_bind in Hr.
  destruct (run E (two_unlink_core l) c w cnt) as [[o1 w1'] cnt1] eqn:Hc.
  pose proof (triple_two_unlink_core E n l c w cnt _ _ _ (conj W Ol) Hc) as W1.
  apply run_two_unlink_core in Hc. destruct o1 as [[]|e| |q]; try discriminate Hr.
  destruct Hc as (-> & ->). fold r in Hr, W1. fold w1 in Hr, W1.
  rewrite run_bind in Hr.
  destruct (run E (split_attributes ks KEdge l r eo) c w1 cnt) as [[oa wa] cnta] eqn:Ha.
  destruct oa as [[]|e| |q]; try discriminate Hr.
  destruct (attrs_step E _ _ _ _ _ _ (wi_split_attributes_a ks KEdge l r eo) Ha) as (_ & Hta).
  pose proof (wf2_ext n w1 wa W1 Hta) as Wa.
  pose proof (run_split_attributes E KEdge l r eo ks c w1 cnt wa cnta Hks Ha) as EffE.
  destruct (vid_run E n c wa l cnta Hdom Wa Hl0 Hln) as (jl & RJL & VJL). rewrite run_bind, RJL in Hr.
  destruct (vid_run E n c wa (beta w 1 r) cnta Hdom Wa A2 Hbrn) as (jr & RJR & VJR). rewrite run_bind, RJR in Hr.
  destruct (vid_run E n c wa (beta w 1 l) cnta Hdom Wa A1 Hbln) as (kl & RKL & VKL). rewrite run_bind, RKL in Hr.
  destruct (vid_run E n c wa r cnta Hdom Wa N2 Hrn) as (kr & RKR & VKR). rewrite run_bind, RKR in Hr.
  rewrite run_bind in Hr.
  destruct (run E (vertices_split jl jr j0) c wa cnta) as [[o2 w2] cnt2] eqn:Hs1.
  destruct o2 as [[]|e| |q]; try discriminate Hr.
  pose proof (vstep_attrs E _ _ _ _ _ _ (wi_vertices_split_v jl jr j0) Hs1) as Hav1.
  rewrite run_bind in Hr.
  destruct (run E (split_attributes ks KVertex jl jr j0) c w2 cnt2) as [[ob wb] cntb] eqn:Hb.
  destruct ob as [[]|e| |q]; try discriminate Hr.
  rewrite run_bind in Hr.
  destruct (run E (vertices_split kl kr k0) c wb cntb) as [[o3 w3] cnt3] eqn:Hs2.
  destruct o3 as [[]|e| |q]; try discriminate Hr.
  pose proof (vstep_attrs E _ _ _ _ _ _ (wi_vertices_split_v kl kr k0) Hs2) as Hav2.
  exists eo, j0, jl, jr, k0, kl, kr, wa, wb.
  split; [exact Veo|]. split; [exact VJ0|]. split; [exact VK0|].
  split; [apply (is_vid_topo n w1 wa l jl Hta); exact VJL|].
  split; [apply (is_vid_topo n w1 wa _ jr Hta); exact VJR|].
  split; [apply (is_vid_topo n w1 wa _ kl Hta); exact VKL|].
  split; [apply (is_vid_topo n w1 wa r kr Hta); exact VKR|].
  split; [exact EffE|]. split.
  - eapply attrs_split_effect_ext; [|reflexivity|exact (run_split_attributes E KVertex jl jr j0 ks c w2 cnt2 wb cntb Hks Hb)].
    intros k d. symmetry. apply Hav1.
  - eapply attrs_split_effect_ext; [|reflexivity|exact (run_split_attributes E KVertex kl kr k0 ks c w3 cnt3 w' cnt' Hks Hr)].
    intros k d. symmetry. apply Hav2.
Qed.

End SewAttr.
