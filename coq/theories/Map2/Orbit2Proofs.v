(** * C03 (2-maps): orbits are the reachability closure; ids are orbit minima. *)
From Coq Require Import List NArith Bool Lia Sorted.
From HC Require Import Base.Closure Stm.Prog Stm.ProgFacts Map2.Ops2 Map2.State2 Map2.Wf2
  Map2.Wf2Proofs Map2.Wf2Dec Map2.Orbit2.
Import ListNotations.
Open Scope N_scope.
Arguments N.add : simpl never. Arguments N.mul : simpl never. Arguments N.min : simpl never.
Arguments N.eqb : simpl never. Arguments N.ltb : simpl never. Arguments N.leb : simpl never.

(** ** generic facts on [reach] *)
Section Reach.
Variable succ : N -> list N.

Lemma reach_trans a b c : reach succ a b -> reach succ b c -> reach succ a c.
Proof. intros Hab Hbc. induction Hbc; [exact Hab|]. eapply reach_step; eauto. Qed.

Lemma reach_inv_dom (P : N -> Prop) a b :
  P a -> (forall x y, P x -> In y (succ x) -> y <> 0 -> P y) -> reach succ a b -> P b.
Proof. intros Pa Hs R. induction R; eauto. Qed.

(** if every non-null step can be undone by one step, reachability is symmetric *)
Lemma reach_sym (P : N -> Prop) a b :
  P a -> a <> 0 ->
  (forall x y, P x -> In y (succ x) -> y <> 0 -> P y) ->
  (forall x y, P x -> x <> 0 -> In y (succ x) -> y <> 0 -> In x (succ y)) ->
  reach succ a b -> reach succ b a.
Proof.
  intros Pa Ha Hs Hinv R. induction R as [|x y R IH Hy Hy0]; [constructor|].
  assert (Px : P x) by (eapply reach_inv_dom; eauto).
  assert (Hx0 : x <> 0).
  { clear IH. induction R; auto. }
  eapply reach_trans; [|exact IH].
  eapply reach_step; [constructor| |exact Hx0]. eapply Hinv; eauto.
Qed.
End Reach.

Section Proofs.
Context `{Sig}.

Lemma succ2_rng n s p : wf2 n s -> policy_ok p = true ->
  forall x y, x < n -> In y (succ2 s p x) -> y < n.
Proof.
  intros W Hp x y Hx Hy.
  assert (R : forall i d, i < 3 -> d < n -> beta s i d < n) by apply W.
  destruct p; cbn [succ2 In] in Hy.
  - destruct Hy as [<-|[<-|[]]]; apply R; try lia; apply R; lia.
  - destruct Hy as [<-|[]]; apply R; try lia; apply R; lia.
  - destruct Hy as [<-|[]]; apply R; lia.
  - destruct Hy as [<-|[<-|[]]]; apply R; lia.
  - destruct Hy as [<-|[]]; apply R; lia.
  - apply in_map_iff in Hy as (i & <- & Hi). cbn [policy_ok] in Hp.
    rewrite forallb_forall in Hp. specialize (Hp i Hi). apply N.ltb_lt in Hp. apply R; lia.
Qed.

(** orbit = head + closure, no repetition, never the null dart; for every policy *)
Theorem orbit2_spec n s p d : wf2 n s -> policy_ok p = true -> d <> 0 -> d < n ->
  exists l, orbit2 n s p d = Some l /\ hd_error l = Some d /\ NoDup l /\ ~ In 0 l /\
            forall e, In e l <-> reach (succ2 s p) d e.
Proof.
  intros W Hp Hd Hdn. unfold orbit2. rewrite Hp. cbn [andb].
  destruct (N.ltb_spec d n); [|lia]. unfold bfs_fuel.
  apply (orbit_spec (succ2 s p) n (succ2_rng n s p W Hp) d Hd Hdn).
Qed.

(** ** the i-cell policies are closed under inverses: reachability is an equivalence *)
Definition cell_policy (p : policy) : bool :=
  match p with PVertex | PEdge | PFace => true | _ => false end.

Lemma cell_policy_ok p : cell_policy p = true -> policy_ok p = true.
Proof. destruct p; cbn; congruence. Qed.

Lemma succ2_undo n s p : wf2 n s -> cell_policy p = true ->
  forall x y, x < n -> x <> 0 -> In y (succ2 s p x) -> y <> 0 -> In x (succ2 s p y).
Proof.
  intros W Hp x y Hx Hx0 Hy Hy0.
  destruct (wf2_null n s W) as (N0 & N1 & N2).
  assert (R : forall i d, i < 3 -> d < n -> beta s i d < n) by apply W.
  destruct p; try discriminate Hp; cbn [succ2 In] in *.
  - (* Vertex: b1 b2 / b2 b0 *)
    destruct Hy as [E|[E|[]]].
    + right; left. set (z := beta s 2 x) in *.
      assert (Hz0 : z <> 0) by (intros Ez; rewrite Ez, N1 in E; congruence).
      assert (Hz : z < n) by (apply R; lia).
      destruct (b2_invol n s W x Hx Hz0) as [I2 _]. fold z in I2.
      assert (B : beta s 0 y = z). { rewrite <- E. apply (b1_then_b0 n s W z Hz). rewrite E. exact Hy0. }
      rewrite B. exact I2.
    + left. set (z := beta s 0 x) in *.
      assert (Hz0 : z <> 0) by (intros Ez; rewrite Ez, N2 in E; congruence).
      assert (Hz : z < n) by (apply R; lia).
      assert (Hzy : beta s 2 z <> 0) by (rewrite E; exact Hy0).
      destruct (b2_invol n s W z Hz Hzy) as [I2 _]. rewrite E in I2. rewrite I2.
      apply (b0_then_b1 n s W x Hx). exact Hz0.
  - destruct Hy as [E|[]]. left.
    assert (Hy' : beta s 2 x <> 0) by (rewrite E; exact Hy0).
    destruct (b2_invol n s W x Hx Hy') as [I2 _]. rewrite E in I2. exact I2.
  - destruct Hy as [E|[E|[]]].
    + right; left. rewrite <- E. apply (b1_then_b0 n s W x Hx). rewrite E. exact Hy0.
    + left. rewrite <- E. apply (b0_then_b1 n s W x Hx). rewrite E. exact Hy0.
Qed.

Theorem reach2_sym n s p a b : wf2 n s -> cell_policy p = true -> a <> 0 -> a < n ->
  reach (succ2 s p) a b -> reach (succ2 s p) b a.
Proof.
  intros W Hp Ha Han R.
  apply (reach_sym (succ2 s p) (fun x => x < n) a b Han Ha); auto.
  - intros x y Hx Hy _. eapply succ2_rng; eauto. now apply cell_policy_ok.
  - intros x y Hx Hx0 Hy Hy0. eapply succ2_undo; eauto.
Qed.

(** ** identifiers: the BFS-with-running-minimum of [vertex_id_transac] / [face_id_transac] *)
Definition minof (r : N) (L : list N) : Prop := In r L /\ forall x, In x L -> r <= x.

Lemma minof_perm r L L' : (forall x, In x L <-> In x L') -> minof r L -> minof r L'.
Proof. intros E [A B]. split; [now apply E|]. intros x Hx. apply B. now apply E. Qed.

Lemma minof_unique r r' L : minof r L -> minof r' L -> r = r'.
Proof. intros [A B] [A' B']. specialize (B _ A'). specialize (B' _ A). lia. Qed.

Fixpoint min_loop (succ : N -> list N) (fuel : nat) (q m : list N) (mn : N) : option N :=
  match fuel with
  | O => None
  | S f =>
    match q with
    | [] => Some mn
    | d :: q' =>
      let '(q2, m2, mn2) := fold_left (fun st x => visit x st) (succ d) (q', m, mn) in
      min_loop succ f q2 m2 mn2
    end
  end.

Lemma visits_checks O : forall ys q m mn q2 m2 mn2,
  fold_left (fun st x => visit x st) ys (q, m, mn) = (q2, m2, mn2) ->
  fold_left check ys (q, m) = (q2, m2) /\ (minof mn (O ++ q) -> minof mn2 (O ++ q2)).
Proof.
  induction ys as [|y ys IH]; intros q m mn q2 m2 mn2 E; cbn [fold_left] in *.
  - injection E as <- <- <-. auto.
  - unfold visit at 2 in E. unfold check at 2. unfold mem_N in E. unfold memb.
    destruct (existsb (N.eqb y) m) eqn:Em.
    + apply IH in E. exact E.
    + apply IH in E. destruct E as [E1 E2]. split; [exact E1|]. intros M. apply E2.
      destruct M as [A B]. split.
      * rewrite app_assoc, in_app_iff. destruct (N.min_spec mn y) as [[_ ->]|[_ ->]]; [left; exact A|right; left; reflexivity].
      * intros x. rewrite app_assoc, in_app_iff. intros [Hx|[<-|[]]]; [specialize (B x Hx)|]; lia.
Qed.

Lemma min_loop_bfs succ : forall fuel q m out mn l,
  bfs succ fuel q m out = Some l -> minof mn (out ++ q) ->
  exists r, min_loop succ fuel q m mn = Some r /\ minof r l.
Proof.
  induction fuel as [|f IH]; intros q m out mn l E M; cbn [bfs min_loop] in *; [discriminate|].
  destruct q as [|d q'].
  - injection E as <-. exists mn. split; [reflexivity|]. rewrite app_nil_r in M.
    eapply minof_perm; [|exact M]. intros x. apply in_rev.
  - destruct (fold_left (fun st x => visit x st) (succ d) (q', m, mn)) as [[q2 m2] mn2] eqn:Ev.
    apply (visits_checks (out ++ [d])) in Ev as [Ec Em]. rewrite Ec in E.
    eapply IH; [exact E|].
    eapply minof_perm; [|apply Em].
    + intros x. cbn [app In]. rewrite !in_app_iff. cbn [In]. tauto.
    + eapply minof_perm; [|exact M]. intros x. rewrite !in_app_iff. cbn [In]. tauto.
Qed.

Definition dom_ok (E : env) (n : N) : Prop := forall i d, i < 3 -> d < n -> e_dom E (XBeta i d) = true.

Lemma run_rdB {X} E c w cnt i d (k : N -> prog X) :
  e_dom E (XBeta i d) = true -> run E (x <- rdB i d ;; k x) c w cnt = run E (k (beta w i d)) c w cnt.
Proof. intros Hd. cbn. rewrite Hd. reflexivity. Qed.

Lemma visits_rng (n : N) : forall ys q m mn q2 m2 mn2,
  fold_left (fun st x => visit x st) ys (q, m, mn) = (q2, m2, mn2) ->
  (forall y, In y ys -> y < n) -> (forall x, In x q -> x < n) -> forall x, In x q2 -> x < n.
Proof.
  induction ys as [|y ys IH]; intros q m mn q2 m2 mn2 E Hy Hq; cbn [fold_left] in E.
  - injection E as <- <- <-. exact Hq.
  - unfold visit at 2 in E. destruct (mem_N y m).
    + eapply IH; eauto. intros z Hz. apply Hy. now right.
    + eapply IH; [exact E| |]. { intros z Hz. apply Hy. now right. }
      intros x. rewrite in_app_iff. intros [Hx|[<-|[]]]; [auto|apply Hy; now left].
Qed.

Lemma vid_loop_run E n c w : dom_ok E n -> wf2 n w ->
  forall fuel q m mn cnt, (forall x, In x q -> x < n) ->
  run E (vid_loop fuel q m mn) c w cnt =
  match min_loop (succ2 w PVertex) fuel q m mn with
  | Some r => (Done r, w, cnt)
  | None => (Panicked OutOfFuel, w, cnt)
  end.
Proof.
  intros Hdom W.
  assert (R : forall i d, i < 3 -> d < n -> beta w i d < n) by apply W.
  induction fuel as [|f IH]; intros q m mn cnt Hq; cbn [vid_loop min_loop]; [reflexivity|].
  destruct q as [|d q']; [reflexivity|].
  assert (Hd : d < n) by (apply Hq; now left).
  rewrite run_rdB by (apply Hdom; lia). rewrite run_rdB by (apply Hdom; lia).
  rewrite run_rdB by (apply Hdom; [lia|apply R; lia]).
  cbn [succ2 fold_left].
  destruct (visit (beta w 1 (beta w 2 d)) (q', m, mn)) as [[p1 m1] mn1] eqn:E1.
  rewrite run_rdB by (apply Hdom; [lia|apply R; lia]).
  destruct (visit (beta w 2 (beta w 0 d)) (p1, m1, mn1)) as [[p2 m2] mn2] eqn:E2.
  apply IH.
  eapply (visits_rng n [beta w 1 (beta w 2 d); beta w 2 (beta w 0 d)] q' m mn).
  - cbn [fold_left]. rewrite E1. exact E2.
  - intros y [<-|[<-|[]]]; apply R; try lia; apply R; lia.
  - intros x Hx. apply Hq. now right.
Qed.

Lemma fid_loop_run E n c w : dom_ok E n -> wf2 n w ->
  forall fuel q m mn cnt, (forall x, In x q -> x < n) ->
  run E (fid_loop fuel q m mn) c w cnt =
  match min_loop (succ2 w PFace) fuel q m mn with
  | Some r => (Done r, w, cnt)
  | None => (Panicked OutOfFuel, w, cnt)
  end.
Proof.
  intros Hdom W.
  assert (R : forall i d, i < 3 -> d < n -> beta w i d < n) by apply W.
  induction fuel as [|f IH]; intros q m mn cnt Hq; cbn [fid_loop min_loop]; [reflexivity|].
  destruct q as [|d q']; [reflexivity|].
  assert (Hd : d < n) by (apply Hq; now left).
  rewrite run_rdB by (apply Hdom; lia).
  cbn [succ2 fold_left].
  destruct (visit (beta w 1 d) (q', m, mn)) as [[p1 m1] mn1] eqn:E1.
  rewrite run_rdB by (apply Hdom; lia).
  destruct (visit (beta w 0 d) (p1, m1, mn1)) as [[p2 m2] mn2] eqn:E2.
  apply IH.
  eapply (visits_rng n [beta w 1 d; beta w 0 d] q' m mn).
  - cbn [fold_left]. rewrite E1. exact E2.
  - intros y [<-|[<-|[]]]; apply R; lia.
  - intros x Hx. apply Hq. now right.
Qed.

(** the vertex / face identifier is the smallest dart of the orbit *)
Theorem vertex_id_min E n c w d cnt l : dom_ok E n -> wf2 n w -> d <> 0 -> d < n ->
  orbit2 n w PVertex d = Some l ->
  exists r, run E (vertex_id_tx n d) c w cnt = (Done r, w, cnt) /\ minof r l.
Proof.
  intros Hdom W Hd Hdn Eo. unfold orbit2 in Eo. cbn [policy_ok andb] in Eo.
  destruct (N.ltb_spec d n); [|lia]. unfold orbit in Eo.
  destruct (min_loop_bfs (succ2 w PVertex) (bfs_fuel n) [d] [d; 0] [] d l Eo) as (r & Er & Mr).
  { split; [now left|]. intros x [<-|[]]. lia. }
  exists r. split; [|exact Mr]. unfold vertex_id_tx.
  replace (fuel_of n) with (bfs_fuel n) by (unfold fuel_of, bfs_fuel; lia).
  rewrite (vid_loop_run E n c w Hdom W) by (intros x [<-|[]]; exact Hdn). now rewrite Er.
Qed.

Theorem face_id_min E n c w d cnt l : dom_ok E n -> wf2 n w -> d <> 0 -> d < n ->
  orbit2 n w PFace d = Some l ->
  exists r, run E (face_id_tx n d) c w cnt = (Done r, w, cnt) /\ minof r l.
Proof.
  intros Hdom W Hd Hdn Eo. unfold orbit2 in Eo. cbn [policy_ok andb] in Eo.
  destruct (N.ltb_spec d n); [|lia]. unfold orbit in Eo.
  destruct (min_loop_bfs (succ2 w PFace) (bfs_fuel n) [d] [d; 0] [] d l Eo) as (r & Er & Mr).
  { split; [now left|]. intros x [<-|[]]. lia. }
  exists r. split; [|exact Mr]. unfold face_id_tx.
  replace (fuel_of n) with (bfs_fuel n) by (unfold fuel_of, bfs_fuel; lia).
  rewrite (fid_loop_run E n c w Hdom W) by (intros x [<-|[]]; exact Hdn). now rewrite Er.
Qed.

Lemma reach_nonnull succ a b : a <> 0 -> reach succ a b -> b <> 0.
Proof. intros Ha R. induction R; auto. Qed.

Lemma reach2_lt n s p a b : wf2 n s -> policy_ok p = true -> a < n -> reach (succ2 s p) a b -> b < n.
Proof.
  intros W Hp Ha R. apply (reach_inv_dom (succ2 s p) (fun x => x < n) a b Ha); auto.
  intros x y Hx Hy _. eapply succ2_rng; eauto.
Qed.

Theorem edge_id_min E n c w d cnt l : dom_ok E n -> wf2 n w -> d <> 0 -> d < n ->
  orbit2 n w PEdge d = Some l ->
  exists r, run E (edge_id_tx d) c w cnt = (Done r, w, cnt) /\ minof r l.
Proof.
  intros Hdom W Hd Hdn Eo.
  destruct (orbit2_spec n w PEdge d W eq_refl Hd Hdn) as (l' & El & _ & _ & _ & Hl).
  rewrite Eo in El. injection El as <-.
  assert (Hall : forall x, reach (succ2 w PEdge) d x -> x = d \/ (x = beta w 2 d /\ beta w 2 d <> 0)).
  { intros x R. induction R as [|x y R IH Hy Hy0]; [now left|]. cbn [succ2 In] in Hy.
    destruct Hy as [<-|[]]. destruct IH as [->|[-> Hb]]; [right; split; auto|].
    left. apply (b2_invol n w W d Hdn Hb). }
  unfold edge_id_tx. rewrite run_rdB by (apply Hdom; lia).
  destruct (N.eqb_spec (beta w 2 d) 0) as [E0|E0]; cbn [run].
  - exists d. split; [reflexivity|]. split; [apply Hl; constructor|].
    intros x Hx. apply Hl, Hall in Hx. destruct Hx as [->|[_ Hx]]; [lia|congruence].
  - exists (N.min (beta w 2 d) d). split; [reflexivity|]. split.
    + apply Hl. destruct (N.min_spec (beta w 2 d) d) as [[_ ->]|[_ ->]]; [|constructor].
      eapply reach_step; [constructor| |exact E0]. cbn. now left.
    + intros x Hx. apply Hl, Hall in Hx. destruct Hx as [->|[-> _]]; lia.
Qed.

(** equal minima exactly for darts of the same cell *)
Theorem min_same_cell n s p d e ld le rd re : wf2 n s -> cell_policy p = true ->
  d <> 0 -> d < n -> e <> 0 -> e < n ->
  orbit2 n s p d = Some ld -> orbit2 n s p e = Some le -> minof rd ld -> minof re le ->
  (rd = re <-> reach (succ2 s p) d e).
Proof.
  intros W Hp Hd Hdn He Hen Eld Ele Md Me.
  pose proof (cell_policy_ok p Hp) as Hok.
  destruct (orbit2_spec n s p d W Hok Hd Hdn) as (l1 & E1 & _ & _ & _ & H1). rewrite Eld in E1. injection E1 as <-.
  destruct (orbit2_spec n s p e W Hok He Hen) as (l2 & E2 & _ & _ & _ & H2). rewrite Ele in E2. injection E2 as <-.
  split.
  - intros <-. destruct Md as [Ad _], Me as [Ae _]. apply H1 in Ad. apply H2 in Ae.
    eapply reach_trans; [exact Ad|]. eapply reach2_sym; eauto.
  - intros R. eapply minof_unique; [exact Md|]. eapply minof_perm; [|exact Me].
    intros x. rewrite H1, H2. split; intros Rx.
    + eapply reach_trans; [exact R|exact Rx].
    + eapply reach_trans; [|exact Rx]. eapply reach2_sym; eauto.
Qed.

(** darts reachable from an in-use dart are in use (removed darts are nobody's image) *)
Lemma reach2_in_use n s p a b : wf2 n s -> cell_policy p = true -> a <> 0 -> a < n ->
  unused s a = false -> reach (succ2 s p) a b -> unused s b = false.
Proof.
  intros W Hp Ha Han Hu R. induction R as [|x y R IH Hy Hy0]; [exact Hu|].
  destruct (unused s y) eqn:Uy; [exfalso|reflexivity].
  assert (Hx0 : x <> 0) by (exact (reach_nonnull _ a x Ha R)).
  pose proof (cell_policy_ok p Hp) as Hok.
  assert (Hxn : x < n) by (exact (reach2_lt n s p a x W Hok Han R)).
  assert (Hyn : y < n) by (exact (succ2_rng n s p W Hok x y Hxn Hy)).
  pose proof (succ2_undo n s p W Hp x y Hxn Hx0 Hy Hy0) as Hback.
  pose proof (unused_free n s W y Hyn Uy) as F.
  destruct (wf2_null n s W) as (N0 & N1 & N2).
  destruct p; try discriminate Hp; cbn [succ2 In] in Hback;
    rewrite ?(F 0), ?(F 1), ?(F 2), ?N0, ?N1, ?N2 in Hback by lia; intuition congruence.
Qed.

(** ** cell iterators *)
Lemma nrange_sorted n : Sorted.StronglySorted N.lt (nrange n).
Proof.
  unfold nrange. generalize 0%nat as a. induction (N.to_nat n) as [|k IH]; intros a; cbn; constructor.
  - apply IH.
  - apply Forall_forall. intros x Hx. apply in_map_iff in Hx as (j & <- & Hj). apply in_seq in Hj. lia.
Qed.

Lemma filter_sorted {A} (R : A -> A -> Prop) f l : Sorted.StronglySorted R l -> Sorted.StronglySorted R (filter f l).
Proof.
  induction 1 as [|a l S IH Fa]; cbn; [constructor|]. destruct (f a); [|exact IH].
  constructor; [exact IH|]. apply Forall_forall. intros x Hx. apply filter_In in Hx as [Hx _].
  rewrite Forall_forall in Fa. auto.
Qed.

Theorem iter_ids_spec E n s idf v :
  In v (iter_ids E n s idf) <->
  v <> 0 /\ v < n /\ unused s v = false /\ eval E (idf v) s = Some v.
Proof.
  unfold iter_ids. rewrite filter_In, in_nrange, !andb_true_iff, !negb_true_iff, N.eqb_neq.
  destruct (eval E (idf v) s) as [r|]; [rewrite N.eqb_eq|]; intuition congruence.
Qed.

Theorem iter_ids_sorted E n s idf : Sorted.StronglySorted N.lt (iter_ids E n s idf).
Proof. apply filter_sorted, nrange_sorted. Qed.

(** ** the transactional orbit returns what the plain one returns *)
Lemma checks_rng (n : N) : forall ys q m q2 m2,
  fold_left check ys (q, m) = (q2, m2) ->
  (forall y, In y ys -> y < n) -> (forall x, In x q -> x < n) -> forall x, In x q2 -> x < n.
Proof.
  induction ys as [|y ys IH]; intros q m q2 m2 E Hy Hq; cbn [fold_left] in E.
  - injection E as <- <-. exact Hq.
  - unfold check at 2 in E. destruct (memb y m).
    + eapply IH; eauto. intros z Hz. apply Hy. now right.
    + eapply IH; [exact E| |]. { intros z Hz. apply Hy. now right. }
      intros x. rewrite in_app_iff. intros [Hx|[<-|[]]]; [auto|apply Hy; now left].
Qed.

Lemma succ2_tx_run {X} E n c w cnt p d (k : list N -> prog X) :
  dom_ok E n -> wf2 n w -> policy_ok p = true -> d < n ->
  run E (ims <- succ2_tx p d ;; k ims) c w cnt = run E (k (succ2 w p d)) c w cnt.
Proof.
  intros Hdom W Hp Hd.
  assert (R : forall i d, i < 3 -> d < n -> beta w i d < n) by apply W.
  assert (Q : forall i x (k' : N -> prog X), i < 3 -> x < n ->
            run E (y <- rdB i x ;; k' y) c w cnt = run E (k' (beta w i x)) c w cnt).
  { intros. apply run_rdB. apply Hdom; lia. }
  destruct p; cbn [succ2_tx succ2]; rewrite ?bind_assoc.
  - rewrite Q by lia. rewrite bind_assoc, Q by lia. rewrite bind_assoc, Q by (try lia; apply R; lia).
    rewrite bind_assoc, Q by (try lia; apply R; lia). reflexivity.
  - rewrite Q by lia. rewrite bind_assoc, Q by (try lia; apply R; lia). reflexivity.
  - rewrite Q by lia. reflexivity.
  - rewrite Q by lia. rewrite bind_assoc, Q by lia. reflexivity.
  - rewrite Q by lia. reflexivity.
  - cbn [policy_ok] in Hp. revert k. induction l as [|i r IH]; intros k; [reflexivity|].
    cbn [forallb] in Hp. apply andb_true_iff in Hp as [Hi Hr]. apply N.ltb_lt in Hi.
    cbn [custom_tx]. rewrite bind_assoc, Q by lia. rewrite bind_assoc. cbn [map].
    rewrite (IH Hr (fun ims => x <- Ret (beta w i d :: ims) ;; k x)). reflexivity.
Qed.

Theorem orbit_tx_loop_run E n c w p : dom_ok E n -> wf2 n w -> policy_ok p = true ->
  forall fuel q m out cnt, (forall x, In x q -> x < n) ->
  run E (orbit_tx_loop fuel p q m out) c w cnt =
  match bfs (succ2 w p) fuel q m out with
  | Some l => (Done l, w, cnt)
  | None => (Panicked OutOfFuel, w, cnt)
  end.
Proof.
  intros Hdom W Hp. induction fuel as [|f IH]; intros q m out cnt Hq; cbn [orbit_tx_loop bfs]; [reflexivity|].
  destruct q as [|d q']; [reflexivity|].
  assert (Hd : d < n) by (apply Hq; now left).
  rewrite (succ2_tx_run E n c w cnt p d _ Hdom W Hp Hd).
  destruct (fold_left check (succ2 w p d) (q', m)) as [q2 m2] eqn:Ec.
  apply IH. eapply checks_rng; [exact Ec| |].
  - intros y Hy. eapply succ2_rng; eauto.
  - intros x Hx. apply Hq. now right.
Qed.

Theorem orbit2_tx_eq_plain E n c w p d cnt : dom_ok E n -> wf2 n w -> policy_ok p = true -> d <> 0 -> d < n ->
  exists l, orbit2 n w p d = Some l /\ run E (orbit2_tx n p d) c w cnt = (Done l, w, cnt).
Proof.
  intros Hdom W Hp Hd Hdn.
  destruct (orbit2_spec n w p d W Hp Hd Hdn) as (l & El & _). exists l. split; [exact El|].
  unfold orbit2_tx. rewrite Hp. unfold orbit2 in El. rewrite Hp in El. cbn [andb] in El.
  destruct (N.ltb_spec d n); [|lia]. unfold orbit in El.
  rewrite (orbit_tx_loop_run E n c w p Hdom W Hp) by (intros x [<-|[]]; exact Hdn). now rewrite El.
Qed.

End Proofs.
