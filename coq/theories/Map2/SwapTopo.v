(** * C15, the swap puts the other diagonal: for the edge (l, r) between two triangles l -> a -> b -> l and
    r -> c -> d -> r (six distinct darts), a swap that terminates normally leaves the triangles l -> d -> a -> l and
    r -> b -> c -> r, with the images of every other dart and every 2-image untouched.  Exact final images, on every
    store; the program is the one regenerated from remeshing/swap.rs (GenKernLaws). *)
From Coq Require Import List NArith Bool Lia.
From HC Require Import Base.Closure Stm.Prog Stm.ProgFacts Stm.Atomic Map2.Ops2 Map2.State2 Map2.Wf2 Map2.Wf2Proofs
  Map2.Orbit2 Map2.SewTopo Map2.SewData Map2.Kern2.
Import ListNotations.
Open Scope N_scope.
Arguments N.eqb : simpl never.

Section SwapTopo.
Context `{Sig}.

Definition b_link1 (w w' : store) (l r : N) : Prop :=
  forall i d, beta w' i d = if (i =? 0) && (d =? r) then l else if (i =? 1) && (d =? l) then r else beta w i d.
Definition b_unlink1 (w w' : store) (l : N) : Prop :=
  forall i d, beta w' i d = if (i =? 0) && (d =? beta w 1 l) then 0 else if (i =? 1) && (d =? l) then 0 else beta w i d.
Definition b_same (w w' : store) : Prop := forall i d, beta w' i d = beta w i d.

Lemma sew1_step E n ks l r (k : prog unit) c w cnt w1 cnt1 :
  run E (one_sew n ks l r ;;; k) c w cnt = (Done tt, w1, cnt1) ->
  exists wa cnta, b_link1 w wa l r /\ run E k c wa cnta = (Done tt, w1, cnt1).
Proof.
  intros Hr. rewrite run_bind in Hr.
  destruct (run E (one_sew n ks l r) c w cnt) as [[[[]|e| |q] wa] cnta] eqn:Es; try discriminate Hr.
  exists wa, cnta. split; [|exact Hr].
  destruct (one_sew_topology E n ks l r c w cnt wa cnta Es) as (w2 & Ec & [Hb _]).
  apply run_one_link_core in Ec. destruct Ec as (-> & _).
  intros i d. rewrite Hb. unfold set1. rewrite !beta_upd_beta. reflexivity.
Qed.
Lemma unsew1_step E n ks l (k : prog unit) c w cnt w1 cnt1 :
  run E (one_unsew n ks l ;;; k) c w cnt = (Done tt, w1, cnt1) ->
  exists wa cnta, b_unlink1 w wa l /\ run E k c wa cnta = (Done tt, w1, cnt1).
Proof.
  intros Hr. rewrite run_bind in Hr.
  destruct (run E (one_unsew n ks l) c w cnt) as [[[[]|e| |q] wa] cnta] eqn:Es; try discriminate Hr.
  exists wa, cnta. split; [|exact Hr].
  destruct (one_unsew_topology E n ks l c w cnt wa cnta Es) as (w2 & Ec & [Hb _]).
  apply run_one_unlink_core in Ec. destruct Ec as (-> & _).
  intros i d. rewrite Hb. unfold clr1. rewrite !beta_upd_beta. reflexivity.
Qed.
Lemma data_step {X} E (a : prog X) (k : X -> prog unit) c w cnt w1 cnt1 :
  writes_in Sdata a -> run E (bind a k) c w cnt = (Done tt, w1, cnt1) ->
  exists x wa cnta, b_same w wa /\ run E (k x) c wa cnta = (Done tt, w1, cnt1).
Proof.
  intros Hw Hr. apply peel_data in Hr; [|exact Hw]. destruct Hr as (x & wa & cnta & [Hb _] & Hr).
  exists x, wa, cnta. split; [exact Hb|exact Hr].
Qed.
Lemma rd_step {X} E i d (k : N -> prog X) c w cnt o w1 cnt1 :
  run E (x <- rdB i d ;; k x) c w cnt = (Done o, w1, cnt1) -> run E (k (beta w i d)) c w cnt = (Done o, w1, cnt1).
Proof. cbn [run bind rdB]. destruct (e_dom E (XBeta i d)); [auto|discriminate]. Qed.

Lemma last_step E (a : prog unit) c w cnt w1 cnt1 :
  writes_in Sdata a -> run E a c w cnt = (Done tt, w1, cnt1) -> b_same w w1.
Proof. intros Hw Hr. destruct (last_data E a c w cnt tt w1 cnt1 Hw Hr) as [Hb _]. exact Hb. Qed.

Lemma wi_restore_vertex_d n d ov : writes_in Sdata (restore_vertex n d ov).
Proof. unfold restore_vertex. destruct ov; [|exact I]. apply writes_in_bind; [apply wi_vertex_id|]. intros ?. cbn. intros; repeat split; exact I. Qed.
Lemma wi_restore_anchor_d n d oa : writes_in Sdata (restore_anchor n d oa).
Proof.
  unfold restore_anchor. apply writes_in_bind; [apply wi_vertex_id|]. intros ?. destruct oa; cbn; intros; repeat split; exact I.
Qed.

(* (x =? y) with x <> y (or y <> x) in the context *)
Ltac simpl_ne := repeat match goal with
  | Hne : ?x <> ?y |- context [?x =? ?y] => rewrite (proj2 (N.eqb_neq x y) Hne)
  | Hne : ?y <> ?x |- context [?x =? ?y] => rewrite (proj2 (N.eqb_neq x y) (not_eq_sym Hne))
  end; rewrite ?N.eqb_refl; cbn [andb orb negb].

Ltac consts := change (1 =? 0) with false; change (0 =? 1) with false; change (1 =? 1) with true;
  change (0 =? 0) with true; cbn [andb].
(* look an image up through the chain of flat step equations *)
Ltac lk := repeat (match goal with
  | Hx : forall i d, beta ?s i d = _ |- context [beta ?s _ _] => rewrite Hx
  end; consts; simpl_ne).

Ltac dstep Hr S :=
  apply data_step in Hr;
  [ let x := fresh "x" in let wk := fresh "wk" in let ck := fresh "ck" in destruct Hr as (x & wk & ck & S & Hr); cbv beta in Hr
  | first [ apply wi_vertex_id | (cbn; intros; exact I) | apply wi_restore_vertex_d
          | (destruct (has_kind _ _); cbn; intros; exact I) ] ].

Theorem swap_edge_other_diagonal E n ks e c w cnt w' cnt' :
  let l := e in let r := beta w 2 e in
  let a := beta w 1 l in let b := beta w 0 l in let c0 := beta w 1 r in let d := beta w 0 r in
  wf2 n w -> e < n ->
  NoDup [l; a; b; r; c0; d] -> ~ In 0 [l; a; b; r; c0; d] ->
  run E (swap_edge n ks e) c w cnt = (Done tt, w', cnt') ->
  forall i x, beta w' i x =
    if i =? 1 then (if x =? l then d else if x =? d then a else if x =? a then l else
                    if x =? r then b else if x =? b then c0 else if x =? c0 then r else beta w 1 x)
    else if i =? 0 then (if x =? d then l else if x =? a then d else if x =? l then a else
                         if x =? b then r else if x =? c0 then b else if x =? r then c0 else beta w 0 x)
    else beta w i x.
Proof.
  intros l r a b c0 d. subst l.
  remember (beta w 2 e) as r0 eqn:Er. subst r. rename r0 into r.
  remember (beta w 1 e) as a0 eqn:Ea. subst a. rename a0 into a.
  remember (beta w 0 e) as b0 eqn:Eb. subst b. rename b0 into b.
  remember (beta w 1 r) as c1 eqn:Ec. subst c0. rename c1 into c0.
  remember (beta w 0 r) as d0 eqn:Ed. subst d. rename d0 into d.
  intros W Hen Hnd Hnz Hr.
  assert (Hl0 : e <> 0) by (intros Z; apply Hnz; left; auto).
  assert (Ha0 : a <> 0) by (intros Z; apply Hnz; right; left; auto).
  assert (Hb0 : b <> 0) by (intros Z; apply Hnz; do 2 right; left; auto).
  assert (Hr0 : r <> 0) by (intros Z; apply Hnz; do 3 right; left; auto).
  assert (Hc0 : c0 <> 0) by (intros Z; apply Hnz; do 4 right; left; auto).
  assert (Hd0 : d <> 0) by (intros Z; apply Hnz; do 5 right; left; auto).
  assert (Hrn : r < n) by (rewrite Er; apply W; [lia|exact Hen]).
  assert (Bb : beta w 1 b = e) by (rewrite Eb; apply (b0_then_b1 n w W e Hen); rewrite <- Eb; exact Hb0).
  assert (Bd : beta w 1 d = r) by (rewrite Ed; apply (b0_then_b1 n w W r Hrn); rewrite <- Ed; exact Hd0).
  (* pairwise distinct *)
  assert (D : e <> a /\ e <> b /\ e <> r /\ e <> c0 /\ e <> d /\ a <> b /\ a <> r /\ a <> c0 /\ a <> d /\
              b <> r /\ b <> c0 /\ b <> d /\ r <> c0 /\ r <> d /\ c0 <> d).
  { repeat match goal with Hx : NoDup (_ :: _) |- _ => inversion Hx; clear Hx; subst end.
    cbn [In] in *. repeat split; intros Q; intuition congruence. }
  destruct D as (Dla & Dlb & Dlr & Dlc & Dld & Dab & Dar & Dac & Dad & Dbr & Dbc & Dbd & Drc & Drd & Dcd).
  unfold swap_edge in Hr.
  destruct (N.eqb_spec e 0) as [Z|_]; [contradiction|].
  cbv zeta in Hr. apply rd_step in Hr. rewrite <- Er in Hr.
  destruct (N.eqb_spec r 0) as [Z|_]; [contradiction|].
  apply rd_step in Hr. rewrite <- Ea in Hr. apply rd_step in Hr. rewrite <- Ec in Hr.
  apply rd_step in Hr. rewrite <- Eb in Hr. apply rd_step in Hr. rewrite <- Ed in Hr.
  apply rd_step in Hr.
  (* the triangle test *)
  rewrite run_bind in Hr.
  destruct (N.eqb_spec (beta w 1 a) b) as [Bab|Nab]; cbn [negb] in Hr; [|cbn in Hr; discriminate Hr].
  cbn [run bind rdB] in Hr. destruct (e_dom E (XBeta 1 c0)); [|discriminate Hr]. cbn [run] in Hr.
  fold (beta w 1 c0) in Hr.
  destruct (N.eqb_spec (beta w 1 c0) d) as [Bcd|Ncd]; cbn [negb] in Hr; [|cbn in Hr; discriminate Hr].
  (* identifiers, coordinates, anchors: data only *)
  dstep Hr S1. dstep Hr S2. dstep Hr S3. dstep Hr S4. dstep Hr S5. dstep Hr S6. dstep Hr S7. dstep Hr S8. dstep Hr S9.
  assert (P0 : b_same w wk7).
  { intros i y. rewrite S9, S8, S7, S6, S5, S4, S3, S2, S1. reflexivity. }
  clear S1 S2 S3 S4 S5 S6 S7 S8 S9.
  (* six unsews: each clears the 1-image of its dart and the 0-image of that image *)
  unfold b_same in P0.
  apply unsew1_step in Hr. destruct Hr as (u1 & k1 & U1 & Hr). unfold b_unlink1 in U1.
  assert (V1 : beta wk7 1 e = a) by (rewrite P0; auto). rewrite V1 in U1.
  apply unsew1_step in Hr. destruct Hr as (u2 & k2 & U2 & Hr). unfold b_unlink1 in U2.
  assert (V2 : beta u1 1 r = c0) by (lk; auto). rewrite V2 in U2.
  apply unsew1_step in Hr. destruct Hr as (u3 & k3 & U3 & Hr). unfold b_unlink1 in U3.
  assert (V3 : beta u2 1 b = e) by (lk; auto). rewrite V3 in U3.
  apply unsew1_step in Hr. destruct Hr as (u4 & k4 & U4 & Hr). unfold b_unlink1 in U4.
  assert (V4 : beta u3 1 d = r) by (lk; auto). rewrite V4 in U4.
  apply unsew1_step in Hr. destruct Hr as (u5 & k5 & U5 & Hr). unfold b_unlink1 in U5.
  assert (V5 : beta u4 1 a = b) by (lk; auto). rewrite V5 in U5.
  apply unsew1_step in Hr. destruct Hr as (u6 & k6 & U6 & Hr). unfold b_unlink1 in U6.
  assert (V6 : beta u5 1 c0 = d) by (lk; auto). rewrite V6 in U6.
  (* six sews *)
  apply sew1_step in Hr. destruct Hr as (s1 & j1 & L1 & Hr). unfold b_link1 in L1.
  apply sew1_step in Hr. destruct Hr as (s2 & j2 & L2 & Hr). unfold b_link1 in L2.
  apply sew1_step in Hr. destruct Hr as (s3 & j3 & L3 & Hr). unfold b_link1 in L3.
  apply sew1_step in Hr. destruct Hr as (s4 & j4 & L4 & Hr). unfold b_link1 in L4.
  apply sew1_step in Hr. destruct Hr as (s5 & j5 & L5 & Hr). unfold b_link1 in L5.
  apply sew1_step in Hr. destruct Hr as (s6 & j6 & L6 & Hr). unfold b_link1 in L6.
  (* the corners are put back: data only *)
  dstep Hr T1. dstep Hr T2. dstep Hr T3. dstep Hr T4.
  assert (T5 : b_same wk11 w').
  { eapply last_step; [|exact Hr]. match goal with |- writes_in _ (match ?o with _ => _ end) => destruct o as [[[[aa ab] ac] ad]|] end; [|exact I].
    apply writes_in_bind; [apply wi_restore_anchor_d|intros ?].
    apply writes_in_bind; [apply wi_restore_anchor_d|intros ?].
    apply writes_in_bind; [apply wi_restore_anchor_d|intros ?]. apply wi_restore_anchor_d. }
  unfold b_same in *.
  intros i y. rewrite T5, T4, T3, T2, T1.
  destruct (N.eqb_spec i 1) as [->|Ni1]; [|destruct (N.eqb_spec i 0) as [->|Ni0]].
  - lk.
    destruct (N.eqb_spec y e) as [->|N1]; [simpl_ne; reflexivity|].
    destruct (N.eqb_spec y d) as [->|N2]; [simpl_ne; reflexivity|].
    destruct (N.eqb_spec y a) as [->|N3]; [simpl_ne; reflexivity|].
    destruct (N.eqb_spec y r) as [->|N4]; [simpl_ne; reflexivity|].
    destruct (N.eqb_spec y b) as [->|N5]; [simpl_ne; reflexivity|].
    destruct (N.eqb_spec y c0) as [->|N6]; [simpl_ne; reflexivity|].
    simpl_ne. reflexivity.
  - lk.
    destruct (N.eqb_spec y d) as [->|N1]; [simpl_ne; reflexivity|].
    destruct (N.eqb_spec y a) as [->|N2]; [simpl_ne; reflexivity|].
    destruct (N.eqb_spec y e) as [->|N3]; [simpl_ne; reflexivity|].
    destruct (N.eqb_spec y b) as [->|N4]; [simpl_ne; reflexivity|].
    destruct (N.eqb_spec y c0) as [->|N5]; [simpl_ne; reflexivity|].
    destruct (N.eqb_spec y r) as [->|N6]; [simpl_ne; reflexivity|].
    simpl_ne. reflexivity.
  - rewrite L6, L5, L4, L3, L2, L1, U6, U5, U4, U3, U2, U1, P0.
    rewrite (proj2 (N.eqb_neq i 0) Ni0), (proj2 (N.eqb_neq i 1) Ni1). cbn [andb]. reflexivity.
Qed.

(** ** the cuts *)
Definition b_link2 (w w' : store) (l r : N) : Prop :=
  forall i d, beta w' i d = if (i =? 2) && (d =? r) then l else if (i =? 2) && (d =? l) then r else beta w i d.
Lemma link1_step E l r (k : prog unit) c w cnt w1 cnt1 :
  run E (one_link_core l r ;;; k) c w cnt = (Done tt, w1, cnt1) ->
  exists wa cnta, b_link1 w wa l r /\ run E k c wa cnta = (Done tt, w1, cnt1).
Proof.
  intros Hr. rewrite run_bind in Hr.
  destruct (run E (one_link_core l r) c w cnt) as [[[[]|e| |q] wa] cnta] eqn:Es; try discriminate Hr.
  exists wa, cnta. split; [|exact Hr]. apply run_one_link_core in Es. destruct Es as (-> & _).
  intros i d. unfold set1. rewrite !beta_upd_beta. reflexivity.
Qed.
Lemma link2_step E l r (k : prog unit) c w cnt w1 cnt1 :
  run E (two_link_core l r ;;; k) c w cnt = (Done tt, w1, cnt1) ->
  exists wa cnta, b_link2 w wa l r /\ run E k c wa cnta = (Done tt, w1, cnt1).
Proof.
  intros Hr. rewrite run_bind in Hr.
  destruct (run E (two_link_core l r) c w cnt) as [[[[]|e| |q] wa] cnta] eqn:Es; try discriminate Hr.
  exists wa, cnta. split; [|exact Hr]. apply run_two_link_core in Es. destruct Es as (-> & _).
  intros i d. unfold set2. rewrite !beta_upd_beta. reflexivity.
Qed.

Lemma wi_reattach_d n ks a x y : writes_in Sdata (reattach_face_anchor n ks a x y).
Proof.
  unfold reattach_face_anchor. destruct a as [a|]; [|exact I].
  apply writes_in_bind; [apply wi_face_id|]. intros ?. apply writes_in_bind; [apply wi_face_id|]. intros ?.
  apply writes_in_bind; [cbn; intros; repeat split; exact I|]. intros ?.
  apply writes_in_bind; [cbn; intros; repeat split; exact I|]. intros ?.
  destruct (has_kind ks KEA); [|exact I].
  apply writes_in_bind; [apply wi_edge_id|]. intros ?. cbn. intros; repeat split; exact I.
Qed.

Ltac consts2 := change (2 =? 0) with false; change (2 =? 1) with false; change (0 =? 2) with false;
  change (1 =? 2) with false; change (2 =? 2) with true; cbn [andb].
Ltac lk2 := repeat (match goal with
  | Hx : forall i d, beta ?s i d = _ |- context [beta ?s _ _] => rewrite Hx
  end; consts; consts2; simpl_ne).
Ltac dstep2 Hr S :=
  apply data_step in Hr;
  [ let x := fresh "x" in let wk := fresh "wk" in let ck := fresh "ck" in destruct Hr as (x & wk & ck & S & Hr); cbv beta in Hr
  | first [ apply wi_vertex_id | (cbn; intros; repeat split; exact I) | apply wi_reattach_d
          | (unfold opt_anchor; destruct (has_kind _ _); [|exact I];
             first [ (cbn; intros; exact I) | (apply writes_in_bind; [apply wi_face_id|intros ?; cbn; intros; repeat split; exact I]) ]) ] ].

(** boundary cut: the triangle e -> a -> b -> e becomes e -> nd1 -> b -> e and nd3 -> a -> nd2 -> nd3, glued along
    nd1 | nd2; everything else untouched *)
Theorem cut_outer_edge_topology E n ks e nd1 nd2 nd3 c w cnt w' cnt' :
  let a := beta w 1 e in let b := beta w 0 e in
  NoDup [e; a; b; nd1; nd2; nd3] -> ~ In 0 [e; a; b; nd1; nd2; nd3] -> beta w 1 a = b ->
  run E (cut_outer_edge n ks e nd1 nd2 nd3) c w cnt = (Done tt, w', cnt') ->
  forall i x, beta w' i x =
    if i =? 1 then (if x =? e then nd1 else if x =? nd1 then b else if x =? nd3 then a else
                    if x =? a then nd2 else if x =? nd2 then nd3 else beta w 1 x)
    else if i =? 0 then (if x =? nd1 then e else if x =? b then nd1 else if x =? a then nd3 else
                         if x =? nd2 then a else if x =? nd3 then nd2 else beta w 0 x)
    else if i =? 2 then (if x =? nd1 then nd2 else if x =? nd2 then nd1 else beta w 2 x)
    else beta w i x.
Proof.
  intros a b. remember (beta w 1 e) as a0 eqn:Ea. subst a. rename a0 into a.
  remember (beta w 0 e) as b0 eqn:Eb. subst b. rename b0 into b.
  intros Hnd Hnz Bab Hr.
  assert (D : e <> a /\ e <> b /\ e <> nd1 /\ e <> nd2 /\ e <> nd3 /\ a <> b /\ a <> nd1 /\ a <> nd2 /\ a <> nd3 /\
              b <> nd1 /\ b <> nd2 /\ b <> nd3 /\ nd1 <> nd2 /\ nd1 <> nd3 /\ nd2 <> nd3).
  { repeat match goal with Hx : NoDup (_ :: _) |- _ => inversion Hx; clear Hx; subst end.
    cbn [In] in *. repeat split; intros Q; intuition congruence. }
  destruct D as (D1 & D2 & D3 & D4 & D5 & D6 & D7 & D8 & D9 & D10 & D11 & D12 & D13 & D14 & D15).
  unfold cut_outer_edge in Hr. cbv zeta in Hr.
  apply link2_step in Hr. destruct Hr as (s1 & j1 & L1 & Hr). unfold b_link2 in L1.
  apply link1_step in Hr. destruct Hr as (s2 & j2 & L2 & Hr). unfold b_link1 in L2.
  dstep2 Hr S1. dstep2 Hr S2.
  assert (P0 : forall i d, beta wk0 i d = beta s2 i d) by (intros i y; rewrite S2, S1; reflexivity). clear S1 S2.
  apply rd_step in Hr. apply rd_step in Hr.
  assert (R0 : beta wk0 0 e = b) by (lk2; auto).
  assert (R1 : beta wk0 1 e = a) by (lk2; auto).
  rewrite R0, R1 in Hr.
  dstep2 Hr S1. dstep2 Hr S2. dstep2 Hr S3. dstep2 Hr S4.
  match type of Hr with context [match ?o with Some _ => _ | None => _ end] => destruct o as [v1|]; [|cbn in Hr; discriminate Hr] end.
  match type of Hr with context [match ?o with Some _ => _ | None => _ end] => destruct o as [v2|]; [|cbn in Hr; discriminate Hr] end.
  dstep2 Hr S5. dstep2 Hr S6.
  assert (P1 : forall i d, beta wk6 i d = beta wk0 i d) by (intros i y; rewrite S6, S5, S4, S3, S2, S1; reflexivity).
  clear S1 S2 S3 S4 S5 S6.
  apply unsew1_step in Hr. destruct Hr as (u1 & k1 & U1 & Hr). unfold b_unlink1 in U1.
  assert (V1 : beta wk6 1 e = a) by (lk2; auto). rewrite V1 in U1.
  apply unsew1_step in Hr. destruct Hr as (u2 & k2 & U2 & Hr). unfold b_unlink1 in U2.
  assert (V2 : beta u1 1 a = b) by (lk2; auto). rewrite V2 in U2.
  apply sew1_step in Hr. destruct Hr as (s3 & j3 & L3 & Hr). unfold b_link1 in L3.
  apply sew1_step in Hr. destruct Hr as (s4 & j4 & L4 & Hr). unfold b_link1 in L4.
  apply sew1_step in Hr. destruct Hr as (s5 & j5 & L5 & Hr). unfold b_link1 in L5.
  apply sew1_step in Hr. destruct Hr as (s6 & j6 & L6 & Hr). unfold b_link1 in L6.
  dstep2 Hr T1.
  assert (T2 : b_same wk7 w').
  { eapply last_step; [|exact Hr]. match goal with |- writes_in _ (match ?o with _ => _ end) => destruct o end; [|exact I].
    apply writes_in_bind; [apply wi_vertex_id|]. intros ?. cbn. intros; repeat split; exact I. }
  unfold b_same in *.
  intros i y. rewrite T2, T1.
  destruct (N.eqb_spec i 1) as [->|Ni1]; [|destruct (N.eqb_spec i 0) as [->|Ni0]; [|destruct (N.eqb_spec i 2) as [->|Ni2]]].
  - lk2.
    destruct (N.eqb_spec y e) as [->|N1]; [simpl_ne; reflexivity|].
    destruct (N.eqb_spec y nd1) as [->|N2]; [simpl_ne; reflexivity|].
    destruct (N.eqb_spec y nd3) as [->|N3]; [simpl_ne; reflexivity|].
    destruct (N.eqb_spec y a) as [->|N4]; [simpl_ne; reflexivity|].
    destruct (N.eqb_spec y nd2) as [->|N5]; [simpl_ne; reflexivity|].
    simpl_ne. reflexivity.
  - lk2.
    destruct (N.eqb_spec y nd1) as [->|N1]; [simpl_ne; reflexivity|].
    destruct (N.eqb_spec y b) as [->|N2]; [simpl_ne; reflexivity|].
    destruct (N.eqb_spec y a) as [->|N3]; [simpl_ne; reflexivity|].
    destruct (N.eqb_spec y nd2) as [->|N4]; [simpl_ne; reflexivity|].
    destruct (N.eqb_spec y nd3) as [->|N5]; [simpl_ne; reflexivity|].
    simpl_ne. reflexivity.
  - lk2.
    destruct (N.eqb_spec y nd1) as [->|N1]; [simpl_ne; reflexivity|].
    destruct (N.eqb_spec y nd2) as [->|N2]; [simpl_ne; reflexivity|].
    simpl_ne. reflexivity.
  - rewrite L6, L5, L4, L3, U2, U1, P1, P0, L2, L1.
    rewrite (proj2 (N.eqb_neq i 0) Ni0), (proj2 (N.eqb_neq i 1) Ni1), (proj2 (N.eqb_neq i 2) Ni2). cbn [andb]. reflexivity.
Qed.

Definition b_unlink2 (w w' : store) (l : N) : Prop :=
  forall i d, beta w' i d = if (i =? 2) && (d =? beta w 2 l) then 0 else if (i =? 2) && (d =? l) then 0 else beta w i d.
Lemma sew2_step E n ks l r (k : prog unit) c w cnt w1 cnt1 :
  run E (two_sew n ks l r ;;; k) c w cnt = (Done tt, w1, cnt1) ->
  exists wa cnta, b_link2 w wa l r /\ run E k c wa cnta = (Done tt, w1, cnt1).
Proof.
  intros Hr. rewrite run_bind in Hr.
  destruct (run E (two_sew n ks l r) c w cnt) as [[[[]|e| |q] wa] cnta] eqn:Es; try discriminate Hr.
  exists wa, cnta. split; [|exact Hr].
  destruct (two_sew_topology E n ks l r c w cnt wa cnta Es) as (w2 & Ec & [Hb _]).
  apply run_two_link_core in Ec. destruct Ec as (-> & _).
  intros i d. rewrite Hb. unfold set2. rewrite !beta_upd_beta. reflexivity.
Qed.
Lemma unsew2_step E n ks l (k : prog unit) c w cnt w1 cnt1 :
  run E (two_unsew n ks l ;;; k) c w cnt = (Done tt, w1, cnt1) ->
  exists wa cnta, b_unlink2 w wa l /\ run E k c wa cnta = (Done tt, w1, cnt1).
Proof.
  intros Hr. rewrite run_bind in Hr.
  destruct (run E (two_unsew n ks l) c w cnt) as [[[[]|e| |q] wa] cnta] eqn:Es; try discriminate Hr.
  exists wa, cnta. split; [|exact Hr].
  destruct (two_unsew_topology E n ks l c w cnt wa cnta Es) as (w2 & Ec & [Hb _]).
  apply run_two_unlink_core in Ec. destruct Ec as (-> & _).
  intros i d. rewrite Hb. unfold clr2. rewrite !beta_upd_beta. reflexivity.
Qed.

(** inner cut: the triangles e -> a -> b and r -> c -> d on the two sides of the edge become four triangles
    e -> nd1 -> b, nd3 -> a -> nd2, r -> nd4 -> d, nd6 -> c -> nd5, glued nd1 | nd2, nd4 | nd5, e | nd6, r | nd3 *)
Theorem cut_inner_edge_topology E n ks e nd1 nd2 nd3 nd4 nd5 nd6 c w cnt w' cnt' :
  let r := beta w 2 e in
  let a := beta w 1 e in let b := beta w 0 e in let c0 := beta w 1 r in let d := beta w 0 r in
  NoDup [e; a; b; r; c0; d; nd1; nd2; nd3; nd4; nd5; nd6] -> ~ In 0 [e; a; b; r; c0; d; nd1; nd2; nd3; nd4; nd5; nd6] ->
  beta w 1 a = b -> beta w 1 c0 = d ->
  run E (cut_inner_edge n ks e nd1 nd2 nd3 nd4 nd5 nd6) c w cnt = (Done tt, w', cnt') ->
  forall i x, beta w' i x =
    if i =? 1 then (if x =? e then nd1 else if x =? nd1 then b else if x =? nd3 then a else if x =? a then nd2 else
                    if x =? nd2 then nd3 else if x =? r then nd4 else if x =? nd4 then d else if x =? nd6 then c0 else
                    if x =? c0 then nd5 else if x =? nd5 then nd6 else beta w 1 x)
    else if i =? 0 then (if x =? nd1 then e else if x =? b then nd1 else if x =? a then nd3 else if x =? nd2 then a else
                         if x =? nd3 then nd2 else if x =? nd4 then r else if x =? d then nd4 else if x =? c0 then nd6 else
                         if x =? nd5 then c0 else if x =? nd6 then nd5 else beta w 0 x)
    else if i =? 2 then (if x =? nd1 then nd2 else if x =? nd2 then nd1 else if x =? nd4 then nd5 else if x =? nd5 then nd4 else
                         if x =? e then nd6 else if x =? nd6 then e else if x =? r then nd3 else if x =? nd3 then r else beta w 2 x)
    else beta w i x.
Proof.
  intros r a b c0 d.
  remember (beta w 2 e) as r0 eqn:Er. subst r. rename r0 into r.
  remember (beta w 1 e) as a0 eqn:Ea. subst a. rename a0 into a.
  remember (beta w 0 e) as b0 eqn:Eb. subst b. rename b0 into b.
  remember (beta w 1 r) as c1 eqn:Ec. subst c0. rename c1 into c0.
  remember (beta w 0 r) as d0 eqn:Ed. subst d. rename d0 into d.
  intros Hnd Hnz Bab Bcd Hr.
  assert (D : e <> a /\ e <> b /\ e <> r /\ e <> c0 /\ e <> d /\ e <> nd1 /\ e <> nd2 /\ e <> nd3 /\ e <> nd4 /\ e <> nd5 /\ e <> nd6 /\ a <> b /\ a <> r /\ a <> c0 /\ a <> d /\ a <> nd1 /\ a <> nd2 /\ a <> nd3 /\ a <> nd4 /\ a <> nd5 /\ a <> nd6 /\ b <> r /\ b <> c0 /\ b <> d /\ b <> nd1 /\ b <> nd2 /\ b <> nd3 /\ b <> nd4 /\ b <> nd5 /\ b <> nd6 /\ r <> c0 /\ r <> d /\ r <> nd1 /\ r <> nd2 /\ r <> nd3 /\ r <> nd4 /\ r <> nd5 /\ r <> nd6 /\ c0 <> d /\ c0 <> nd1 /\ c0 <> nd2 /\ c0 <> nd3 /\ c0 <> nd4 /\ c0 <> nd5 /\ c0 <> nd6 /\ d <> nd1 /\ d <> nd2 /\ d <> nd3 /\ d <> nd4 /\ d <> nd5 /\ d <> nd6 /\ nd1 <> nd2 /\ nd1 <> nd3 /\ nd1 <> nd4 /\ nd1 <> nd5 /\ nd1 <> nd6 /\ nd2 <> nd3 /\ nd2 <> nd4 /\ nd2 <> nd5 /\ nd2 <> nd6 /\ nd3 <> nd4 /\ nd3 <> nd5 /\ nd3 <> nd6 /\ nd4 <> nd5 /\ nd4 <> nd6 /\ nd5 <> nd6).
  { repeat match goal with Hx : NoDup (_ :: _) |- _ => inversion Hx; clear Hx; subst end.
    cbn [In] in *. repeat split; intros Q; intuition congruence. }
  destruct D as (Q0 & Q1 & Q2 & Q3 & Q4 & Q5 & Q6 & Q7 & Q8 & Q9 & Q10 & Q11 & Q12 & Q13 & Q14 & Q15 & Q16 & Q17 & Q18 & Q19 & Q20 & Q21 & Q22 & Q23 & Q24 & Q25 & Q26 & Q27 & Q28 & Q29 & Q30 & Q31 & Q32 & Q33 & Q34 & Q35 & Q36 & Q37 & Q38 & Q39 & Q40 & Q41 & Q42 & Q43 & Q44 & Q45 & Q46 & Q47 & Q48 & Q49 & Q50 & Q51 & Q52 & Q53 & Q54 & Q55 & Q56 & Q57 & Q58 & Q59 & Q60 & Q61 & Q62 & Q63 & Q64 & Q65).
  unfold cut_inner_edge in Hr. cbv zeta in Hr.
  apply link2_step in Hr. destruct Hr as (s1 & j1 & L1 & Hr). unfold b_link2 in L1.
  apply link1_step in Hr. destruct Hr as (s2 & j2 & L2 & Hr). unfold b_link1 in L2.
  apply link2_step in Hr. destruct Hr as (s3 & j3 & L3 & Hr). unfold b_link2 in L3.
  apply link1_step in Hr. destruct Hr as (s4 & j4 & L4 & Hr). unfold b_link1 in L4.
  apply rd_step in Hr.
  assert (R2 : beta s4 2 e = r) by (lk2; auto). rewrite R2 in Hr.
  dstep2 Hr S1. dstep2 Hr S2. dstep2 Hr S3.
  assert (P0 : forall i d, beta wk1 i d = beta s4 i d) by (intros i y; rewrite S3, S2, S1; reflexivity). clear S1 S2 S3.
  apply rd_step in Hr. apply rd_step in Hr. apply rd_step in Hr. apply rd_step in Hr.
  assert (R0 : beta wk1 0 e = b) by (lk2; auto).
  assert (R1 : beta wk1 1 e = a) by (lk2; auto).
  assert (R3 : beta wk1 0 r = d) by (lk2; auto).
  assert (R4 : beta wk1 1 r = c0) by (lk2; auto).
  rewrite R0, R1, R3, R4 in Hr.
  dstep2 Hr S1. dstep2 Hr S2. dstep2 Hr S3. dstep2 Hr S4.
  match type of Hr with context [match ?o with Some _ => _ | None => _ end] => destruct o as [v1|]; [|cbn in Hr; discriminate Hr] end.
  match type of Hr with context [match ?o with Some _ => _ | None => _ end] => destruct o as [v2|]; [|cbn in Hr; discriminate Hr] end.
  dstep2 Hr S5. dstep2 Hr S6.
  assert (P1 : forall i d, beta wk7 i d = beta wk1 i d) by (intros i y; rewrite S6, S5, S4, S3, S2, S1; reflexivity).
  clear S1 S2 S3 S4 S5 S6.
  apply unsew2_step in Hr. destruct Hr as (u0 & k0 & U0 & Hr). unfold b_unlink2 in U0.
  assert (V0 : beta wk7 2 e = r) by (lk2; auto). rewrite V0 in U0.
  apply unsew1_step in Hr. destruct Hr as (u1 & k1 & U1 & Hr). unfold b_unlink1 in U1.
  assert (V1 : beta u0 1 e = a) by (lk2; auto). rewrite V1 in U1.
  apply unsew1_step in Hr. destruct Hr as (u2 & k2 & U2 & Hr). unfold b_unlink1 in U2.
  assert (V2 : beta u1 1 a = b) by (lk2; auto). rewrite V2 in U2.
  apply unsew1_step in Hr. destruct Hr as (u3 & k3 & U3 & Hr). unfold b_unlink1 in U3.
  assert (V3 : beta u2 1 r = c0) by (lk2; auto). rewrite V3 in U3.
  apply unsew1_step in Hr. destruct Hr as (u4 & k4 & U4 & Hr). unfold b_unlink1 in U4.
  assert (V4 : beta u3 1 c0 = d) by (lk2; auto). rewrite V4 in U4.
  apply sew2_step in Hr. destruct Hr as (t1 & i1 & M1 & Hr). unfold b_link2 in M1.
  apply sew2_step in Hr. destruct Hr as (t2 & i2 & M2 & Hr). unfold b_link2 in M2.
  apply sew1_step in Hr. destruct Hr as (t3 & i3 & M3 & Hr). unfold b_link1 in M3.
  apply sew1_step in Hr. destruct Hr as (t4 & i4 & M4 & Hr). unfold b_link1 in M4.
  apply sew1_step in Hr. destruct Hr as (t5 & i5 & M5 & Hr). unfold b_link1 in M5.
  apply sew1_step in Hr. destruct Hr as (t6 & i6 & M6 & Hr). unfold b_link1 in M6.
  apply sew1_step in Hr. destruct Hr as (t7 & i7 & M7 & Hr). unfold b_link1 in M7.
  apply sew1_step in Hr. destruct Hr as (t8 & i8 & M8 & Hr). unfold b_link1 in M8.
  apply sew1_step in Hr. destruct Hr as (t9 & i9 & M9 & Hr). unfold b_link1 in M9.
  apply sew1_step in Hr. destruct Hr as (t10 & i10 & M10 & Hr). unfold b_link1 in M10.
  dstep2 Hr T1. dstep2 Hr T2.
  assert (T3 : b_same wk9 w').
  { eapply last_step; [|exact Hr]. match goal with |- writes_in _ (match ?o with _ => _ end) => destruct o end; [|exact I].
    apply writes_in_bind; [apply wi_vertex_id|]. intros ?. cbn. intros; repeat split; exact I. }
  unfold b_same in *.
  intros i y. rewrite T3, T2, T1.
  destruct (N.eqb_spec i 1) as [->|Ni1]; [|destruct (N.eqb_spec i 0) as [->|Ni0]; [|destruct (N.eqb_spec i 2) as [->|Ni2]]].
  - lk2.
    destruct (N.eqb_spec y e) as [->|N0]; [simpl_ne; reflexivity|].
    destruct (N.eqb_spec y nd1) as [->|N1]; [simpl_ne; reflexivity|].
    destruct (N.eqb_spec y nd3) as [->|N2]; [simpl_ne; reflexivity|].
    destruct (N.eqb_spec y a) as [->|N3]; [simpl_ne; reflexivity|].
    destruct (N.eqb_spec y nd2) as [->|N4]; [simpl_ne; reflexivity|].
    destruct (N.eqb_spec y r) as [->|N5]; [simpl_ne; reflexivity|].
    destruct (N.eqb_spec y nd4) as [->|N6]; [simpl_ne; reflexivity|].
    destruct (N.eqb_spec y nd6) as [->|N7]; [simpl_ne; reflexivity|].
    destruct (N.eqb_spec y c0) as [->|N8]; [simpl_ne; reflexivity|].
    destruct (N.eqb_spec y nd5) as [->|N9]; [simpl_ne; reflexivity|].
    simpl_ne. reflexivity.
  - lk2.
    destruct (N.eqb_spec y nd1) as [->|N0]; [simpl_ne; reflexivity|].
    destruct (N.eqb_spec y b) as [->|N1]; [simpl_ne; reflexivity|].
    destruct (N.eqb_spec y a) as [->|N2]; [simpl_ne; reflexivity|].
    destruct (N.eqb_spec y nd2) as [->|N3]; [simpl_ne; reflexivity|].
    destruct (N.eqb_spec y nd3) as [->|N4]; [simpl_ne; reflexivity|].
    destruct (N.eqb_spec y nd4) as [->|N5]; [simpl_ne; reflexivity|].
    destruct (N.eqb_spec y d) as [->|N6]; [simpl_ne; reflexivity|].
    destruct (N.eqb_spec y c0) as [->|N7]; [simpl_ne; reflexivity|].
    destruct (N.eqb_spec y nd5) as [->|N8]; [simpl_ne; reflexivity|].
    destruct (N.eqb_spec y nd6) as [->|N9]; [simpl_ne; reflexivity|].
    simpl_ne. reflexivity.
  - lk2.
    destruct (N.eqb_spec y nd1) as [->|N0]; [simpl_ne; reflexivity|].
    destruct (N.eqb_spec y nd2) as [->|N1]; [simpl_ne; reflexivity|].
    destruct (N.eqb_spec y nd4) as [->|N2]; [simpl_ne; reflexivity|].
    destruct (N.eqb_spec y nd5) as [->|N3]; [simpl_ne; reflexivity|].
    destruct (N.eqb_spec y e) as [->|N4]; [simpl_ne; reflexivity|].
    destruct (N.eqb_spec y nd6) as [->|N5]; [simpl_ne; reflexivity|].
    destruct (N.eqb_spec y r) as [->|N6]; [simpl_ne; reflexivity|].
    destruct (N.eqb_spec y nd3) as [->|N7]; [simpl_ne; reflexivity|].
    simpl_ne. reflexivity.
  - rewrite M10, M9, M8, M7, M6, M5, M4, M3, M2, M1, U4, U3, U2, U1, U0, P1, P0, L4, L3, L2, L1.
    rewrite (proj2 (N.eqb_neq i 0) Ni0), (proj2 (N.eqb_neq i 1) Ni1), (proj2 (N.eqb_neq i 2) Ni2). cbn [andb]. reflexivity.
Qed.

End SwapTopo.
