(** * C06 / C08 for the 2-map calls: errors change nothing; a block acts like the sequence. *)
From Coq Require Import List NArith Bool Lia.
From HC Require Import Stm.Prog Stm.ProgFacts Stm.Atomic Map2.Ops2 Map2.State2.
Import ListNotations.
Open Scope N_scope.

Section Tx2.
Context `{Sig}.

Theorem step2_err_noop fa st o e : fst (step2 fa st o) = RErr e -> snd (step2 fa st o) = st.
Proof.
  destruct o as [| k | | d | c | cs]; cbn [step2].
  - unfold add_free_darts. cbn. discriminate.
  - unfold add_free_darts. cbn. discriminate.
  - destruct (insert_free_dart st). cbn. discriminate.
  - unfold remove_free_dart.
    destruct (negb (d <? nd st)); [cbn; discriminate|].
    destruct (negb (is_free2 (mem st) d)); [cbn; discriminate|].
    destruct (unused (mem st) d); cbn; discriminate.
  - destruct (atomically (env2 st fa) (call2_prog (nd st) (aks st) c) (mem st)) as [[x|e'| |q] m]; cbn; congruence.
  - destruct (atomically (env2 st fa) (block_prog (nd st) (aks st) cs) (mem st)) as [[x|e'| |q] m]; cbn; congruence.
Qed.

(** the 2-map calls never read outside their transaction *)
Lemma na_rdB i d : no_atomic (rdB i d). Proof. cbn. auto. Qed.
Lemma na_wrB i d x : no_atomic (wrB i d x). Proof. cbn. auto. Qed.
Lemma na_rdV d : no_atomic (rdV d). Proof. cbn. auto. Qed.
Lemma na_wrV d o : no_atomic (wrV d o). Proof. cbn. auto. Qed.
Lemma na_rdA k d : no_atomic (rdA k d). Proof. cbn. auto. Qed.
Lemma na_wrA k d o : no_atomic (wrA k d o). Proof. cbn. auto. Qed.
Lemma na_rdU d : no_atomic (rdU d). Proof. cbn. auto. Qed.
Lemma na_wrU d b : no_atomic (wrU d b). Proof. cbn. auto. Qed.

Ltac na :=
  repeat match goal with
  | |- no_atomic (bind _ _) => apply no_atomic_bind; [|intros ?; cbv beta]
  | |- no_atomic (rdB _ _) => apply na_rdB
  | |- no_atomic (wrB _ _ _) => apply na_wrB
  | |- no_atomic (rdV _) => apply na_rdV
  | |- no_atomic (wrV _ _) => apply na_wrV
  | |- no_atomic (rdA _ _) => apply na_rdA
  | |- no_atomic (wrA _ _ _) => apply na_wrA
  | |- no_atomic (rdU _) => apply na_rdU
  | |- no_atomic (wrU _ _) => apply na_wrU
  | |- no_atomic (if ?b then _ else _) => destruct b
  | |- no_atomic (match ?x with _ => _ end) => destruct x
  | |- no_atomic (Ret _) => exact I
  | |- no_atomic (Fail _) => exact I
  | |- no_atomic (Tick _) => intros ?; cbv beta
  | |- no_atomic (match ?x with _ => _ end _ _ _) => destruct x; cbv beta
  | |- no_atomic (match ?x with _ => _ end _ _) => destruct x; cbv beta
  | |- no_atomic (match ?x with _ => _ end _) => destruct x; cbv beta
  end.

Lemma na_one_link l r : no_atomic (one_link_core l r). Proof. unfold one_link_core. na. Qed.
Lemma na_two_link l r : no_atomic (two_link_core l r). Proof. unfold two_link_core. na. Qed.
Lemma na_one_unlink l : no_atomic (one_unlink_core l). Proof. unfold one_unlink_core. na. Qed.
Lemma na_two_unlink l : no_atomic (two_unlink_core l). Proof. unfold two_unlink_core. na. Qed.

Lemma na_vid f : forall p m mn, no_atomic (vid_loop f p m mn).
Proof.
  induction f as [|f IH]; intros p m mn; cbn [vid_loop]; [exact I|]. destruct p as [|d rest]; [exact I|].
  na. apply IH.
Qed.
Lemma na_fid f : forall p m mn, no_atomic (fid_loop f p m mn).
Proof.
  induction f as [|f IH]; intros p m mn; cbn [fid_loop]; [exact I|]. destruct p as [|d rest]; [exact I|].
  na. apply IH.
Qed.
Lemma na_vertex_id n d : no_atomic (vertex_id_tx n d). Proof. apply na_vid. Qed.
Lemma na_face_id n d : no_atomic (face_id_tx n d). Proof. apply na_fid. Qed.
Lemma na_edge_id d : no_atomic (edge_id_tx d). Proof. unfold edge_id_tx. na. Qed.
Lemma na_vertices_merge o l r : no_atomic (vertices_merge o l r). Proof. unfold vertices_merge. na. Qed.
Lemma na_vertices_split a b i : no_atomic (vertices_split a b i). Proof. unfold vertices_split. na. Qed.
Lemma na_attr_merge k o l r : no_atomic (attr_merge k o l r). Proof. unfold attr_merge. na. Qed.
Lemma na_attr_split k a b i : no_atomic (attr_split k a b i). Proof. unfold attr_split. na. Qed.
Lemma na_merge_attributes ks c o l r : no_atomic (merge_attributes ks c o l r).
Proof. induction ks as [|[k c'] ks IH]; cbn [merge_attributes]; [exact I|]. na; auto using na_attr_merge. Qed.
Lemma na_split_attributes ks c a b i : no_atomic (split_attributes ks c a b i).
Proof. induction ks as [|[k c'] ks IH]; cbn [split_attributes]; [exact I|]. na; auto using na_attr_split. Qed.

Ltac na2 :=
  repeat match goal with
  | |- no_atomic (one_link_core _ _) => apply na_one_link
  | |- no_atomic (two_link_core _ _) => apply na_two_link
  | |- no_atomic (one_unlink_core _) => apply na_one_unlink
  | |- no_atomic (two_unlink_core _) => apply na_two_unlink
  | |- no_atomic (vertex_id_tx _ _) => apply na_vertex_id
  | |- no_atomic (face_id_tx _ _) => apply na_face_id
  | |- no_atomic (edge_id_tx _) => apply na_edge_id
  | |- no_atomic (vertices_merge _ _ _) => apply na_vertices_merge
  | |- no_atomic (vertices_split _ _ _) => apply na_vertices_split
  | |- no_atomic (merge_attributes _ _ _ _ _) => apply na_merge_attributes
  | |- no_atomic (split_attributes _ _ _ _ _) => apply na_split_attributes
  | |- no_atomic (attr_merge _ _ _ _) => apply na_attr_merge
  | |- no_atomic (attr_split _ _ _ _) => apply na_attr_split
  | _ => progress na
  end.

Theorem na_call2 n ks c : no_atomic (call2_prog n ks c).
Proof.
  destruct c; cbn [call2_prog]; try solve [na2].
  - unfold one_sew. na2.
  - unfold two_sew. na2.
  - unfold one_unsew. na2.
  - unfold two_unsew. na2.
Qed.

Lemma block_prog_block n ks cs : block_prog n ks cs = block (map (call2_prog n ks) cs).
Proof. induction cs as [|c cs IH]; cbn; [reflexivity|]. now rewrite IH. Qed.

(** the calls of [cs] one after the other, each through its own [Force] transaction *)
Fixpoint seq_force (st : state2) (cs : list call2) : option state2 :=
  match cs with
  | [] => Some st
  | c :: rest =>
    match step2 None st (Force c) with
    | (ROk _, st1) => seq_force st1 rest
    | _ => None
    end
  end.

Lemma seq_force_seq_run st cs st' : seq_force st cs = Some st' ->
  nd st' = nd st /\ aks st' = aks st /\
  seq_run (env2 st None) (map (call2_prog (nd st) (aks st)) cs) (mem st) = Some (mem st').
Proof.
  revert st. induction cs as [|c cs IH]; intros st Hs; cbn [seq_force map seq_run] in *.
  - injection Hs as <-. auto.
  - cbn [step2] in Hs.
    destruct (atomically (env2 st None) (call2_prog (nd st) (aks st) c) (mem st)) as [[x|e| |q] m] eqn:Ea;
      try discriminate Hs.
    apply IH in Hs. cbn [with_mem nd aks mem] in Hs. destruct Hs as (Hn & Hk & Hr).
    repeat split; auto.
Qed.

Theorem compose2 st cs st' : seq_force st cs = Some st' ->
  step2 None st (Block cs) = (ROk 0, st').
Proof.
  intros Hs. destruct (seq_force_seq_run st cs st' Hs) as (Hn & Hk & Hr).
  cbn [step2]. rewrite block_prog_block.
  rewrite (compose_block (env2 st None) _ (mem st) (mem st') eq_refl); [|apply Forall_forall|exact Hr].
  - f_equal. destruct st'. cbn in *. subst. reflexivity.
  - intros p Hp. apply in_map_iff in Hp as (c & <- & _). apply na_call2.
Qed.

End Tx2.
