(** * C14, well-formedness clause: a successful insertion of vertices on an edge keeps the 2-map well formed,
    for every map, every edge in use, every list of distinct in-use spare darts and every list of positions.

    The kernel is a sequence of link / unlink cores on the edge's darts, on darts read from the map and on the
    spare darts, between steps that only read or only write coordinates.  Invariant: wf2 and "the removal flags
    are those of the start"; a dart read as a non-null image of an in-use dart is in use; the cores keep wf2 on
    in-use darts (Wf2Proofs) and write no flag. *)
From Coq Require Import List NArith Bool Lia.
From HC Require Import Stm.Prog Stm.ProgFacts Stm.Atomic Map2.Ops2 Map2.State2 Map2.Wf2 Map2.Wf2Proofs Map2.Kern2.
Import ListNotations.
Open Scope N_scope.
Arguments N.eqb : simpl never.

Section KernWf.
Context `{Sig}.
Variables (E : env) (n : N) (w0 : store).

Definition Inv (w : store) : Prop := wf2 n w /\ forall d, unused w d = unused w0 d.
Definition anyf : store -> Prop := fun _ => True.
Definition ok (x : N) : Prop := okd n w0 x.

Lemma ok_now w x : Inv w -> ok x -> okd n w x.
Proof. intros [_ Hu] (A & B & C). split; [exact A|]. split; [exact B|]. rewrite Hu. exact C. Qed.

(** programs that write no removal flag *)
Definition Snu (v : var) : Prop := match v with XUnused _ => False | _ => True end.
Lemma flags_frame {X} (p : prog X) c w cnt o w' cnt' :
  writes_in Snu p -> run E p c w cnt = (o, w', cnt') -> forall d, unused w' d = unused w d.
Proof.
  intros Hw Hr d. unfold unused. f_equal. eapply writes_in_run; eauto.
Qed.
Lemma Sdata_Snu {X} (p : prog X) : writes_in Sdata p -> writes_in Snu p.
Proof. apply writes_in_weaken. intros [] Hv; cbn in *; auto. Qed.

(* steps that only touch data keep the invariant *)
Lemma triple_data_inv {X} (P : Prop) (p : prog X) :
  writes_in Sdata p -> triple E (fun w => Inv w /\ P) p (fun _ w => Inv w /\ P) anyf.
Proof.
  intros Hw c w cnt o w' cnt' ((W & Hu) & HP) Hr.
  destruct o as [x|e| |q]; try exact I. split; [|exact HP]. split.
  - eapply wf2_ext; [exact W|]. apply Sdata_topo. intros v Hv. eapply writes_in_run; eauto.
  - intros d. rewrite (flags_frame p c w cnt _ _ _ (Sdata_Snu p Hw) Hr). apply Hu.
Qed.

(* cores on in-use darts keep the invariant *)
Lemma core_inv (p : prog unit) (Pre : store -> Prop) :
  writes_in Snu p -> (forall w, Inv w -> Pre w) -> triple E (fun w => wf2 n w /\ Pre w) p (fun _ => wf2 n) (wf2 n) ->
  triple E Inv p (fun _ => Inv) anyf.
Proof.
  intros Hw Hpre Ht c w cnt o w' cnt' HI Hr. destruct HI as [W Hu].
  pose proof (Ht c w cnt o w' cnt' (conj W (Hpre w (conj W Hu))) Hr) as Hq.
  destruct o as [[]|e| |q]; try exact I. split; [exact Hq|].
  intros d. rewrite (flags_frame p c w cnt _ _ _ Hw Hr). apply Hu.
Qed.

Lemma wi_one_link l r : writes_in Snu (one_link_core l r). Proof. unfold one_link_core. cbn. intros. destruct (negb _); cbn; auto. intros. destruct (negb _); cbn; auto. Qed.
Lemma wi_two_link l r : writes_in Snu (two_link_core l r). Proof. unfold two_link_core. cbn. intros. destruct (negb _); cbn; auto. intros. destruct (negb _); cbn; auto. Qed.
Lemma wi_one_unlink l : writes_in Snu (one_unlink_core l). Proof. unfold one_unlink_core. cbn. intros. split; auto. destruct (_ =? _); cbn; auto. Qed.
Lemma wi_two_unlink l : writes_in Snu (two_unlink_core l). Proof. unfold two_unlink_core. cbn. intros. split; auto. destruct (_ =? _); cbn; auto. Qed.

Lemma inv_one_link l r : ok l -> ok r -> triple E Inv (one_link_core l r) (fun _ => Inv) anyf.
Proof.
  intros Hl Hr. apply (core_inv _ (fun w => okd n w l /\ okd n w r)); [apply wi_one_link| |apply triple_one_link_core].
  intros w HI. split; eapply ok_now; eauto.
Qed.
Lemma inv_two_link l r : ok l -> ok r -> l <> r -> triple E Inv (two_link_core l r) (fun _ => Inv) anyf.
Proof.
  intros Hl Hr Hne. apply (core_inv _ (fun w => okd n w l /\ okd n w r /\ l <> r)); [apply wi_two_link| |apply triple_two_link_core].
  intros w HI. repeat split; try (eapply ok_now; eauto); auto; apply (ok_now w _ HI); auto.
Qed.
Lemma inv_one_unlink l : ok l -> triple E Inv (one_unlink_core l) (fun _ => Inv) anyf.
Proof.
  intros Hl. apply (core_inv _ (fun w => okd n w l)); [apply wi_one_unlink| |apply triple_one_unlink_core].
  intros w HI. eapply ok_now; eauto.
Qed.
Lemma inv_two_unlink l : ok l -> triple E Inv (two_unlink_core l) (fun _ => Inv) anyf.
Proof.
  intros Hl. apply (core_inv _ (fun w => okd n w l)); [apply wi_two_unlink| |apply triple_two_unlink_core].
  intros w HI. eapply ok_now; eauto.
Qed.

(* a dart read as an image of an in-use dart is null or in use (and differs from it for beta2) *)
Lemma read_ok i d w : i < 3 -> Inv w -> ok d ->
  beta w i d = 0 \/ (ok (beta w i d) /\ (i = 2 -> beta w i d <> d)).
Proof.
  intros Hi HI Hd. pose proof (ok_now w d HI Hd) as (D0 & Dn & Du). destruct HI as [[W1 W2 W3 W4 W5 W6] Hu].
  destruct (N.eq_dec (beta w i d) 0) as [Z|NZ]; [left; exact Z|right].
  assert (Hlt : beta w i d < n) by (apply W2; auto).
  assert (Hnu : unused w (beta w i d) = false).
  { destruct (unused w (beta w i d)) eqn:Eu; [|reflexivity]. exfalso.
    assert (Hc : i = 0 \/ i = 1 \/ i = 2) by lia. destruct Hc as [->|[->| ->]].
    - pose proof (W6 _ Hlt Eu 1 ltac:(lia)) as Z. rewrite (W4 d Dn NZ) in Z. congruence.
    - pose proof (W6 _ Hlt Eu 0 ltac:(lia)) as Z. rewrite (W3 d Dn NZ) in Z. congruence.
    - pose proof (W6 _ Hlt Eu 2 ltac:(lia)) as Z. destruct (W5 d Dn NZ) as [I2 _]. rewrite I2 in Z. congruence. }
  split.
  - repeat split; auto. rewrite <- Hu. exact Hnu.
  - intros ->. apply (W5 d Dn NZ).
Qed.

Lemma triple_rd {Y} i d (f : N -> prog Y) (P : Prop) Qd :
  i < 3 -> ok d ->
  (forall x, (x = 0 \/ (ok x /\ (i = 2 -> x <> d))) -> triple E (fun w => Inv w /\ P) (f x) Qd anyf) ->
  triple E (fun w => Inv w /\ P) (x <- rdB i d ;; f x) Qd anyf.
Proof.
  intros Hi Hd Hf c w cnt o w' cnt' (HI & HP) Hr. cbn [run bind rdB] in Hr.
  destruct (e_dom E (XBeta i d)); [|injection Hr as <- <- <-; exact I].
  fold (beta w i d) in Hr.
  exact (Hf _ (read_ok i d w Hi HI Hd) c w cnt o w' cnt' (conj HI HP) Hr).
Qed.

Lemma triple_pure {X} (P : store -> Prop) (phi : Prop) (p : prog X) Qd :
  (forall w, P w -> phi) -> (phi -> triple E P p Qd anyf) -> triple E P p Qd anyf.
Proof. intros Hphi Ht c w cnt o w' cnt' HP Hr. exact (Ht (Hphi w HP) c w cnt o w' cnt' HP Hr). Qed.

(** *** the pieces of the kernel *)
Lemma inv_link_first_half : forall nds prev, ok prev -> Forall ok nds ->
  triple E Inv (link_first_half prev nds) (fun x w => Inv w /\ ok x /\ (x = prev \/ In x nds)) anyf.
Proof.
  induction nds as [|nd r IH]; intros prev Hp Hn; cbn [link_first_half].
  - apply triple_ret'. auto.
  - inversion Hn as [|? ? Hnd Hr']; subst. eapply triple_bind; [apply inv_one_link; assumption|].
    intros ?. eapply triple_conseq; [| | |apply (IH nd Hnd Hr')]; auto.
    intros y w (A & B & C). split; [exact A|]. split; [exact B|]. destruct C as [C|C]; right; cbn; auto.
Qed.

Lemma inv_link_second_half : forall pairs prev, ok prev ->
  Forall (fun p => ok (fst p) /\ ok (snd p)) pairs ->
  (forall p, In p pairs -> fst p <> prev /\ ~ In (fst p) (map snd pairs)) ->
  triple E Inv (link_second_half prev pairs) (fun x w => Inv w /\ ok x /\ (x = prev \/ In x (map snd pairs))) anyf.
Proof.
  induction pairs as [|[d nd] r IH]; intros prev Hp Hn Hdis; cbn [link_second_half].
  - apply triple_ret'. auto.
  - inversion Hn as [|? ? [Hd Hnd] Hr']; subst. cbn [fst snd] in *.
    destruct (Hdis (d, nd) (or_introl eq_refl)) as [Hne Hnin]. cbn [fst snd map] in *.
    eapply triple_bind; [apply inv_two_link; auto|]. intros ?.
    eapply triple_bind; [apply inv_one_link; assumption|]. intros ?.
    eapply triple_conseq; [| | |apply (IH nd Hnd Hr')]; auto.
    + intros y w (A & B & C). split; [exact A|]. split; [exact B|]. destruct C as [C|C]; right; cbn; auto.
    + intros p Hp'. destruct (Hdis p (or_intror Hp')) as [A B]. split.
      * intros Ep. apply B. cbn. left. congruence.
      * intros Hin. apply B. cbn. right. exact Hin.
Qed.

Lemma wi_embed_new : forall tds v1 v2, writes_in Sdata (embed_new n v1 v2 tds).
Proof.
  induction tds as [|[t nd] r IH]; intros v1 v2; cbn [embed_new]; [exact I|].
  apply writes_in_bind; [apply wi_vertex_id|]. intros vid.
  apply writes_in_bind; [cbn; intros; repeat split; exact I|]. intros _. apply IH.
Qed.

(* is_free reads only; what a negative answer of any_not_free means for the current view *)
Lemma run_is_free d c w cnt o w' cnt' :
  run E (is_free_atomic d) c w cnt = (o, w', cnt') ->
  w' = w /\ cnt' = cnt /\ (o = Done true -> beta w 2 d = 0).
Proof.
  unfold is_free_atomic. cbn [run bind rdB]. intros Hr.
  destruct (e_dom E (XBeta 0 d)); [|injection Hr as <- <- <-; repeat split; auto; discriminate].
  destruct (negb (asN (w (XBeta 0 d)) =? 0)); cbn [run] in Hr; [injection Hr as <- <- <-; repeat split; auto; discriminate|].
  destruct (e_dom E (XBeta 1 d)); [|injection Hr as <- <- <-; repeat split; auto; discriminate].
  destruct (negb (asN (w (XBeta 1 d)) =? 0)); cbn [run] in Hr; [injection Hr as <- <- <-; repeat split; auto; discriminate|].
  destruct (e_dom E (XBeta 2 d)); [|injection Hr as <- <- <-; repeat split; auto; discriminate].
  cbn [run] in Hr. injection Hr as <- <- <-. repeat split; auto.
  intros Ho. injection Ho as Ho. apply N.eqb_eq in Ho. exact Ho.
Qed.
Lemma run_any_not_free : forall ds c w cnt o w' cnt',
  run E (any_not_free ds) c w cnt = (o, w', cnt') ->
  w' = w /\ (o = Done false -> Forall (fun d => beta w 2 d = 0) ds).
Proof.
  induction ds as [|d r IH]; intros c w cnt o w' cnt' Hr; cbn [any_not_free] in Hr.
  - cbn in Hr. injection Hr as <- <- <-. split; auto.
  - rewrite run_bind in Hr. destruct (run E (is_free_atomic d) c w cnt) as [[o1 w1] cnt1] eqn:E1.
    apply run_is_free in E1 as (-> & -> & Hf).
    destruct o1 as [[|]|e| |q]; try (injection Hr as <- <- <-; split; [reflexivity|discriminate]).
    apply IH in Hr as (-> & Hall). split; [reflexivity|]. intros Ho. constructor; auto.
Qed.

(* a family of triples whose precondition also carries a topology fact [T] (kept by reads and data steps) *)
Lemma triple_data_T {X} (T : store -> Prop) (p : prog X) :
  writes_in Sdata p -> topo T -> triple E (fun w => Inv w /\ T w) p (fun _ w => Inv w /\ T w) anyf.
Proof.
  intros Hw HT c w cnt o w' cnt' ((W & Hu) & Tw) Hr.
  destruct o as [x|e| |q]; try exact I.
  assert (Tq : topo_eq w w') by (apply Sdata_topo; intros v Hv; eapply writes_in_run; eauto).
  split; [split|].
  - eapply wf2_ext; eauto.
  - intros d. rewrite (flags_frame p c w cnt _ _ _ (Sdata_Snu p Hw) Hr). apply Hu.
  - eapply HT; eauto.
Qed.

Lemma triple_rd_T {Y} i d (f : N -> prog Y) (T : store -> Prop) (phi : N -> Prop) Qd :
  i < 3 -> ok d -> (forall w, Inv w -> T w -> phi (beta w i d)) ->
  (forall x, (x = 0 \/ (ok x /\ (i = 2 -> x <> d))) -> phi x -> triple E (fun w => Inv w /\ T w) (f x) Qd anyf) ->
  triple E (fun w => Inv w /\ T w) (x <- rdB i d ;; f x) Qd anyf.
Proof.
  intros Hi Hd Hphi Hf c w cnt o w' cnt' (HI & HT) Hr. cbn [run bind rdB] in Hr.
  destruct (e_dom E (XBeta i d)); [|injection Hr as <- <- <-; exact I].
  fold (beta w i d) in Hr.
  exact (Hf _ (read_ok i d w Hi HI Hd) (Hphi w HI HT) c w cnt o w' cnt' (conj HI HT) Hr).
Qed.

Lemma in_snd_combine (a b : list N) y : In y (map snd (combine a b)) -> In y b.
Proof. intros Hy. apply in_map_iff in Hy as ([x y'] & <- & Hin). cbn. eapply in_combine_r; eauto. Qed.

Definition Free2 (nds : list N) (w : store) : Prop := Forall (fun x => beta w 2 x = 0) nds.
Lemma topo_Free2 nds : topo (Free2 nds).
Proof.
  intros w w' Hf [Hb _]. unfold Free2 in *. rewrite Forall_forall in *. intros x Hx. rewrite Hb. auto.
Qed.

Ltac tfail := apply triple_fail'; unfold anyf; auto.
Ltac tdat := eapply triple_bind; [apply triple_data_T; [first [apply wi_vertex_id | (cbn; intros; exact I)]|apply topo_Free2]|intros ?; cbv beta].

Theorem insert_vertices_wf ks e nds ts c cnt w' cnt' :
  wf2 n w0 -> ok e -> Forall ok nds -> NoDup nds -> ~ In e nds ->
  run E (insert_vertices_on_edge n ks e nds ts) c w0 cnt = (Done tt, w', cnt') -> wf2 n w'.
Proof.
  intros W0 He Hnds Hnd Hne Hr.
  unfold insert_vertices_on_edge in Hr.
  destruct (negb (Nat.eqb (length nds) (2 * length ts))) eqn:Elen; [discriminate Hr|].
  rewrite run_bind in Hr.
  destruct (run E (any_not_free nds) c w0 cnt) as [[o1 w1] cnt1] eqn:Ea.
  apply run_any_not_free in Ea as (-> & Hfree).
  destruct o1 as [[|]|e1| |q]; try discriminate Hr.
  specialize (Hfree eq_refl).
  set (fh := firstn (length ts) nds) in *. set (sh := skipn (length ts) nds) in *.
  assert (Hsplit : nds = fh ++ sh) by (symmetry; apply firstn_skipn).
  assert (Hfh : Forall ok fh) by (rewrite Hsplit in Hnds; now apply Forall_app in Hnds).
  assert (Hsh : Forall ok sh) by (rewrite Hsplit in Hnds; now apply Forall_app in Hnds).
  assert (Hfhn : forall x, In x fh -> In x nds) by (intros; rewrite Hsplit; apply in_or_app; auto).
  assert (Hshn : forall x, In x sh -> In x nds) by (intros; rewrite Hsplit; apply in_or_app; auto).
  assert (Hdisj : forall x, In x fh -> ~ In x sh).
  { intros x Hx Hx'. rewrite Hsplit in Hnd. clear - Hnd Hx Hx'.
    induction fh as [|y r IH]; [destruct Hx|]. cbn in Hnd. inversion Hnd as [|? ? Hy Hr]; subst.
    destruct Hx as [->|Hx]; [apply Hy; apply in_or_app; auto|auto]. }
  match type of Hr with run E ?p c w0 cnt1 = _ =>
    assert (HT : triple E (fun w => Inv w /\ Free2 nds w) p (fun _ w => Inv w) anyf) end.
  2:{ pose proof (HT c w0 cnt1 _ _ _ (conj (conj W0 (fun d => eq_refl)) Hfree) Hr) as Hq. apply Hq. }
  clear Hr.
  apply (triple_rd_T 2 e _ _ (fun _ => True)); [lia|exact He|auto|]. intros d2a _ _.
  destruct (existsb (fun d => d =? 0) fh); [tfail|].
  destruct (negb (d2a =? 0) && existsb (fun d => d =? 0) sh); [tfail|].
  destruct (existsb (fun t => negb (sc_in_unit t)) ts); [tfail|].
  apply (triple_rd_T 2 e _ _ (fun x => x = 0 \/ ~ In x nds)); [lia|exact He| |].
  { intros w ([_ _ _ _ W5 _] & _) Hf2. destruct (N.eq_dec (beta w 2 e) 0) as [Z|NZ]; [left; exact Z|right].
    intros Hin. unfold Free2 in Hf2. rewrite Forall_forall in Hf2. specialize (Hf2 _ Hin).
    pose proof He as (E0 & En & _). destruct (W5 e En NZ) as [I2 _]. congruence. }
  intros d2 Hd2 Hd2n.
  apply (triple_rd_T 1 e _ _ (fun _ => True)); [lia|exact He|auto|]. intros b1 Hb1 _.
  tdat.
  destruct ((b1 =? 0) && (d2 =? 0)); [tfail|].
  tdat. tdat. tdat.
  match goal with |- triple _ _ (match ?a with _ => _ end) _ _ => destruct a as [v1|]; [|tfail] end.
  match goal with |- triple _ _ (match ?a with _ => _ end) _ _ => destruct a as [v2|]; [|tfail] end.
  (* the cores: only the invariant is needed from here on *)
  eapply triple_conseq with (P := Inv) (Qd := fun _ => Inv) (Qf := anyf); [intros w [A _]; exact A|auto|auto|].
  eapply triple_bind with (Qm := fun _ => Inv).
  { destruct (negb (b1 =? 0)); [apply inv_one_unlink; exact He|apply triple_ret'; auto]. }
  intros _.
  eapply triple_bind with (Qm := fun _ => Inv).
  { destruct (negb (d2 =? 0)); [apply inv_two_unlink; exact He|apply triple_ret'; auto]. }
  intros _.
  eapply triple_bind; [apply (inv_link_first_half fh e He Hfh)|]. intros prev.
  apply (triple_pure _ (ok prev /\ (prev = e \/ In prev fh))); [intros w (_ & A & B); auto|]. intros (Hprev & _).
  eapply triple_conseq with (P := Inv) (Qd := fun _ => Inv) (Qf := anyf); [intros w [A _]; exact A|auto|auto|].
  eapply triple_bind with (Qm := fun _ => Inv).
  { destruct (N.eqb_spec b1 0) as [Z|NZ]; cbn [negb]; [apply triple_ret'; auto|].
    apply inv_one_link; [exact Hprev|]. destruct Hb1 as [Z|[A _]]; [contradiction|exact A]. }
  intros _.
  eapply triple_bind with (Qm := fun _ => Inv).
  2:{ intros _. eapply triple_conseq; [| | |apply (triple_data_inv True)]; [intros w A; split; [exact A|exact I]|intros y w [A _]; exact A|auto|].
      apply wi_embed_new. }
  destruct (N.eqb_spec d2 0) as [Z2|NZ2]; cbn [negb]; [apply triple_ret'; auto|].
  destruct Hd2 as [Z|[Hokd2 Hd2e]]; [contradiction|]. specialize (Hd2e eq_refl).
  destruct Hd2n as [Z|Hd2n]; [contradiction|].
  eapply triple_conseq with (P := fun w => Inv w /\ True) (Qd := fun _ => Inv) (Qf := anyf); [intros w A; split; [exact A|exact I]|auto|auto|].
  apply triple_rd; [lia|exact Hokd2|]. intros b1d2 Hb1d2.
  eapply triple_conseq with (P := Inv) (Qd := fun _ => Inv) (Qf := anyf); [intros w [A _]; exact A|auto|auto|].
  eapply triple_bind with (Qm := fun _ => Inv).
  { destruct (negb (b1d2 =? 0)); [apply inv_one_unlink; exact Hokd2|apply triple_ret'; auto]. }
  intros _.
  eapply triple_bind.
  { apply (inv_link_second_half (combine (rev fh) sh) d2 Hokd2).
    - rewrite Forall_forall. intros [a b] Hp. cbn [fst snd].
      rewrite Forall_forall in Hfh, Hsh. split.
      + apply Hfh. apply in_rev. eapply in_combine_l; eauto.
      + apply Hsh. eapply in_combine_r; eauto.
    - intros [a b] Hp. cbn [fst snd].
      assert (Ha : In a fh) by (apply in_rev; eapply in_combine_l; eauto).
      split.
      + intros ->. apply Hd2n. auto.
      + intros Hin. apply in_snd_combine in Hin. exact (Hdisj a Ha Hin). }
  intros prev2.
  apply (triple_pure _ (ok prev2 /\ (prev2 = d2 \/ In prev2 (map snd (combine (rev fh) sh))))); [intros w (_ & A & B); auto|].
  intros (Hp2 & Hp2in).
  eapply triple_conseq with (P := Inv) (Qd := fun _ => Inv) (Qf := anyf); [intros w [A _]; exact A|auto|auto|].
  eapply triple_bind with (Qm := fun _ => Inv).
  { destruct (N.eqb_spec b1d2 0) as [Z|NZ]; cbn [negb]; [apply triple_ret'; auto|].
    apply inv_one_link; [exact Hp2|]. destruct Hb1d2 as [Z|[A _]]; [contradiction|exact A]. }
  intros _.
  apply inv_two_link; [exact Hp2|exact He|].
  destruct Hp2in as [->|Hin]; [exact Hd2e|]. apply in_snd_combine in Hin. intros ->. apply Hne. auto.
Qed.

(** ** swap_edge: six 1-unsews and six 1-sews on the darts of the two triangles *)
Lemma wnu_data {X} (p : prog X) : writes_in Sdata p -> writes_in Snu p.
Proof. apply Sdata_Snu. Qed.

Lemma wi_one_sew ks l r : writes_in Snu (one_sew n ks l r).
Proof.
  unfold one_sew. apply writes_in_bind; [cbn; intros; exact I|]. intros b2l.
  destruct (b2l =? 0); [apply wi_one_link|].
  apply writes_in_bind; [apply wi_vertex_id|]. intros ?. apply writes_in_bind; [apply wi_vertex_id|]. intros ?.
  apply writes_in_bind; [apply wi_one_link|]. intros ?. apply writes_in_bind; [apply wi_vertex_id|]. intros ?.
  apply writes_in_bind; [apply wnu_data, wi_vertices_merge|]. intros ?. apply wnu_data, wi_merge_attributes.
Qed.
Lemma wi_one_unsew ks l : writes_in Snu (one_unsew n ks l).
Proof.
  unfold one_unsew. apply writes_in_bind; [cbn; intros; exact I|]. intros b2l.
  destruct (b2l =? 0); [apply wi_one_unlink|].
  apply writes_in_bind; [cbn; intros; exact I|]. intros ?. apply writes_in_bind; [apply wi_vertex_id|]. intros ?.
  apply writes_in_bind; [apply wi_one_unlink|]. intros ?. apply writes_in_bind; [apply wi_vertex_id|]. intros ?.
  apply writes_in_bind; [apply wi_vertex_id|]. intros ?.
  apply writes_in_bind; [apply wnu_data, wi_vertices_split|]. intros ?. apply wnu_data, wi_split_attributes.
Qed.

Lemma inv_one_sew ks l r : ok l -> ok r -> triple E Inv (one_sew n ks l r) (fun _ => Inv) anyf.
Proof.
  intros Hl Hr. apply (core_inv _ (fun w => okd n w l /\ okd n w r)); [apply wi_one_sew| |apply triple_one_sew].
  intros w HI. split; eapply ok_now; eauto.
Qed.
Lemma inv_one_unsew ks l : ok l -> triple E Inv (one_unsew n ks l) (fun _ => Inv) anyf.
Proof.
  intros Hl. apply (core_inv _ (fun w => okd n w l)); [apply wi_one_unsew| |apply triple_one_unsew].
  intros w HI. eapply ok_now; eauto.
Qed.

Lemma wi_restore_vertex d ov : writes_in Sdata (restore_vertex n d ov).
Proof.
  unfold restore_vertex. destruct ov; [|exact I]. apply writes_in_bind; [apply wi_vertex_id|]. intros ?. cbn. intros; repeat split; exact I.
Qed.
Lemma wi_restore_anchor d oa : writes_in Sdata (restore_anchor n d oa).
Proof.
  unfold restore_anchor. apply writes_in_bind; [apply wi_vertex_id|]. intros ?.
  destruct oa; cbn; intros; repeat split; exact I.
Qed.

Lemma triple_rd_T2 {Y} i d (f : N -> prog Y) (T : store -> Prop) (T' : N -> store -> Prop) Qd :
  i < 3 -> ok d -> (forall w, Inv w -> T w -> T' (beta w i d) w) ->
  (forall x, (x = 0 \/ (ok x /\ (i = 2 -> x <> d))) -> triple E (fun w => Inv w /\ T' x w) (f x) Qd anyf) ->
  triple E (fun w => Inv w /\ T w) (x <- rdB i d ;; f x) Qd anyf.
Proof.
  intros Hi Hd HT Hf c w cnt o w' cnt' (HI & HTw) Hr. cbn [run bind rdB] in Hr.
  destruct (e_dom E (XBeta i d)); [|injection Hr as <- <- <-; exact I].
  fold (beta w i d) in Hr.
  exact (Hf _ (read_ok i d w Hi HI Hd) c w cnt o w' cnt' (conj HI (HT w HI HTw)) Hr).
Qed.

Lemma inv_data {X} (p : prog X) : writes_in Sdata p -> triple E Inv p (fun _ => Inv) anyf.
Proof.
  intros Hw. eapply triple_conseq; [| | |apply (triple_data_inv True p Hw)].
  - intros w A. split; [exact A|exact I].
  - intros x w [A _]. exact A.
  - auto.
Qed.

(* unsewing the null dart never succeeds: a kernel that reaches it fails as a whole *)
Definition never {X} : X -> store -> Prop := fun _ _ => False.
Lemma unsew_null ks : triple E Inv (one_unsew n ks 0) never anyf.
Proof.
  intros c w cnt o w' cnt' ([W1 _ _ _ _ _] & _) Hr. unfold one_unsew in Hr. cbn [run bind rdB] in Hr.
  destruct (e_dom E (XBeta 2 0)); [|injection Hr as <- <- <-; exact I].
  fold (beta w 2 0) in Hr. rewrite (W1 2 ltac:(lia)) in Hr. cbn [N.eqb] in Hr.
  change (0 =? 0) with true in Hr. cbv iota in Hr.
  unfold one_unlink_core in Hr. cbn [run bind rdB wrB] in Hr.
  destruct (e_dom E (XBeta 1 0)); [|injection Hr as <- <- <-; exact I].
  fold (beta w 1 0) in Hr. rewrite (W1 1 ltac:(lia)) in Hr. cbn [run] in Hr.
  change (0 =? 0) with true in Hr. cbv iota in Hr. cbn [run] in Hr. injection Hr as <- <- <-. exact I.
Qed.
Lemma triple_never {X Y} (p : prog Y) (Qd : Y -> store -> Prop) (x : X) :
  triple E (@never X x) p Qd anyf.
Proof. intros c w cnt o w' cnt' []. Qed.

(* one unsew in a sequence: a null dart ends the proof, otherwise the dart is in use from here on *)
Ltac unsew_step ks H :=
  let Z := fresh "Z" in let A := fresh "Hok" in
  destruct H as [Z|[A _]];
  [ rewrite Z; eapply triple_bind; [apply unsew_null|intros ?; apply triple_never]
  | eapply triple_bind with (Qm := fun _ => Inv); [apply (inv_one_unsew ks); exact A|intros ?] ].

Ltac seq_inv L := eapply triple_bind with (Qm := fun _ => Inv); [apply L; assumption|intros ?].
Ltac tdatI := eapply triple_bind; [apply (triple_data_inv True); first [apply wi_vertex_id | (cbn; intros; exact I) | (unfold opt_anchor; destruct (has_kind _ _); cbn; intros; exact I)]|intros ?; cbv beta].

(** a swap that terminates normally keeps the map well formed -- whatever surrounds the edge *)
Theorem swap_edge_wf ks e c cnt w' cnt' :
  wf2 n w0 -> ok e ->
  run E (swap_edge n ks e) c w0 cnt = (Done tt, w', cnt') -> wf2 n w'.
Proof.
  intros W0 He Hr.
  assert (HT : triple E (fun w => Inv w /\ True) (swap_edge n ks e) (fun _ w => Inv w /\ True) anyf).
  2:{ pose proof (HT c w0 cnt _ _ _ (conj (conj W0 (fun d => eq_refl)) I) Hr) as Hq. apply Hq. }
  clear Hr.
  unfold swap_edge. destruct (e =? 0); [tfail|].
  apply triple_rd; [lia|exact He|]. intros r Hr.
  destruct (N.eqb_spec r 0) as [Zr|Nr]; [tfail|].
  destruct Hr as [Z|[Hokr _]]; [contradiction|].
  apply triple_rd; [lia|exact He|]. intros b1l Hb1l.
  apply triple_rd; [lia|exact Hokr|]. intros b1r Hb1r.
  apply triple_rd; [lia|exact He|]. intros b0l Hb0l.
  apply triple_rd; [lia|exact Hokr|]. intros b0r Hb0r.
  (* the reads of the topology test go through darts that may be null: plain reads *)
  eapply triple_bind with (Qm := fun _ w => Inv w /\ True).
  { apply (triple_data_inv True). cbn. intros; exact I. }
  intros x.
  eapply triple_bind with (Qm := fun _ w => Inv w /\ True).
  { destruct (negb (x =? b0l)); [apply triple_ret'; auto|].
    eapply triple_bind with (Qm := fun _ w => Inv w /\ True); [apply (triple_data_inv True); cbn; intros; exact I|].
    intros y. apply triple_ret'; auto. }
  intros bad. destruct bad; [tfail|].
  tdatI. tdatI. tdatI. tdatI. tdatI. tdatI. tdatI. tdatI.
  eapply triple_bind; [apply (triple_data_inv True); destruct (has_kind ks KVA); cbn; intros; exact I|intros anchors; cbv beta].
  eapply triple_conseq with (P := Inv) (Qd := fun _ => Inv) (Qf := anyf); [intros w [A _]; exact A|intros ? w A; split; [exact A|exact I]|auto|].
  eapply triple_bind with (Qm := fun _ => Inv); [apply (inv_one_unsew ks); exact He|intros ?].
  eapply triple_bind with (Qm := fun _ => Inv); [apply (inv_one_unsew ks); exact Hokr|intros ?].
  unsew_step ks Hb0l. unsew_step ks Hb0r. unsew_step ks Hb1l. unsew_step ks Hb1r.
  seq_inv (inv_one_sew ks). seq_inv (inv_one_sew ks). seq_inv (inv_one_sew ks).
  seq_inv (inv_one_sew ks). seq_inv (inv_one_sew ks). seq_inv (inv_one_sew ks).
  eapply triple_bind with (Qm := fun _ => Inv); [apply inv_data, wi_restore_vertex|intros ?].
  eapply triple_bind with (Qm := fun _ => Inv); [apply inv_data, wi_restore_vertex|intros ?].
  eapply triple_bind with (Qm := fun _ => Inv); [apply inv_data, wi_restore_vertex|intros ?].
  eapply triple_bind with (Qm := fun _ => Inv); [apply inv_data, wi_restore_vertex|intros ?].
  destruct anchors as [[[[aa ab] ac] ad]|]; [|apply triple_ret'; auto].
  eapply triple_bind with (Qm := fun _ => Inv); [apply inv_data, wi_restore_anchor|intros ?].
  eapply triple_bind with (Qm := fun _ => Inv); [apply inv_data, wi_restore_anchor|intros ?].
  eapply triple_bind with (Qm := fun _ => Inv); [apply inv_data, wi_restore_anchor|intros ?].
  apply inv_data, wi_restore_anchor.
Qed.

(** ** cut_outer_edge *)
Lemma with_frame {X} (p : prog X) (S : var -> Prop) (T : store -> Prop) :
  writes_in S p -> (forall w w', (forall v, ~ S v -> w' v = w v) -> T w -> T w') ->
  triple E Inv p (fun _ => Inv) anyf ->
  triple E (fun w => Inv w /\ T w) p (fun _ w => Inv w /\ T w) anyf.
Proof.
  intros Hw HT Ht c w cnt o w' cnt' (HI & Tw) Hr.
  pose proof (Ht c w cnt o w' cnt' HI Hr) as Hq. destruct o as [x|e| |q]; try exact I.
  split; [exact Hq|]. eapply HT; [|exact Tw]. intros v Hv. eapply writes_in_run; eauto.
Qed.
Lemma triple_retry {X} (P : store -> Prop) (Qd : X -> store -> Prop) : triple E P (@Retry _ X) Qd anyf.
Proof. intros c w cnt o w' cnt' _ Hr. cbn in Hr. injection Hr as <- <- <-. exact I. Qed.

Lemma wi_two_link_at l r : writes_in (fun v => v = XBeta 2 l \/ v = XBeta 2 r) (two_link_core l r).
Proof. unfold two_link_core. cbn. intros. destruct (negb _); cbn; auto. intros. destruct (negb _); cbn; auto. Qed.
Lemma wi_one_link_at l r : writes_in (fun v => v = XBeta 1 l \/ v = XBeta 0 r) (one_link_core l r).
Proof. unfold one_link_core. cbn. intros. destruct (negb _); cbn; auto. intros. destruct (negb _); cbn; auto. Qed.

Lemma wi_reattach ks a x y : writes_in Sdata (reattach_face_anchor n ks a x y).
Proof.
  unfold reattach_face_anchor. destruct a as [a|]; [|exact I].
  apply writes_in_bind; [apply wi_face_id|]. intros ?. apply writes_in_bind; [apply wi_face_id|]. intros ?.
  apply writes_in_bind; [cbn; intros; repeat split; exact I|]. intros ?.
  apply writes_in_bind; [cbn; intros; repeat split; exact I|]. intros ?.
  destruct (has_kind ks KEA); [|exact I].
  apply writes_in_bind; [apply wi_edge_id|]. intros ?. cbn. intros; repeat split; exact I.
Qed.

Ltac tdatT T := eapply triple_bind; [apply (triple_data_T T); [first [apply wi_vertex_id | (cbn; intros; exact I) | (unfold opt_anchor; destruct (has_kind _ _); cbn; intros; exact I)]|assumption]|intros ?; cbv beta].

Definition Tb0 (e : N) (w : store) : Prop := beta w 0 e <> 0.
Lemma topo_Tb0 e : topo (Tb0 e).
Proof. intros w w' Ht [Hb _]. unfold Tb0 in *. rewrite Hb. exact Ht. Qed.

Theorem cut_outer_edge_wf ks e nd1 nd2 nd3 c cnt w' cnt' :
  wf2 n w0 -> ok e -> ok nd1 -> ok nd2 -> ok nd3 -> nd1 <> nd2 -> e <> nd3 -> beta w0 0 e <> 0 ->
  run E (cut_outer_edge n ks e nd1 nd2 nd3) c w0 cnt = (Done tt, w', cnt') -> wf2 n w'.
Proof.
  intros W0 He H1 H2 H3 H12 He3 Hb0 Hr.
  assert (HT : triple E (fun w => Inv w /\ Tb0 e w) (cut_outer_edge n ks e nd1 nd2 nd3) (fun _ w => Inv w) anyf).
  2:{ pose proof (HT c w0 cnt _ _ _ (conj (conj W0 (fun d => eq_refl)) Hb0) Hr) as Hq. apply Hq. }
  clear Hr. pose proof (topo_Tb0 e) as HtT.
  unfold cut_outer_edge.
  eapply triple_bind.
  { apply (with_frame _ _ (Tb0 e) (wi_two_link_at nd1 nd2)); [|apply inv_two_link; assumption].
    intros w w1 Hv Tw. unfold Tb0, beta in *. rewrite Hv; [exact Tw|]. intros [A|A]; discriminate A. }
  intros ?. cbv beta.
  eapply triple_bind.
  { apply (with_frame _ _ (Tb0 e) (wi_one_link_at nd2 nd3)); [|apply inv_one_link; assumption].
    intros w w1 Hv Tw. unfold Tb0, beta in *. rewrite Hv; [exact Tw|]. intros [A|A]; [discriminate A|]. injection A as A. congruence. }
  intros ?. cbv beta.
  eapply triple_bind.
  { apply (triple_data_T (Tb0 e)); [|exact HtT]. unfold opt_anchor. destruct (has_kind ks KFA); [|exact I].
    apply writes_in_bind; [apply wi_face_id|]. intros ?. cbn. intros; repeat split; exact I. }
  intros fa. cbv beta.
  tdatT (Tb0 e).
  apply (triple_rd_T 0 e _ _ (fun x => x <> 0)); [lia|exact He|intros w _ A; exact A|]. intros b0ld Hb0ld Nb0.
  destruct Hb0ld as [Z|[Hokb0 _]]; [contradiction|].
  apply (triple_rd_T 1 e _ _ (fun _ => True)); [lia|exact He|auto|]. intros b1ld Hb1ld _.
  tdatT (Tb0 e). tdatT (Tb0 e). tdatT (Tb0 e). tdatT (Tb0 e).
  match goal with |- triple _ _ (match ?a with _ => _ end) _ _ => destruct a as [v1|]; [|apply triple_retry] end.
  match goal with |- triple _ _ (match ?a with _ => _ end) _ _ => destruct a as [v2|]; [|apply triple_retry] end.
  tdatT (Tb0 e).
  eapply triple_bind; [apply (triple_data_T (Tb0 e)); [cbn; intros; repeat split; exact I|exact HtT]|intros ?; cbv beta].
  eapply triple_conseq with (P := Inv) (Qd := fun _ => Inv) (Qf := anyf); [intros w [A _]; exact A|auto|auto|].
  eapply triple_bind with (Qm := fun _ => Inv); [apply (inv_one_unsew ks); exact He|intros ?].
  unsew_step ks Hb1ld.
  seq_inv (inv_one_sew ks). seq_inv (inv_one_sew ks). seq_inv (inv_one_sew ks). seq_inv (inv_one_sew ks).
  eapply triple_bind with (Qm := fun _ => Inv); [apply inv_data, wi_reattach|intros ?].
  match goal with |- triple _ _ (match ?a with _ => _ end) _ _ => destruct a end; [|apply triple_ret'; auto].
  apply inv_data. apply writes_in_bind; [apply wi_vertex_id|]. intros ?. cbn. intros; repeat split; exact I.
Qed.

(** ** cut_inner_edge *)
Ltac wnu := repeat (cbv beta iota; match goal with
  | |- writes_in _ (vertex_id_tx _ _) => apply wi_vertex_id
  | |- writes_in _ (edge_id_tx _) => apply wi_edge_id
  | |- writes_in _ (face_id_tx _ _) => apply wi_face_id
  | |- writes_in _ (one_link_core _ _) => apply wi_one_link
  | |- writes_in _ (two_link_core _ _) => apply wi_two_link
  | |- writes_in _ (one_unlink_core _) => apply wi_one_unlink
  | |- writes_in _ (two_unlink_core _) => apply wi_two_unlink
  | |- writes_in _ (vertices_merge _ _ _) => apply wnu_data, wi_vertices_merge
  | |- writes_in _ (vertices_split _ _ _) => apply wnu_data, wi_vertices_split
  | |- writes_in _ (merge_attributes _ _ _ _ _) => apply wnu_data, wi_merge_attributes
  | |- writes_in _ (split_attributes _ _ _ _ _) => apply wnu_data, wi_split_attributes
  | |- writes_in _ (bind _ _) => apply writes_in_bind; [|intros ?]
  | |- writes_in _ (Ret _) => exact I
  | |- writes_in _ (Fail _) => exact I
  | |- writes_in _ (if ?b then _ else _) => destruct b
  | |- writes_in _ (rdB _ _) => cbn; intros; exact I
  | |- writes_in _ (rdV _) => cbn; intros; exact I
  end).

Lemma wi_two_sew ks l r : writes_in Snu (two_sew n ks l r).
Proof.
  unfold two_sew. apply writes_in_bind; [cbn; intros; exact I|]. intros b1l.
  apply writes_in_bind; [cbn; intros; exact I|]. intros b1r.
  destruct (b1l =? 0), (b1r =? 0); wnu.
  repeat match goal with x : option V |- _ => destruct x end; wnu.
Qed.
Lemma wi_two_unsew ks l : writes_in Snu (two_unsew n ks l).
Proof.
  unfold two_unsew. apply writes_in_bind; [cbn; intros; exact I|]. intros r.
  apply writes_in_bind; [cbn; intros; exact I|]. intros b1l.
  apply writes_in_bind; [cbn; intros; exact I|]. intros b1r.
  destruct (b1l =? 0), (b1r =? 0); wnu.
Qed.

Lemma inv_two_sew ks l r : ok l -> ok r -> l <> r -> triple E Inv (two_sew n ks l r) (fun _ => Inv) anyf.
Proof.
  intros Hl Hr Hne. apply (core_inv _ (fun w => okd n w l /\ okd n w r /\ l <> r)); [apply wi_two_sew| |apply triple_two_sew].
  intros w HI. split; [eapply ok_now; eauto|]. split; [eapply ok_now; eauto|exact Hne].
Qed.
Lemma inv_two_unsew ks l : ok l -> triple E Inv (two_unsew n ks l) (fun _ => Inv) anyf.
Proof.
  intros Hl. apply (core_inv _ (fun w => okd n w l)); [apply wi_two_unsew| |apply triple_two_unsew].
  intros w HI. eapply ok_now; eauto.
Qed.

Definition Tin (e rd : N) (w : store) : Prop := beta w 2 e = rd /\ beta w 0 e <> 0 /\ beta w 0 rd <> 0.
Lemma topo_Tin e rd : topo (Tin e rd).
Proof. intros w w' Ht [Hb _]. unfold Tin in *. rewrite !Hb. exact Ht. Qed.

Theorem cut_inner_edge_wf ks e nd1 nd2 nd3 nd4 nd5 nd6 rd c cnt w' cnt' :
  wf2 n w0 -> ok e -> ok nd1 -> ok nd2 -> ok nd3 -> ok nd4 -> ok nd5 -> ok nd6 -> nd1 <> nd2 -> nd4 <> nd5 ->
  beta w0 2 e = rd -> beta w0 0 e <> 0 -> beta w0 0 rd <> 0 ->
  ~ In e [nd1; nd2; nd3; nd4; nd5; nd6] -> rd <> nd3 -> rd <> nd6 ->
  run E (cut_inner_edge n ks e nd1 nd2 nd3 nd4 nd5 nd6) c w0 cnt = (Done tt, w', cnt') -> wf2 n w'.
Proof.
  intros W0 He H1 H2 H3 H4 H5 H6 H12 H45 Erd Hb0 Hb0r Hne Hr3 Hr6 Hr.
  assert (HT : triple E (fun w => Inv w /\ Tin e rd w) (cut_inner_edge n ks e nd1 nd2 nd3 nd4 nd5 nd6) (fun _ w => Inv w) anyf).
  2:{ pose proof (HT c w0 cnt _ _ _ (conj (conj W0 (fun d => eq_refl)) (conj Erd (conj Hb0 Hb0r))) Hr) as Hq. apply Hq. }
  clear Hr. pose proof (topo_Tin e rd) as HtT.
  assert (Ne : e <> nd1 /\ e <> nd2 /\ e <> nd3 /\ e <> nd4 /\ e <> nd5 /\ e <> nd6).
  { cbn in Hne. repeat split; intros ->; apply Hne; auto 10. }
  destruct Ne as (N1 & N2 & N3 & N4 & N5 & N6).
  unfold cut_inner_edge.
  assert (F2 : forall a b, e <> a -> e <> b -> forall w w1, (forall v, ~ (v = XBeta 2 a \/ v = XBeta 2 b) -> w1 v = w v) -> Tin e rd w -> Tin e rd w1).
  { intros a b Na Nb w w1 Hv (A & B & C). unfold Tin, beta in *.
    rewrite !Hv; [auto| | |]; intros [X|X]; try discriminate X; injection X as X; congruence. }
  assert (F1 : forall a b, e <> b -> rd <> b -> forall w w1, (forall v, ~ (v = XBeta 1 a \/ v = XBeta 0 b) -> w1 v = w v) -> Tin e rd w -> Tin e rd w1).
  { intros a b Nb Rb w w1 Hv (A & B & C). unfold Tin, beta in *.
    rewrite !Hv; [auto| | |]; intros [X|X]; try discriminate X; injection X as X; congruence. }
  eapply triple_bind; [apply (with_frame _ _ (Tin e rd) (wi_two_link_at nd1 nd2)); [apply F2; assumption|apply inv_two_link; assumption]|intros ?; cbv beta].
  eapply triple_bind; [apply (with_frame _ _ (Tin e rd) (wi_one_link_at nd2 nd3)); [apply F1; assumption|apply inv_one_link; assumption]|intros ?; cbv beta].
  eapply triple_bind; [apply (with_frame _ _ (Tin e rd) (wi_two_link_at nd4 nd5)); [apply F2; assumption|apply inv_two_link; assumption]|intros ?; cbv beta].
  eapply triple_bind; [apply (with_frame _ _ (Tin e rd) (wi_one_link_at nd5 nd6)); [apply F1; assumption|apply inv_one_link; assumption]|intros ?; cbv beta].
  apply (triple_rd_T 2 e _ _ (fun x => x = rd)); [lia|exact He|intros w _ (A & _); exact A|]. intros rd' Hrd' ->.
  (* rd is in use: a null rd contradicts the premise on its predecessor *)
  apply (triple_pure _ (rd <> 0)).
  { intros w (([W1 _ _ _ _ _] & _) & (_ & _ & C)) ->. apply C. apply W1. lia. }
  intros Hrd0. destruct Hrd' as [Z|[Hokrd _]]; [contradiction|].
  eapply triple_bind.
  { apply (triple_data_T (Tin e rd)); [|exact HtT]. unfold opt_anchor. destruct (has_kind ks KFA); [|exact I].
    apply writes_in_bind; [apply wi_face_id|]. intros ?. cbn. intros; repeat split; exact I. }
  intros lfa. cbv beta.
  eapply triple_bind.
  { apply (triple_data_T (Tin e rd)); [|exact HtT]. unfold opt_anchor. destruct (has_kind ks KFA); [|exact I].
    apply writes_in_bind; [apply wi_face_id|]. intros ?. cbn. intros; repeat split; exact I. }
  intros rfa. cbv beta.
  tdatT (Tin e rd).
  apply (triple_rd_T 0 e _ _ (fun x => x <> 0)); [lia|exact He|intros w _ (_ & A & _); exact A|]. intros b0ld Hb0ld Nb0.
  destruct Hb0ld as [Z|[Hokb0 _]]; [contradiction|].
  apply (triple_rd_T 1 e _ _ (fun _ => True)); [lia|exact He|auto|]. intros b1ld Hb1ld _.
  apply (triple_rd_T 0 rd _ _ (fun x => x <> 0)); [lia|exact Hokrd|intros w _ (_ & _ & A); exact A|]. intros b0rd Hb0rd Nb0r.
  destruct Hb0rd as [Z|[Hokb0r _]]; [contradiction|].
  apply (triple_rd_T 1 rd _ _ (fun _ => True)); [lia|exact Hokrd|auto|]. intros b1rd Hb1rd _.
  tdatT (Tin e rd). tdatT (Tin e rd). tdatT (Tin e rd). tdatT (Tin e rd).
  match goal with |- triple _ _ (match ?a with _ => _ end) _ _ => destruct a as [v1|]; [|apply triple_retry] end.
  match goal with |- triple _ _ (match ?a with _ => _ end) _ _ => destruct a as [v2|]; [|apply triple_retry] end.
  tdatT (Tin e rd).
  eapply triple_bind; [apply (triple_data_T (Tin e rd)); [cbn; intros; repeat split; exact I|exact HtT]|intros ?; cbv beta].
  eapply triple_conseq with (P := Inv) (Qd := fun _ => Inv) (Qf := anyf); [intros w [A _]; exact A|auto|auto|].
  eapply triple_bind with (Qm := fun _ => Inv); [apply (inv_two_unsew ks); exact He|intros ?].
  eapply triple_bind with (Qm := fun _ => Inv); [apply (inv_one_unsew ks); exact He|intros ?].
  unsew_step ks Hb1ld.
  eapply triple_bind with (Qm := fun _ => Inv); [apply (inv_one_unsew ks); exact Hokrd|intros ?].
  unsew_step ks Hb1rd.
  eapply triple_bind with (Qm := fun _ => Inv); [apply (inv_two_sew ks); assumption|intros ?].
  eapply triple_bind with (Qm := fun _ => Inv); [apply (inv_two_sew ks); assumption|intros ?].
  seq_inv (inv_one_sew ks). seq_inv (inv_one_sew ks). seq_inv (inv_one_sew ks). seq_inv (inv_one_sew ks).
  seq_inv (inv_one_sew ks). seq_inv (inv_one_sew ks). seq_inv (inv_one_sew ks). seq_inv (inv_one_sew ks).
  eapply triple_bind with (Qm := fun _ => Inv); [apply inv_data, wi_reattach|intros ?].
  eapply triple_bind with (Qm := fun _ => Inv); [apply inv_data, wi_reattach|intros ?].
  match goal with |- triple _ _ (match ?a with _ => _ end) _ _ => destruct a end; [|apply triple_ret'; auto].
  apply inv_data. apply writes_in_bind; [apply wi_vertex_id|]. intros ?. cbn. intros; repeat split; exact I.
Qed.

(** ** insert_vertex_on_edge (one vertex, the two spare darts given as a pair) *)
Definition Te (e : N) (w : store) : Prop := beta w 1 e = beta w0 1 e /\ beta w 2 e = beta w0 2 e.
Lemma topo_Te e : topo (Te e).
Proof. intros w w' [A B] [Hb _]. unfold Te in *. rewrite !Hb. auto. Qed.
Definition Tf (d : N) (w : store) : Prop := beta w 2 d = 0.
Lemma topo_Tf d : topo (Tf d).
Proof. intros w w' A [Hb _]. unfold Tf in *. rewrite Hb. exact A. Qed.
Lemma topo_and (P Q : store -> Prop) : topo P -> topo Q -> topo (fun w => P w /\ Q w).
Proof. intros HP HQ w w' [A B] Ht. split; [eapply HP|eapply HQ]; eauto. Qed.
Lemma topo_imp (phi : Prop) (Q : store -> Prop) : topo Q -> topo (fun w => phi -> Q w).
Proof. intros HQ w w' A Ht Hp. eapply HQ; eauto. Qed.

Lemma triple_is_free (T : store -> Prop) d :
  triple E (fun w => Inv w /\ T w) (is_free_atomic d) (fun b w => Inv w /\ T w /\ (b = true -> Tf d w)) anyf.
Proof.
  intros c w cnt o w' cnt' [A B] Hr. apply run_is_free in Hr as (-> & -> & Hf).
  destruct o as [b|e1| |q]; try exact I. split; [exact A|split; [exact B|]]. intros ->. apply Hf. reflexivity.
Qed.

Theorem insert_vertex_wf ks e nd1 nd2 t c cnt w' cnt' :
  wf2 n w0 -> ok e -> ok nd1 -> (beta w0 2 e <> 0 -> ok nd2) ->
  ~ (beta w0 1 e = 0 /\ beta w0 2 e = 0) ->
  run E (insert_vertex_on_edge n ks e nd1 nd2 t) c w0 cnt = (Done tt, w', cnt') -> wf2 n w'.
Proof.
  intros W0 He H1 H2 Hends Hr.
  assert (HT : triple E (fun w => Inv w /\ Te e w) (insert_vertex_on_edge n ks e nd1 nd2 t) (fun _ w => Inv w) anyf).
  2:{ pose proof (HT c w0 cnt _ _ _ (conj (conj W0 (fun d => eq_refl)) (conj eq_refl eq_refl)) Hr) as Hq. apply Hq. }
  clear Hr. unfold insert_vertex_on_edge. cbv zeta.
  destruct (match t with Some t0 => negb (sc_in_unit t0) | None => false end); [tfail|].
  apply (triple_rd_T 2 e _ _ (fun x => x = beta w0 2 e)); [lia|exact He|intros w _ [_ A]; exact A|]. intros d2a _ Ed2a.
  (* the first spare dart is checked free *)
  eapply triple_bind with (Qm := fun b w => Inv w /\ (Te e w /\ (b = true -> Tf nd1 w))).
  { destruct (nd1 =? 0).
    - apply triple_ret'. intros w [A B]. split; [exact A|split; [exact B|discriminate]].
    - eapply triple_conseq; [| | |apply (triple_is_free (Te e) nd1)]; auto. }
  intros f1. destruct f1; cbn [negb]; [|tfail].
  set (T1 := fun w => Te e w /\ Tf nd1 w).
  assert (HtT1 : topo T1) by (apply topo_and; [apply topo_Te|apply topo_Tf]).
  eapply triple_conseq with (P := fun w => Inv w /\ T1 w) (Qd := fun _ w => Inv w) (Qf := anyf);
    [intros w (A & B & C); split; [exact A|split; [exact B|apply C; reflexivity]]|auto|auto|].
  (* the second one too when the edge has two darts *)
  set (T2 := fun w => T1 w /\ (d2a <> 0 -> Tf nd2 w)).
  assert (HtT2 : topo T2) by (apply topo_and; [exact HtT1|apply topo_imp, topo_Tf]).
  eapply triple_bind with (Qm := fun b w => Inv w /\ (b = true -> T2 w)).
  { destruct (N.eqb_spec d2a 0) as [Z|NZ].
    - apply triple_ret'. intros w [A B]. split; [exact A|]. intros _. split; [exact B|]. intros C; contradiction.
    - destruct (nd2 =? 0).
      + apply triple_ret'. intros w [A B]. split; [exact A|discriminate].
      + eapply triple_conseq; [| | |apply (triple_is_free T1 nd2)]; auto.
        intros b w (A & B & C). split; [exact A|]. intros Hb. split; [exact B|]. intros _. apply C, Hb. }
  intros f2. destruct f2; cbn [negb]; [|tfail].
  eapply triple_conseq with (P := fun w => Inv w /\ T2 w) (Qd := fun _ w => Inv w) (Qf := anyf);
    [intros w (A & B); split; [exact A|apply B; reflexivity]|auto|auto|].
  apply (triple_rd_T 2 e _ _ (fun x => x = beta w0 2 e)); [lia|exact He|intros w _ [[[_ A] _] _]; exact A|]. intros d2 Hd2 Ed2.
  assert (Ed : d2a = d2) by congruence. subst d2a.
  destruct (N.eqb_spec d2 0) as [Z2|NZ2].
  - (* one-dart edge *)
    apply (triple_rd_T 1 e _ _ (fun x => x = beta w0 1 e)); [lia|exact He|intros w _ [[[A _] _] _]; exact A|]. intros b1 Hb1 Eb1.
    assert (Nb1 : b1 <> 0) by (intros Z; apply Hends; split; congruence).
    destruct Hb1 as [Z|[Hokb1 _]]; [contradiction|].
    tdatT T2. tdatT T2. tdatT T2. tdatT T2.
    match goal with |- triple _ _ (match ?a with _ => _ end) _ _ => destruct a as [v1|]; [|tfail] end.
    match goal with |- triple _ _ (match ?a with _ => _ end) _ _ => destruct a as [v2|]; [|tfail] end.
    eapply triple_conseq with (P := Inv) (Qd := fun _ => Inv) (Qf := anyf); [intros w [A _]; exact A|auto|auto|].
    eapply triple_bind with (Qm := fun _ => Inv).
    { destruct (negb (b1 =? 0)); [apply inv_one_unlink; exact He|apply triple_ret'; auto]. }
    intros _.
    eapply triple_bind with (Qm := fun _ => Inv); [apply inv_one_link; assumption|intros _].
    eapply triple_bind with (Qm := fun _ => Inv); [apply inv_one_link; assumption|intros _].
    apply inv_data. apply writes_in_bind; [apply wi_vertex_id|]. intros ?. cbn. intros; repeat split; exact I.
  - (* two-dart edge *)
    destruct Hd2 as [Z|[Hokd2 Hd2e]]; [contradiction|]. specialize (Hd2e eq_refl).
    assert (Hok2 : ok nd2) by (apply H2; congruence).
    (* the spare darts are 2-free, the edge's darts are not: they are different darts *)
    apply (triple_pure _ (e <> nd2 /\ d2 <> nd1)).
    { intros w ([[_ _ _ _ W5 _] _] & ((_ & B2) & F1) & F2). assert (F2' : Tf nd2 w) by (apply F2; congruence). clear F2. unfold Tf in *.
      pose proof He as (E0 & En & _). assert (Hb : beta w 2 e = d2) by congruence.
      split.
      - intros ->. congruence.
      - intros ->. assert (Hx : beta w 2 e <> 0) by congruence. destruct (W5 e En Hx) as [I2 _]. rewrite Hb in I2. congruence. }
    intros [Hne2 Hnd1].
    apply (triple_rd_T 1 e _ _ (fun _ => True)); [lia|exact He|auto|]. intros b1 Hb1 _.
    apply (triple_rd_T 1 d2 _ _ (fun _ => True)); [lia|exact Hokd2|auto|]. intros b1d2 Hb1d2 _.
    tdatT T2. tdatT T2. tdatT T2. tdatT T2.
    match goal with |- triple _ _ (match ?a with _ => _ end) _ _ => destruct a as [v1|]; [|tfail] end.
    match goal with |- triple _ _ (match ?a with _ => _ end) _ _ => destruct a as [v2|]; [|tfail] end.
    eapply triple_conseq with (P := Inv) (Qd := fun _ => Inv) (Qf := anyf); [intros w [A _]; exact A|auto|auto|].
    eapply triple_bind with (Qm := fun _ => Inv).
    { destruct (negb (b1 =? 0)); [apply inv_one_unlink; exact He|apply triple_ret'; auto]. }
    intros _.
    eapply triple_bind with (Qm := fun _ => Inv).
    { destruct (negb (b1d2 =? 0)); [apply inv_one_unlink; exact Hokd2|apply triple_ret'; auto]. }
    intros _.
    eapply triple_bind with (Qm := fun _ => Inv); [apply inv_two_unlink; exact He|intros _].
    eapply triple_bind with (Qm := fun _ => Inv); [apply inv_one_link; assumption|intros _].
    eapply triple_bind with (Qm := fun _ => Inv).
    { destruct (N.eqb_spec b1 0) as [Z|NZ]; cbn [negb]; [apply triple_ret'; auto|].
      apply inv_one_link; [exact H1|]. destruct Hb1 as [Z|[A _]]; [contradiction|exact A]. }
    intros _.
    eapply triple_bind with (Qm := fun _ => Inv); [apply inv_one_link; assumption|intros _].
    eapply triple_bind with (Qm := fun _ => Inv).
    { destruct (N.eqb_spec b1d2 0) as [Z|NZ]; cbn [negb]; [apply triple_ret'; auto|].
      apply inv_one_link; [exact Hok2|]. destruct Hb1d2 as [Z|[A _]]; [contradiction|exact A]. }
    intros _.
    eapply triple_bind with (Qm := fun _ => Inv); [apply inv_two_link; assumption|intros _].
    eapply triple_bind with (Qm := fun _ => Inv); [apply inv_two_link; assumption|intros _].
    apply inv_data. apply writes_in_bind; [apply wi_vertex_id|]. intros ?. cbn. intros; repeat split; exact I.
Qed.

End KernWf.
