(** * Well-formedness of 2-maps (property C01) and its boolean twin.
    Definitions only; the twin is what is extracted and applied to implementation dumps. *)
From Coq Require Import List NArith Bool.
From HC Require Import Stm.Prog Map2.Ops2 Map2.State2.
Import ListNotations.
Open Scope N_scope.

Definition nrange (n : N) : list N := map N.of_nat (seq 0 (N.to_nat n)).

Section Wf2.
Context `{Sig}.

Record wf2 (n : N) (s : store) : Prop := {
  null_inert  : forall i, i < 3 -> beta s i 0 = 0;
  in_range    : forall i d, i < 3 -> d < n -> beta s i d < n;
  b1_then_b0  : forall d, d < n -> beta s 1 d <> 0 -> beta s 0 (beta s 1 d) = d;
  b0_then_b1  : forall d, d < n -> beta s 0 d <> 0 -> beta s 1 (beta s 0 d) = d;
  b2_invol    : forall d, d < n -> beta s 2 d <> 0 ->
                  beta s 2 (beta s 2 d) = d /\ beta s 2 d <> d;
  unused_free : forall d, d < n -> unused s d = true -> forall i, i < 3 -> beta s i d = 0
}.

Definition wf2b (n : N) (s : store) : bool :=
  (0 <? n) &&
  forallb (fun i => beta s i 0 =? 0) [0; 1; 2] &&
  forallb (fun d =>
    forallb (fun i => beta s i d <? n) [0; 1; 2] &&
    ((beta s 1 d =? 0) || (beta s 0 (beta s 1 d) =? d)) &&
    ((beta s 0 d =? 0) || (beta s 1 (beta s 0 d) =? d)) &&
    ((beta s 2 d =? 0) || ((beta s 2 (beta s 2 d) =? d) && negb (beta s 2 d =? d))) &&
    (negb (unused s d) || forallb (fun i => beta s i d =? 0) [0; 1; 2]))
  (nrange n).

(** slots outside the Vec bounds were never written *)
Definition fresh_above (st : state2) : Prop :=
  forall v, dom2 (nd st) (aks st) v = false -> mem st v = blank v.

Definition inv2 (st : state2) : Prop :=
  0 < nd st /\ wf2 (nd st) (mem st) /\ fresh_above st.

(** ** preconditions of C01: "non-null in-use darts (distinct darts for 2-links)" *)
Definition okd (n : N) (s : store) (d : N) : Prop := d <> 0 /\ d < n /\ unused s d = false.

Definition pre_call (n : N) (s : store) (c : call2) : Prop :=
  match c with
  | Link1 l r | Sew1 l r => okd n s l /\ okd n s r
  | Link2 l r | Sew2 l r => okd n s l /\ okd n s r /\ l <> r
  | Unlink1 l | Unlink2 l | Unsew1 l | Unsew2 l => okd n s l
  | WriteVertex _ _ | RemoveVertex _ | WriteAttr _ _ _ | RemoveAttr _ _ => True
  | RemoveDartTx d => d <> 0 /\ d < n /\ is_free2 s d = true
  end.

(** precondition threaded through the views a block actually reaches *)
Fixpoint block_pre (E : env) (n : N) (ks : kinds) (cs : list call2) (c w : store) (cnt : N) : Prop :=
  match cs with
  | [] => True
  | call :: rest =>
    pre_call n w call /\
    match run E (call2_prog n ks call) c w cnt with
    | (Done _, w', cnt') => block_pre E n ks rest c w' cnt'
    | _ => True
    end
  end.

Definition pre_op (fail_at : option N) (st : state2) (o : op2) : Prop :=
  match o with
  | AddDart | AddDarts _ | InsertDart => True
  | RemoveDart d => d <> 0          (* anything else is refused by the asserts *)
  | Force c => pre_call (nd st) (mem st) c
  | Block cs => block_pre (env2 st fail_at) (nd st) (aks st) cs (mem st) (mem st) 0
  end.

(** precondition threaded through the states a history actually reaches *)
Fixpoint hist_pre (fail_at : option N) (st : state2) (ops : list op2) : Prop :=
  match ops with
  | [] => True
  | o :: rest => pre_op fail_at st o /\ hist_pre fail_at (snd (step2 fail_at st o)) rest
  end.

(** ** boolean twins of the preconditions (applied to implementation observations) *)
Definition okdb (n : N) (s : store) (d : N) : bool := negb (d =? 0) && (d <? n) && negb (unused s d).

Definition pre_callb (n : N) (s : store) (c : call2) : bool :=
  match c with
  | Link1 l r | Sew1 l r => okdb n s l && okdb n s r
  | Link2 l r | Sew2 l r => okdb n s l && okdb n s r && negb (l =? r)
  | Unlink1 l | Unlink2 l | Unsew1 l | Unsew2 l => okdb n s l
  | WriteVertex _ _ | RemoveVertex _ | WriteAttr _ _ _ | RemoveAttr _ _ => true
  | RemoveDartTx d => negb (d =? 0) && (d <? n) && is_free2 s d
  end.

Fixpoint block_preb (E : env) (n : N) (ks : kinds) (cs : list call2) (c w : store) (cnt : N) : bool :=
  match cs with
  | [] => true
  | call :: rest =>
    pre_callb n w call &&
    match run E (call2_prog n ks call) c w cnt with
    | (Done _, w', cnt') => block_preb E n ks rest c w' cnt'
    | _ => true
    end
  end.

Definition pre_opb (fail_at : option N) (st : state2) (o : op2) : bool :=
  match o with
  | AddDart | AddDarts _ | InsertDart => true
  | RemoveDart d => negb (d =? 0)
  | Force c => pre_callb (nd st) (mem st) c
  | Block cs => block_preb (env2 st fail_at) (nd st) (aks st) cs (mem st) (mem st) 0
  end.

End Wf2.
