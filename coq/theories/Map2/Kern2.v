(** * The transactional 2D kernels, transcribed from honeycomb-kernels.
    Sources: cell_insertion/vertices.rs, triangulation/{mod,fan,ear_clipping}.rs,
    remeshing/{swap,cut,collapse}.rs, utils/routines.rs.  Model only, no proofs. *)
From Coq Require Import List NArith Bool.
From HC Require Import Base.Closure Stm.Prog Map2.Ops2 Map2.Orbit2.
Import ListNotations.
Open Scope N_scope.

(** kernel error classes *)
Definition EVertexBound := EKernel 1.
Definition EUndefinedEdge := EKernel 2.
Definition EInvalidDarts := EKernel 3.
Definition EWrongAmountDarts := EKernel 4.
Definition EAlreadyTriangulated := EKernel 11.
Definition ENoEar := EKernel 12.
Definition ENonFannable := EKernel 13.
Definition ENotEnoughDarts := EKernel 14.
Definition ETooManyDarts := EKernel 15.
Definition EUndefinedFace := EKernel 16.
Definition ESwapNullEdge := EKernel 21.
Definition ESwapIncomplete := EKernel 22.
Definition ESwapBadTopology := EKernel 23.
Definition ENonCollapsible := EKernel 31.
Definition EInverted := EKernel 32.
Definition ECollapseNullEdge := EKernel 33.
Definition ECollapseBadTopology := EKernel 34.

(** anchor attribute kinds *)
Definition KVA : N := 4.   (* VertexAnchor *)
Definition KEA : N := 5.   (* EdgeAnchor *)
Definition KFA : N := 6.   (* FaceAnchor *)

Section Kern2.
Context `{Sig}.

Definition has_kind (ks : kinds) (k : N) : bool := existsb (fun kc => fst kc =? k) ks.

(** [is_free_transac] of vertices.rs: the three images read through the transaction *)
Definition is_free_atomic (d : N) : prog bool :=
  b0 <- rdB 0 d ;;
  if negb (b0 =? 0) then Ret false else
  b1 <- rdB 1 d ;;
  if negb (b1 =? 0) then Ret false else
  b2 <- rdB 2 d ;;
  Ret (b2 =? 0).

Definition write_vertex (d : N) (v : V) : prog unit := _ <- rdV d ;; wrV d (Some v).
Definition write_attr (k d : N) (a : A) : prog unit := _ <- rdA k d ;; wrA k d (Some a).
Definition remove_attr (k d : N) : prog (option A) := o <- rdA k d ;; wrA k d None ;;; Ret o.
Definition remove_dart_tx (d : N) : prog unit := _ <- rdU d ;; wrU d true.

(** ** cell_insertion/vertices.rs *)
Definition new_vertex (v1 v2 : V) (t : option Sc) : V :=
  match t with Some t => v_lerp v1 v2 t | None => v_avg v1 v2 end.

Definition insert_vertex_on_edge (n : N) (ks : kinds) (e nd1 nd2 : N) (t : option Sc) : prog unit :=
  if match t with Some t => negb (sc_in_unit t) | None => false end then Fail EVertexBound else
  let d1 := e in
  d2 <- rdB 2 d1 ;;
  f1 <- (if nd1 =? 0 then Ret false else is_free_atomic nd1) ;;
  if negb f1 then Fail EInvalidDarts else
  f2 <- (if d2 =? 0 then Ret true else if nd2 =? 0 then Ret false else is_free_atomic nd2) ;;
  if negb f2 then Fail EInvalidDarts else
  d2 <- rdB 2 d1 ;;
  if d2 =? 0 then
    b1d1_old <- rdB 1 d1 ;;
    vid1 <- vertex_id_tx n d1 ;;
    vid2 <- vertex_id_tx n b1d1_old ;;
    ov1 <- rdV vid1 ;;
    ov2 <- rdV vid2 ;;
    match ov1, ov2 with
    | Some v1, Some v2 =>
      (if negb (b1d1_old =? 0) then one_unlink_core d1 else Ret tt) ;;;
      one_link_core d1 nd1 ;;;
      one_link_core nd1 b1d1_old ;;;
      vnew <- vertex_id_tx n nd1 ;;
      write_vertex vnew (new_vertex v1 v2 t)
    | _, _ => Fail EUndefinedEdge
    end
  else
    b1d1_old <- rdB 1 d1 ;;
    b1d2_old <- rdB 1 d2 ;;
    vid1 <- vertex_id_tx n d1 ;;
    vid2 <- vertex_id_tx n d2 ;;
    ov1 <- rdV vid1 ;;
    ov2 <- rdV vid2 ;;
    match ov1, ov2 with
    | Some v1, Some v2 =>
      (if negb (b1d1_old =? 0) then one_unlink_core d1 else Ret tt) ;;;
      (if negb (b1d2_old =? 0) then one_unlink_core d2 else Ret tt) ;;;
      two_unlink_core d1 ;;;
      one_link_core d1 nd1 ;;;
      (if negb (b1d1_old =? 0) then one_link_core nd1 b1d1_old else Ret tt) ;;;
      one_link_core d2 nd2 ;;;
      (if negb (b1d2_old =? 0) then one_link_core nd2 b1d2_old else Ret tt) ;;;
      two_link_core d1 nd2 ;;;
      two_link_core d2 nd1 ;;;
      vnew <- vertex_id_tx n nd1 ;;
      write_vertex vnew (new_vertex v1 v2 t)
    | _, _ => Fail EUndefinedEdge
    end.

(* new_darts.iter().any(not is_free): stops at the first non-free dart *)
Fixpoint any_not_free (ds : list N) : prog bool :=
  match ds with
  | [] => Ret false
  | d :: r => f <- is_free_atomic d ;; if f then any_not_free r else Ret true
  end.

Fixpoint link_first_half (prev : N) (nds : list N) : prog N :=
  match nds with
  | [] => Ret prev
  | nd :: r => one_link_core prev nd ;;; link_first_half nd r
  end.

(* the new vertices are embedded once the topology is final, under their vertex ids *)
Fixpoint embed_new (n : N) (v1 v2 : V) (tds : list (Sc * N)) : prog unit :=
  match tds with
  | [] => Ret tt
  | (t, nd) :: r =>
    vid <- vertex_id_tx n nd ;;
    write_vertex vid (v_lerp v1 v2 t) ;;;
    embed_new n v1 v2 r
  end.

Fixpoint link_second_half (prev : N) (pairs : list (N * N)) : prog N :=
  match pairs with
  | [] => Ret prev
  | (d, nd) :: r =>
    two_link_core prev d ;;;
    one_link_core prev nd ;;;
    link_second_half nd r
  end.

Definition insert_vertices_on_edge (n : N) (ks : kinds) (e : N) (nds : list N) (ts : list Sc) : prog unit :=
  let n_t := length ts in
  if negb (Nat.eqb (length nds) (2 * n_t)) then Fail EWrongAmountDarts else
  nf <- any_not_free nds ;;
  if nf then Fail EInvalidDarts else
  let fh := firstn n_t nds in let sh := skipn n_t nds in
  let d1 := e in
  d2 <- rdB 2 d1 ;;
  if existsb (fun d => d =? 0) fh then Fail EInvalidDarts else
  if negb (d2 =? 0) && existsb (fun d => d =? 0) sh then Fail EInvalidDarts else
  if existsb (fun t => negb (sc_in_unit t)) ts then Fail EVertexBound else
  d2 <- rdB 2 d1 ;;
  b1d1_old <- rdB 1 d1 ;;
  vid1 <- vertex_id_tx n d1 ;;
  if (b1d1_old =? 0) && (d2 =? 0) then Fail EUndefinedEdge else
  vid2 <- vertex_id_tx n (if negb (b1d1_old =? 0) then b1d1_old else d2) ;;
  ov1 <- rdV vid1 ;;
  ov2 <- rdV vid2 ;;
  match ov1, ov2 with
  | Some v1, Some v2 =>
    (if negb (b1d1_old =? 0) then one_unlink_core d1 else Ret tt) ;;;
    (if negb (d2 =? 0) then two_unlink_core d1 else Ret tt) ;;;
    prev <- link_first_half d1 fh ;;
    (if negb (b1d1_old =? 0) then one_link_core prev b1d1_old else Ret tt) ;;;
    (if negb (d2 =? 0) then
      b1d2_old <- rdB 1 d2 ;;
      (if negb (b1d2_old =? 0) then one_unlink_core d2 else Ret tt) ;;;
      prev2 <- link_second_half d2 (combine (rev fh) sh) ;;
      (if negb (b1d2_old =? 0) then one_link_core prev2 b1d2_old else Ret tt) ;;;
      two_link_core prev2 d1
    else Ret tt) ;;;
    embed_new n v1 v2 (combine ts fh)
  | _, _ => Fail EUndefinedEdge
  end.

(** ** triangulation *)
Definition check_requirements (n_face n_alloc : nat) : option err :=
  match n_face with
  | 1%nat | 2%nat => Some EUndefinedFace
  | 3%nat => Some EAlreadyTriangulated
  | _ =>
    let need := ((n_face - 3) * 2)%nat in
    if Nat.ltb n_alloc need then Some ENotEnoughDarts
    else if Nat.ltb need n_alloc then Some ETooManyDarts else None
  end.

Fixpoint read_face_vertices (n : N) (ds : list N) : prog (list V) :=
  match ds with
  | [] => Ret []
  | d :: r =>
    vid <- vertex_id_tx n d ;;
    ov <- rdV vid ;;
    match ov with
    | Some v => vs <- read_face_vertices n r ;; Ret (v :: vs)
    | None => Fail EUndefinedFace
    end
  end.

Fixpoint windows2 {X} (l : list X) : list (X * X) :=
  match l with
  | a :: ((b :: _) as r) => (a, b) :: windows2 r
  | _ => []
  end.

Fixpoint enumerate_from {X} (i : nat) (l : list X) : list (nat * X) :=
  match l with [] => [] | x :: r => (i, x) :: enumerate_from (S i) r end.

(* the star search of fan.rs::process_cell: orientation of v0 w.r.t. every polygon segment
   (closing one included) it does not belong to; all strictly of one sign, none below epsilon *)
Definition is_star (n : nat) (vs : list V) (id : nat) (v0 : V) : bool :=
  match vs with
  | [] => false
  | dflt :: _ =>
    let segs := filter (fun i => negb (Nat.eqb i id || Nat.eqb (Nat.modulo (i + 1) n) id)) (seq 0 n) in
    match map (fun i => v_cross v0 (nth i vs dflt) (nth (Nat.modulo (i + 1) n) vs dflt)) segs with
    | [] => false                                (* unwrap() on None: unreachable for n >= 4 *)
    | c0 :: rest =>
      if sc_small c0 then false else
      let sg := sc_signum c0 in
      forallb (fun c => sc_eqb (sc_signum c) sg && negb (sc_small c)) rest
    end
  end.

Definition find_star (ds : list N) (vs : list V) : option N :=
  let n := length ds in
  match find (fun idv => is_star n vs (fst idv) (snd (snd idv))) (enumerate_from 0 (combine ds vs)) with
  | Some (_, (d, _)) => Some d
  | None => None
  end.

Fixpoint chunks2 (l : list N) : list (N * N) :=
  match l with a :: b :: r => (a, b) :: chunks2 r | _ => [] end.

Fixpoint fan_loop (n : N) (ks : kinds) (d0 : N) (pairs : list (N * N)) : prog N :=
  match pairs with
  | [] => Ret d0
  | (nd1, nd2) :: r =>
    b1_d0 <- rdB 1 d0 ;;
    b1b1_d0 <- rdB 1 b1_d0 ;;
    one_unsew n ks b1_d0 ;;;
    two_sew n ks nd1 nd2 ;;;
    one_sew n ks nd2 b1b1_d0 ;;;
    one_sew n ks b1_d0 nd1 ;;;
    one_sew n ks nd1 d0 ;;;
    fan_loop n ks nd2 r
  end.

Definition fan_from (n : N) (ks : kinds) (sdart : N) (nds : list N) : prog unit :=
  b0_sdart <- rdB 0 sdart ;;
  vid <- vertex_id_tx n sdart ;;
  ov0 <- rdV vid ;;
  match ov0 with
  | None => Panic UnwrapNone
  | Some v0 =>
    one_unsew n ks b0_sdart ;;;
    d0 <- fan_loop n ks sdart (chunks2 nds) ;;
    b1_d0 <- rdB 1 d0 ;;
    b1b1_d0 <- rdB 1 b1_d0 ;;
    one_sew n ks b1b1_d0 d0 ;;;
    vid <- vertex_id_tx n sdart ;;
    write_vertex vid v0
  end.

Definition fan_cell (n : N) (ks : kinds) (f : N) (nds : list N) : prog unit :=
  ds <- orbit2_tx n PFaceLinear f ;;
  vs <- read_face_vertices n ds ;;
  match check_requirements (length ds) (length nds) with
  | Some e => Fail e
  | None =>
    match find_star ds vs with
    | Some sdart => fan_from n ks sdart nds
    | None => Fail ENonFannable
    end
  end.

Definition fan_convex_cell (n : N) (ks : kinds) (f : N) (nds : list N) : prog unit :=
  ds <- orbit2_tx n PFaceLinear f ;;
  match check_requirements (length ds) (length nds) with
  | Some e => Fail e
  | None => fan_from n ks f nds
  end.

(** ear clipping *)
Definition nth_mod {X} (l : list X) (i : nat) (dflt : X) : X := nth (Nat.modulo i (length l)) l dflt.

Fixpoint remove_at {X} (i : nat) (l : list X) : list X :=
  match i, l with
  | _, [] => []
  | O, _ :: r => r
  | S j, x :: r => x :: remove_at j r
  end.
(* Vec::swap_remove(i): the last element takes the place of element i *)
Definition swap_remove {X} (i : nat) (l : list X) : list X :=
  match rev l with
  | [] => []
  | lastx :: _ =>
    let body := removelast l in
    if Nat.eqb i (length body) then body
    else firstn i body ++ lastx :: skipn (S i) body
  end.

Definition is_ear (ccw : bool) (vs : list V) (dflt : V) (idx : nat) : bool :=
  let v1 := nth_mod vs idx dflt in
  let v2 := nth_mod vs (idx + 1) dflt in
  let v3 := nth_mod vs (idx + 2) dflt in
  let c := v_cross v1 v2 v3 in
  let inside := if ccw then sc_pos c else sc_neg c in
  let others := filter (fun v => negb (v_eqb v v1) && negb (v_eqb v v2) && negb (v_eqb v v3)) vs in
  let no_overlap := forallb (fun v =>
      let s12 := v_cross v1 v2 v in let s23 := v_cross v2 v3 v in let s31 := v_cross v3 v1 v in
      (sc_pos s12 || sc_pos s23 || sc_pos s31) && (sc_neg s12 || sc_neg s23 || sc_neg s31)) others in
  inside && no_overlap.

Fixpoint earclip_loop (n : N) (ks : kinds) (ccw : bool) (ds : list N) (vs : list V) (pairs : list (N * N)) : prog nat :=
  match pairs with
  | [] => Ret (length ds)
  | (nd1, nd2) :: r =>
    let cnt := length ds in
    match vs with
    | [] => Panic OOB
    | dflt :: _ =>
      match find (is_ear ccw vs dflt) (seq 0 cnt) with
      | None => Fail ENoEar
      | Some ear =>
        let d_ear1 := nth_mod ds ear 0 in
        let d_ear2 := nth_mod ds (ear + 1) 0 in
        b0_d_ear1 <- rdB 0 d_ear1 ;;
        b1_d_ear2 <- rdB 1 d_ear2 ;;
        one_unsew n ks b0_d_ear1 ;;;
        one_unsew n ks d_ear2 ;;;
        one_sew n ks d_ear2 nd1 ;;;
        one_sew n ks nd1 d_ear1 ;;;
        one_sew n ks b0_d_ear1 nd2 ;;;
        one_sew n ks nd2 b1_d_ear2 ;;;
        two_sew n ks nd1 nd2 ;;;
        let ds1 := remove_at (Nat.modulo (ear + 1) cnt) ds ++ [nd2] in
        if Nat.leb (length ds1) ear then Panic OOB else
        let ds2 := swap_remove ear ds1 in
        let vs2 := remove_at (Nat.modulo (ear + 1) cnt) vs in
        earclip_loop n ks ccw ds2 vs2 r
      end
    end
  end.

Definition earclip_cell (n : N) (ks : kinds) (ccw : bool) (f : N) (nds : list N) : prog unit :=
  ds <- orbit2_tx n PFaceLinear f ;;
  vs <- read_face_vertices n ds ;;
  match check_requirements (length ds) (length nds) with
  | Some e => Fail e
  | None =>
    k <- earclip_loop n ks ccw ds vs (chunks2 nds) ;;
    if Nat.eqb k 3 then Ret tt else Panic AssertFailed
  end.

Definition opt_anchor (ks : kinds) (k : N) (p : prog (option A)) : prog (option A) :=
  if has_kind ks k then p else Ret None.

(** ** remeshing/swap.rs *)
Definition restore_anchor (n : N) (d : N) (oa : option A) : prog unit :=
  vid <- vertex_id_tx n d ;;
  match oa with
  | Some a => write_attr KVA vid a
  | None => remove_attr KVA vid ;;; Ret tt
  end.
Definition restore_vertex (n : N) (d : N) (ov : option V) : prog unit :=
  match ov with
  | Some v => vid <- vertex_id_tx n d ;; write_vertex vid v
  | None => Ret tt
  end.

Definition swap_edge (n : N) (ks : kinds) (e : N) : prog unit :=
  if e =? 0 then Fail ESwapNullEdge else
  let l := e in
  r <- rdB 2 l ;;
  if r =? 0 then Fail ESwapIncomplete else
  b1l <- rdB 1 l ;; b1r <- rdB 1 r ;;
  b0l <- rdB 0 l ;; b0r <- rdB 0 r ;;
  x <- rdB 1 b1l ;;
  (* `a != b0l || ..`: the second read only happens when the first test passes *)
  bad <- (if negb (x =? b0l) then Ret true else y <- rdB 1 b1r ;; Ret (negb (y =? b0r))) ;;
  if bad then Fail ESwapBadTopology else
  vid_a <- vertex_id_tx n l ;; vid_b <- vertex_id_tx n r ;;
  vid_c <- vertex_id_tx n b0l ;; vid_d <- vertex_id_tx n b0r ;;
  va <- rdV vid_a ;; vb <- rdV vid_b ;; vc <- rdV vid_c ;; vd <- rdV vid_d ;;
  anchors <- (if has_kind ks KVA
              then aa <- rdA KVA vid_a ;; ab <- rdA KVA vid_b ;; ac <- rdA KVA vid_c ;; ad <- rdA KVA vid_d ;;
                   Ret (Some (aa, ab, ac, ad))
              else Ret None) ;;
  one_unsew n ks l ;;; one_unsew n ks r ;;;
  one_unsew n ks b0l ;;; one_unsew n ks b0r ;;;
  one_unsew n ks b1l ;;; one_unsew n ks b1r ;;;
  one_sew n ks l b0r ;;; one_sew n ks b0r b1l ;;; one_sew n ks b1l l ;;;
  one_sew n ks r b0l ;;; one_sew n ks b0l b1r ;;; one_sew n ks b1r r ;;;
  (* the corners are put back under the new vertex ids *)
  restore_vertex n b1r va ;;; restore_vertex n b1l vb ;;; restore_vertex n l vc ;;; restore_vertex n r vd ;;;
  match anchors with
  | Some (aa, ab, ac, ad) =>
    restore_anchor n b1r aa ;;; restore_anchor n b1l ab ;;; restore_anchor n l ac ;;; restore_anchor n r ad
  | None => Ret tt
  end.

(** ** remeshing/cut.rs *)

Definition reattach_face_anchor (n : N) (ks : kinds) (a : option A) (nda ndb : N) : prog unit :=
  match a with
  | None => Ret tt
  | Some a =>
    fid1 <- face_id_tx n nda ;;
    fid2 <- face_id_tx n ndb ;;
    write_attr KFA fid1 a ;;;
    write_attr KFA fid2 a ;;;
    if has_kind ks KEA then eid <- edge_id_tx nda ;; write_attr KEA eid a else Ret tt
  end.

Definition cut_outer_edge (n : N) (ks : kinds) (e nd1 nd2 nd3 : N) : prog unit :=
  two_link_core nd1 nd2 ;;;
  one_link_core nd2 nd3 ;;;
  f_anchor <- opt_anchor ks KFA (fid <- face_id_tx n e ;; remove_attr KFA fid) ;;
  e_anchor <- opt_anchor ks KEA (rdA KEA e) ;;
  let ld := e in
  b0ld <- rdB 0 ld ;; b1ld <- rdB 1 ld ;;
  vid1 <- vertex_id_tx n ld ;;
  vid2 <- vertex_id_tx n b1ld ;;
  ov1 <- rdV vid1 ;; ov2 <- rdV vid2 ;;
  match ov1, ov2 with
  | Some v1, Some v2 =>
    vid_new <- vertex_id_tx n nd1 ;;
    write_vertex vid_new (v_avg v1 v2) ;;;
    one_unsew n ks ld ;;;
    one_unsew n ks b1ld ;;;
    one_sew n ks ld nd1 ;;;
    one_sew n ks nd1 b0ld ;;;
    one_sew n ks nd3 b1ld ;;;
    one_sew n ks b1ld nd2 ;;;
    reattach_face_anchor n ks f_anchor nd1 nd2 ;;;
    match e_anchor with
    | Some a => vid <- vertex_id_tx n nd1 ;; write_attr KVA vid a
    | None => Ret tt
    end
  | _, _ => Retry
  end.

Definition cut_inner_edge (n : N) (ks : kinds) (e nd1 nd2 nd3 nd4 nd5 nd6 : N) : prog unit :=
  two_link_core nd1 nd2 ;;;
  one_link_core nd2 nd3 ;;;
  two_link_core nd4 nd5 ;;;
  one_link_core nd5 nd6 ;;;
  let ld := e in
  rd <- rdB 2 e ;;
  lf_anchor <- opt_anchor ks KFA (fid <- face_id_tx n ld ;; remove_attr KFA fid) ;;
  rf_anchor <- opt_anchor ks KFA (fid <- face_id_tx n rd ;; remove_attr KFA fid) ;;
  e_anchor <- opt_anchor ks KEA (rdA KEA e) ;;
  b0ld <- rdB 0 ld ;; b1ld <- rdB 1 ld ;;
  b0rd <- rdB 0 rd ;; b1rd <- rdB 1 rd ;;
  vid1 <- vertex_id_tx n ld ;;
  vid2 <- vertex_id_tx n b1ld ;;
  ov1 <- rdV vid1 ;; ov2 <- rdV vid2 ;;
  match ov1, ov2 with
  | Some v1, Some v2 =>
    vid_new <- vertex_id_tx n nd1 ;;
    write_vertex vid_new (v_avg v1 v2) ;;;
    two_unsew n ks ld ;;;
    one_unsew n ks ld ;;;
    one_unsew n ks b1ld ;;;
    one_unsew n ks rd ;;;
    one_unsew n ks b1rd ;;;
    two_sew n ks ld nd6 ;;;
    two_sew n ks rd nd3 ;;;
    one_sew n ks ld nd1 ;;;
    one_sew n ks nd1 b0ld ;;;
    one_sew n ks nd3 b1ld ;;;
    one_sew n ks b1ld nd2 ;;;
    one_sew n ks rd nd4 ;;;
    one_sew n ks nd4 b0rd ;;;
    one_sew n ks nd6 b1rd ;;;
    one_sew n ks b1rd nd5 ;;;
    reattach_face_anchor n ks lf_anchor nd1 nd2 ;;;
    reattach_face_anchor n ks rf_anchor nd4 nd5 ;;;
    match e_anchor with
    | Some a => vid <- vertex_id_tx n nd1 ;; write_attr KVA vid a
    | None => Ret tt
    end
  | _, _ => Retry
  end.

(** ** utils/routines.rs *)
Definition corner_sign (n : N) (new_v : V) (d : N) : prog Sc :=
  b1d <- rdB 1 d ;;
  b1b1d <- rdB 1 b1d ;;
  vid1 <- vertex_id_tx n b1d ;;
  vid2 <- vertex_id_tx n b1b1d ;;
  ov1 <- rdV vid1 ;;
  match ov1 with
  | None => Retry
  | Some v1 =>
    ov2 <- rdV vid2 ;;
    match ov2 with
    | None => Retry
    | Some v2 => Ret (sc_signum (v_cross new_v v1 v2))
    end
  end.

Fixpoint all_same_sign (n : N) (new_v : V) (ref : Sc) (ds : list N) : prog bool :=
  match ds with
  | [] => Ret true
  | d :: r =>
    s <- corner_sign n new_v d ;;
    if sc_eqb ref s then all_same_sign n new_v ref r else Ret false
  end.

Definition is_orbit_orientation_consistent (n : N) (vid : N) : prog bool :=
  ov <- rdV vid ;;
  match ov with
  | None => Retry
  | Some new_v =>
    ds <- orbit2_tx n PVertex vid ;;
    match ds with
    | [] => Panic OOB
    | d :: rest =>
      ref <- corner_sign n new_v d ;;
      all_same_sign n new_v ref rest
    end
  end.

(** ** remeshing/collapse.rs *)
Inductive collapsible := CAverage | CLeft | CRight.

Definition is_collapsible (n : N) (ks : kinds) (e : N) : prog collapsible :=
  if negb (has_kind ks KVA) then Ret CAverage else
  let l := e in
  b1l <- rdB 1 e ;;
  l_vid <- vertex_id_tx n l ;;
  r_vid <- vertex_id_tx n b1l ;;
  oa1 <- rdA KVA l_vid ;;
  oa2 <- rdA KVA r_vid ;;
  oa3 <- rdA KEA e ;;
  match oa1, oa2, oa3 with
  | Some a1, Some a2, Some a3 =>
    match a_merge KVA a1 a2 with
    | Some val =>
      if (anchor_dim a3 =? anchor_dim a1) || (anchor_dim a3 =? anchor_dim a2) then
        match a_eqb val a1, a_eqb val a2 with
        | true, true => Ret CAverage
        | true, false => Ret CLeft
        | false, true => Ret CRight
        | false, false => Panic Unreachable
        end
      else Fail ENonCollapsible
    | None => Fail ENonCollapsible
    end
  | _, _, _ => Retry
  end.

Definition collapse_halfcell_to_midpoint (n : N) (ks : kinds) (b0d d b1d : N) : prog unit :=
  one_unsew n ks d ;;;
  one_unsew n ks b1d ;;;
  one_unsew n ks b0d ;;;
  b2b0d <- rdB 2 b0d ;;
  b2b1d <- rdB 2 b1d ;;
  two_unsew n ks b0d ;;;
  two_unsew n ks b1d ;;;
  two_sew n ks b2b0d b2b1d ;;;
  remove_dart_tx d ;;;
  remove_dart_tx b0d ;;;
  remove_dart_tx b1d.

Definition collapse_edge_to_midpoint (n : N) (ks : kinds) (b0l l b1l b0r r b1r : N) : prog N :=
  (if negb (r =? 0) then two_unsew n ks r ;;; collapse_halfcell_to_midpoint n ks b0r r b1r else Ret tt) ;;;
  b2b0l <- rdB 2 b0l ;;
  collapse_halfcell_to_midpoint n ks b0l l b1l ;;;
  if negb (b2b0l =? 0) then vertex_id_tx n b2b0l
  else if negb (r =? 0) then vertex_id_tx n b1r
  else Ret 0.

Definition collapse_halfcell_to_base (n : N) (ks : kinds) (d_pe d_e d_ne : N) : prog unit :=
  b2d_ne <- rdB 2 d_ne ;;
  b0b2d_ne <- rdB 0 b2d_ne ;;
  b1b2d_ne <- rdB 1 b2d_ne ;;
  one_unsew n ks d_e ;;;
  one_unsew n ks d_pe ;;;
  one_unsew n ks d_ne ;;;
  if negb (b2d_ne =? 0) then
    one_unsew n ks b2d_ne ;;;
    one_unsew n ks b0b2d_ne ;;;
    two_unlink_core d_ne ;;;
    remove_dart_tx d_e ;;;
    remove_dart_tx d_ne ;;;
    remove_dart_tx b2d_ne ;;;
    one_sew n ks d_pe b1b2d_ne ;;;
    one_sew n ks b0b2d_ne d_pe
  else
    x <- rdB 2 d_pe ;;
    (if negb (x =? 0) then two_unsew n ks d_pe else Ret tt) ;;;
    remove_dart_tx d_e ;;;
    remove_dart_tx d_pe ;;;
    remove_dart_tx d_ne.

Definition collapse_edge_to_base (n : N) (ks : kinds) (b0l l b1l b0r r b1r : N) : prog N :=
  l_vid <- vertex_id_tx n l ;;
  tmp_vertex <- rdV l_vid ;;
  tmp_anchor <- rdA KVA l_vid ;;
  (if negb (r =? 0) then two_unsew n ks l ;;; collapse_halfcell_to_base n ks b1r r b0r else Ret tt) ;;;
  b2b0l <- rdB 2 b0l ;;
  collapse_halfcell_to_base n ks b0l l b1l ;;;
  new_vid <- (if negb (b2b0l =? 0) then vertex_id_tx n b2b0l
              else if negb (r =? 0) then vertex_id_tx n b1r
              else Ret 0) ;;
  (if negb (new_vid =? 0) then
     (match tmp_vertex with Some v => write_vertex new_vid v | None => Ret tt end) ;;;
     (match tmp_anchor with Some a => write_attr KVA new_vid a | None => Ret tt end)
   else Ret tt) ;;;
  Ret new_vid.

Definition collapse_edge (n : N) (ks : kinds) (e : N) : prog unit :=
  if e =? 0 then Fail ECollapseNullEdge else
  let l := e in
  r <- rdB 2 e ;;
  b0l <- rdB 0 l ;; b1l <- rdB 1 l ;;
  b0r <- rdB 0 r ;; b1r <- rdB 1 r ;;
  x <- rdB 1 b1l ;;
  if negb (x =? b0l) then Fail ECollapseBadTopology else
  bad <- (if r =? 0 then Ret false else y <- rdB 1 b1r ;; Ret (negb (y =? b0r))) ;;
  if bad then Fail ECollapseBadTopology else
  c <- is_collapsible n ks e ;;
  new_vid <- match c with
             | CAverage => collapse_edge_to_midpoint n ks b0l l b1l b0r r b1r
             | CLeft => collapse_edge_to_base n ks b0l l b1l b0r r b1r
             | CRight => collapse_edge_to_base n ks b0r r b1r b0l l b1l
             end ;;
  ok <- is_orbit_orientation_consistent n new_vid ;;
  if ok then Ret tt else Fail EInverted.

End Kern2.
