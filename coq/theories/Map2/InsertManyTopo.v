(** * C14, the multi-vertex insertion refines a pure update of the images, and that update replaces the edge by k + 1
    consecutive segments -- on both sides, glued segment by segment, when the edge has two darts. *)
From Coq Require Import List NArith Bool Lia.
From HC Require Import Base.Closure Stm.Prog Stm.ProgFacts Stm.Atomic Map2.Ops2 Map2.State2 Map2.Wf2 Map2.Wf2Proofs
  Map2.Orbit2 Map2.SewTopo Map2.SewData Map2.Kern2 Map2.SwapTopo Map2.FanTopo Map2.CollapseTopo.
Import ListNotations.
Open Scope N_scope.
Arguments N.eqb : simpl never.

Section InsertMany.
Context `{Sig}.

Fixpoint first_pure (f : img) (prev : N) (nds : list N) : img * N :=
  match nds with
  | [] => (f, prev)
  | nd :: r => first_pure (p_link1 f prev nd) nd r
  end.
Fixpoint second_pure (f : img) (prev : N) (pairs : list (N * N)) : img * N :=
  match pairs with
  | [] => (f, prev)
  | (d, nd) :: r => second_pure (p_link1 (p_link2 f prev d) prev nd) nd r
  end.

Lemma first_pure_ext : forall nds f g prev, img_eq f g ->
  snd (first_pure f prev nds) = snd (first_pure g prev nds) /\ img_eq (fst (first_pure f prev nds)) (fst (first_pure g prev nds)).
Proof.
  induction nds as [|nd r IH]; intros f g prev He; cbn [first_pure]; [split; [reflexivity|exact He]|].
  apply IH. apply p_link1_ext, He.
Qed.
Lemma second_pure_ext : forall ps f g prev, img_eq f g ->
  snd (second_pure f prev ps) = snd (second_pure g prev ps) /\ img_eq (fst (second_pure f prev ps)) (fst (second_pure g prev ps)).
Proof.
  induction ps as [|[d nd] r IH]; intros f g prev He; cbn [second_pure]; [split; [reflexivity|exact He]|].
  apply IH. apply p_link1_ext, p_link2_ext, He.
Qed.

(* link / unlink cores as steps on images *)
Lemma link1_stepY {Y} E l r (k : prog Y) c w cnt o w1 cnt1 :
  run E (one_link_core l r ;;; k) c w cnt = (Done o, w1, cnt1) ->
  exists wa cnta, img_eq (beta wa) (p_link1 (beta w) l r) /\ run E k c wa cnta = (Done o, w1, cnt1).
Proof.
  intros Hr. rewrite run_bind in Hr.
  destruct (run E (one_link_core l r) c w cnt) as [[[[]|e| |q] wa] cnta] eqn:Es; try discriminate Hr.
  exists wa, cnta. split; [|exact Hr]. apply run_one_link_core in Es. destruct Es as (-> & _).
  intros i d. unfold set1, p_link1. rewrite !beta_upd_beta. reflexivity.
Qed.
Lemma link2_stepY {Y} E l r (k : prog Y) c w cnt o w1 cnt1 :
  run E (two_link_core l r ;;; k) c w cnt = (Done o, w1, cnt1) ->
  exists wa cnta, img_eq (beta wa) (p_link2 (beta w) l r) /\ run E k c wa cnta = (Done o, w1, cnt1).
Proof.
  intros Hr. rewrite run_bind in Hr.
  destruct (run E (two_link_core l r) c w cnt) as [[[[]|e| |q] wa] cnta] eqn:Es; try discriminate Hr.
  exists wa, cnta. split; [|exact Hr]. apply run_two_link_core in Es. destruct Es as (-> & _).
  intros i d. unfold set2, p_link2. rewrite !beta_upd_beta. reflexivity.
Qed.
Lemma unlink1_stepY {Y} E l (k : prog Y) c w cnt o w1 cnt1 :
  run E (one_unlink_core l ;;; k) c w cnt = (Done o, w1, cnt1) ->
  exists wa cnta, img_eq (beta wa) (p_unlink1 (beta w) l) /\ run E k c wa cnta = (Done o, w1, cnt1).
Proof.
  intros Hr. rewrite run_bind in Hr.
  destruct (run E (one_unlink_core l) c w cnt) as [[[[]|e| |q] wa] cnta] eqn:Es; try discriminate Hr.
  exists wa, cnta. split; [|exact Hr]. apply run_one_unlink_core in Es. destruct Es as (-> & _).
  intros i d. unfold clr1, p_unlink1. rewrite !beta_upd_beta. reflexivity.
Qed.
Lemma unlink2_stepY {Y} E l (k : prog Y) c w cnt o w1 cnt1 :
  run E (two_unlink_core l ;;; k) c w cnt = (Done o, w1, cnt1) ->
  exists wa cnta, img_eq (beta wa) (p_unlink2 (beta w) l) /\ run E k c wa cnta = (Done o, w1, cnt1).
Proof.
  intros Hr. rewrite run_bind in Hr.
  destruct (run E (two_unlink_core l) c w cnt) as [[[[]|e| |q] wa] cnta] eqn:Es; try discriminate Hr.
  exists wa, cnta. split; [|exact Hr]. apply run_two_unlink_core in Es. destruct Es as (-> & _).
  intros i d. unfold clr2, p_unlink2. rewrite !beta_upd_beta. reflexivity.
Qed.

Theorem link_first_half_refines E : forall nds prev c w cnt pE w' cnt',
  run E (link_first_half prev nds) c w cnt = (Done pE, w', cnt') ->
  pE = snd (first_pure (beta w) prev nds) /\ img_eq (beta w') (fst (first_pure (beta w) prev nds)).
Proof.
  induction nds as [|nd r IH]; intros prev c w cnt pE w' cnt' Hr; cbn [link_first_half first_pure] in *.
  - cbn in Hr. injection Hr as <- <- <-. split; [reflexivity|intros i d; reflexivity].
  - apply link1_stepY in Hr. destruct Hr as (w1 & c1 & E1 & Hr).
    destruct (IH nd c w1 c1 pE w' cnt' Hr) as (Hd & Hi).
    destruct (first_pure_ext r _ _ nd E1) as (Hs & Hf). split.
    + rewrite Hd. exact Hs.
    + eapply img_eq_trans; [exact Hi|exact Hf].
Qed.
Theorem link_second_half_refines E : forall ps prev c w cnt pE w' cnt',
  run E (link_second_half prev ps) c w cnt = (Done pE, w', cnt') ->
  pE = snd (second_pure (beta w) prev ps) /\ img_eq (beta w') (fst (second_pure (beta w) prev ps)).
Proof.
  induction ps as [|[d nd] r IH]; intros prev c w cnt pE w' cnt' Hr; cbn [link_second_half second_pure] in *.
  - cbn in Hr. injection Hr as <- <- <-. split; [reflexivity|intros i x; reflexivity].
  - apply link2_stepY in Hr. destruct Hr as (w1 & c1 & E1 & Hr).
    apply link1_stepY in Hr. destruct Hr as (w2 & c2 & E2 & Hr).
    destruct (IH nd c w2 c2 pE w' cnt' Hr) as (Hd & Hi).
    assert (He : img_eq (beta w2) (p_link1 (p_link2 (beta w) prev d) prev nd)).
    { eapply img_eq_trans; [exact E2|]. apply p_link1_ext. exact E1. }
    destruct (second_pure_ext r _ _ nd He) as (Hs & Hf). split.
    + rewrite Hd. exact Hs.
    + eapply img_eq_trans; [exact Hi|exact Hf].
Qed.

(** ** what the two loops build *)
Ltac simpl_ne := repeat match goal with
  | Hne : ?x <> ?y |- context [?x =? ?y] => rewrite (proj2 (N.eqb_neq x y) Hne)
  | Hne : ?y <> ?x |- context [?x =? ?y] => rewrite (proj2 (N.eqb_neq x y) (not_eq_sym Hne))
  end; rewrite ?N.eqb_refl; cbn [andb orb negb].
Ltac consts := change (1 =? 0) with false; change (0 =? 1) with false; change (1 =? 1) with true;
  change (0 =? 0) with true; change (2 =? 0) with false; change (2 =? 1) with false; change (0 =? 2) with false;
  change (1 =? 2) with false; change (2 =? 2) with true; cbn [andb].

(* backwards chain: the 0-images run from the last element back to [prev] *)
Fixpoint chain0 (f : img) (prev : N) (C : list N) : Prop :=
  match C with [] => True | c1 :: r => f 0 c1 = prev /\ chain0 f c1 r end.

Lemma p_link1_vals f l r : l <> r ->
  p_link1 f l r 1 l = r /\ p_link1 f l r 0 r = l /\
  (forall d, d <> l -> p_link1 f l r 1 d = f 1 d) /\ (forall d, d <> r -> p_link1 f l r 0 d = f 0 d) /\
  (forall i d, i <> 0 -> i <> 1 -> p_link1 f l r i d = f i d).
Proof.
  intros Hlr. unfold p_link1. split; [|split; [|split; [|split]]]; intros; consts; simpl_ne; auto.
Qed.

Theorem first_pure_spec : forall nds f prev,
  NoDup (prev :: nds) ->
  let f' := fst (first_pure f prev nds) in
  snd (first_pure f prev nds) = last nds prev /\
  chain f' prev nds /\ chain0 f' prev nds /\
  (forall d, ~ In d (removelast (prev :: nds)) -> f' 1 d = f 1 d) /\
  (forall d, ~ In d nds -> f' 0 d = f 0 d) /\
  (forall i d, i <> 0 -> i <> 1 -> f' i d = f i d).
Proof.
  induction nds as [|nd r IH]; intros f prev Hnd; cbn [first_pure fst snd].
  - cbn. repeat split; auto.
  - assert (Hpn : prev <> nd) by (inversion Hnd as [|? ? N0 _]; intros ->; apply N0; left; reflexivity).
    assert (Hnd' : NoDup (nd :: r)) by (inversion Hnd; assumption).
    destruct (p_link1_vals f prev nd Hpn) as (V1 & V0 & F1 & F0 & Fi).
    destruct (IH (p_link1 f prev nd) nd Hnd') as (L & C1 & C0 & G1 & G0 & Gi). cbv zeta in *.
    set (f' := fst (first_pure (p_link1 f prev nd) nd r)) in *. clearbody f'.
    assert (NP : ~ In prev (nd :: r)) by (inversion Hnd; assumption).
    assert (Nn : ~ In nd r) by (inversion Hnd'; assumption).
    split; [|split; [|split; [|split; [|split]]]].
    + rewrite L. symmetry. apply last_cons_default.
    + cbn [chain]. split; [|exact C1]. rewrite G1; [exact V1|].
      intros Hin. apply NP. clear - Hin. revert nd Hin. induction r as [|a r IHr]; intros nd Hin; [destruct Hin|].
      change (removelast (nd :: a :: r)) with (nd :: removelast (a :: r)) in Hin. destruct Hin as [<-|Hin]; [left; reflexivity|right; apply IHr; exact Hin].
    + cbn [chain0]. split; [|exact C0]. rewrite G0; [exact V0|exact Nn].
    + intros d Hd. change (removelast (prev :: nd :: r)) with (prev :: removelast (nd :: r)) in Hd.
      rewrite G1; [apply F1|]; intros Q; apply Hd; [left; auto|right; exact Q].
    + intros d Hd. rewrite G0; [apply F0|]; intros Q; apply Hd; [left; auto|right; exact Q].
    + intros i d A B. rewrite Gi by assumption. apply Fi; assumption.
Qed.

Lemma p_link2_vals f l r : l <> r ->
  p_link2 f l r 2 l = r /\ p_link2 f l r 2 r = l /\
  (forall d, d <> l -> d <> r -> p_link2 f l r 2 d = f 2 d) /\
  (forall i d, i <> 2 -> p_link2 f l r i d = f i d).
Proof. intros Hlr. unfold p_link2. split; [|split; [|split]]; intros; consts; simpl_ne; auto. Qed.

(* the second side: each new dart is glued to the matching dart of the first side before the chain goes on *)
Fixpoint glued (f : img) (prev : N) (ps : list (N * N)) : Prop :=
  match ps with [] => True | (d, nd) :: r => f 2 prev = d /\ f 2 d = prev /\ glued f nd r end.

Lemma removelast_cons_in (a : N) : forall l d, In d (removelast l) -> In d (removelast (a :: l)).
Proof. intros l d Hd. destruct l as [|b l]; [destruct Hd|]. change (removelast (a :: b :: l)) with (a :: removelast (b :: l)). right. exact Hd. Qed.
Lemma removelast_in : forall (l : list N) d, In d (removelast l) -> In d l.
Proof. induction l as [|a l IH]; intros d Hd; [destruct Hd|]. destruct l as [|b l]; [destruct Hd|]. change (removelast (a :: b :: l)) with (a :: removelast (b :: l)) in Hd. destruct Hd as [<-|Hd]; [left; reflexivity|right; apply IH; exact Hd]. Qed.

Theorem second_pure_spec : forall ps f prev,
  NoDup (prev :: map snd ps ++ map fst ps) ->
  let f' := fst (second_pure f prev ps) in
  snd (second_pure f prev ps) = last (map snd ps) prev /\
  chain f' prev (map snd ps) /\ chain0 f' prev (map snd ps) /\ glued f' prev ps /\
  (forall d, ~ In d (removelast (prev :: map snd ps)) -> f' 1 d = f 1 d) /\
  (forall d, ~ In d (map snd ps) -> f' 0 d = f 0 d) /\
  (forall d, ~ In d (removelast (prev :: map snd ps) ++ map fst ps) -> f' 2 d = f 2 d) /\
  (forall i d, i <> 0 -> i <> 1 -> i <> 2 -> f' i d = f i d).
Proof.
  induction ps as [|[x y] ps IH]; intros f prev Hnd; cbn [second_pure fst snd map].
  - cbn. repeat split; auto.
  - cbn [map fst snd app] in Hnd.
    assert (Hpy : prev <> y) by (inversion Hnd as [|? ? N0 _]; intros ->; apply N0; left; reflexivity).
    assert (Hpx : prev <> x).
    { inversion Hnd as [|? ? N0 _]. intros ->. apply N0. right. apply in_or_app. right. left. reflexivity. }
    assert (Hyx : y <> x).
    { inversion Hnd as [|? ? _ Hn1]. inversion Hn1 as [|? ? N1 _]. intros ->. apply N1. apply in_or_app. right. left. reflexivity. }
    assert (Hnd' : NoDup (y :: map snd ps ++ map fst ps)).
    { inversion Hnd as [|? ? _ Hn1]. change (y :: map snd ps ++ x :: map fst ps) with ((y :: map snd ps) ++ x :: map fst ps) in Hn1.
      apply NoDup_remove_1 in Hn1. exact Hn1. }
    destruct (p_link2_vals f prev x Hpx) as (A1 & A2 & A3 & A4).
    set (g := p_link2 f prev x) in *.
    destruct (p_link1_vals g prev y Hpy) as (V1 & V0 & F1 & F0 & Fi).
    set (h := p_link1 g prev y) in *.
    destruct (IH h y Hnd') as (L & C1 & C0 & G & G1 & G0 & G2 & Gi). cbv zeta in *.
    set (f' := fst (second_pure h y ps)) in *. clearbody f'.
    assert (NPy : ~ In prev (y :: map snd ps ++ x :: map fst ps)) by (inversion Hnd; assumption).
    assert (NP : ~ In prev (map snd ps) /\ ~ In prev (map fst ps)).
    { split; intros Q; apply NPy; right; apply in_or_app; [left; exact Q|right; right; exact Q]. }
    destruct NP as [NP1 NP2].
    assert (Ny : ~ In y (map snd ps) /\ ~ In y (map fst ps)).
    { inversion Hnd' as [|? ? N1 _]. split; intros Q; apply N1; apply in_or_app; [left|right]; exact Q. }
    destruct Ny as [Ny1 Ny2].
    assert (Nx : ~ In x (map snd ps) /\ ~ In x (map fst ps)).
    { inversion Hnd as [|? ? _ Hn1]. change (y :: map snd ps ++ x :: map fst ps) with ((y :: map snd ps) ++ x :: map fst ps) in Hn1.
      apply NoDup_remove_2 in Hn1. split; intros Q; apply Hn1; apply in_or_app; [left; right|right]; exact Q. }
    destruct Nx as [Nx1 Nx2].
    assert (RL : forall d, In d (removelast (y :: map snd ps)) -> d = y \/ In d (map snd ps)).
    { intros d Hd. apply removelast_in in Hd. destruct Hd as [<-|Hd]; auto. }
    split; [|split; [|split; [|split; [|split; [|split; [|split]]]]]].
    + rewrite L. symmetry. apply last_cons_default.
    + cbn [chain]. split; [|exact C1]. rewrite G1; [unfold h; exact V1|].
      intros Hin. destruct (RL _ Hin) as [Q|Q]; [congruence|contradiction].
    + cbn [chain0]. split; [|exact C0]. rewrite G0; [unfold h; exact V0|exact Ny1].
    + cbn [glued]. split; [|split; [|exact G]].
      * rewrite G2; [unfold h; rewrite Fi by discriminate; exact A1|].
        intros Hin. apply in_app_or in Hin. destruct Hin as [Q|Q]; [destruct (RL _ Q) as [Q'|Q']; [congruence|contradiction]|contradiction].
      * rewrite G2; [unfold h; rewrite Fi by discriminate; exact A2|].
        intros Hin. apply in_app_or in Hin. destruct Hin as [Q|Q]; [destruct (RL _ Q) as [Q'|Q']; [congruence|contradiction]|contradiction].
    + intros d Hd. change (removelast (prev :: y :: map snd ps)) with (prev :: removelast (y :: map snd ps)) in Hd.
      rewrite G1; [unfold h; rewrite F1; [unfold g; apply A4; discriminate|]|]; intros Q; apply Hd; [left; auto|right; exact Q].
    + intros d Hd. rewrite G0; [unfold h; rewrite F0; [unfold g; apply A4; discriminate|]|]; intros Q; apply Hd; [left; auto|right; exact Q].
    + intros d Hd. change (removelast (prev :: y :: map snd ps)) with (prev :: removelast (y :: map snd ps)) in Hd.
      rewrite G2.
      * unfold h. rewrite Fi by discriminate. unfold g. apply A3; intros ->; apply Hd; [left; reflexivity|].
        right. apply in_or_app. right. left. reflexivity.
      * intros Hin. apply Hd. right. apply in_app_or in Hin. apply in_or_app. destruct Hin as [Q|Q]; [left; exact Q|right; right; exact Q].
    + intros i d B0 B1 B2. rewrite Gi by assumption. unfold h. rewrite Fi by assumption. unfold g. apply A4. exact B2.
Qed.

(** ** the kernel refines the pure function *)
Definition insert_pure (f : img) (e : N) (fh sh : list N) : img :=
  let d2 := f 2 e in let b1 := f 1 e in
  let f1 := if negb (b1 =? 0) then p_unlink1 f e else f in
  let f2 := if negb (d2 =? 0) then p_unlink2 f1 e else f1 in
  let '(f3, prev) := first_pure f2 e fh in
  let f4 := if negb (b1 =? 0) then p_link1 f3 prev b1 else f3 in
  if negb (d2 =? 0) then
    let c1 := f4 1 d2 in
    let f5 := if negb (c1 =? 0) then p_unlink1 f4 d2 else f4 in
    let '(f6, prev2) := second_pure f5 d2 (combine (rev fh) sh) in
    let f7 := if negb (c1 =? 0) then p_link1 f6 prev2 c1 else f6 in
    p_link2 f7 prev2 e
  else f4.

Lemma wi_any_not_free : forall ds, writes_in Sdata (any_not_free ds).
Proof.
  induction ds as [|d r IH]; cbn [any_not_free]; [exact I|].
  apply writes_in_bind; [|intros b; destruct b; [exact IH|exact I]].
  unfold is_free_atomic. cbn. intros x. destruct (negb _); [exact I|]. cbn. intros y. destruct (negb _); [exact I|]. cbn. auto.
Qed.
Lemma wi_embed_new_d n v1 v2 : forall tds, writes_in Sdata (embed_new n v1 v2 tds).
Proof.
  induction tds as [|[t nd] r IH]; cbn [embed_new]; [exact I|].
  apply writes_in_bind; [apply wi_vertex_id|]. intros ?. apply writes_in_bind; [cbn; intros; repeat split; exact I|]. intros ?. exact IH.
Qed.
Lemma p_unlink2_ext f g l : img_eq f g -> img_eq (p_unlink2 f l) (p_unlink2 g l).
Proof. intros He i d. unfold p_unlink2. rewrite !He. reflexivity. Qed.

(* a conditional core step *)
Lemma cond_stepY {Y} E (b : bool) (core : prog unit) (k : prog Y) (pf : img -> img) c w cnt o w1 cnt1 :
  run E ((if b then core else Ret tt) ;;; k) c w cnt = (Done o, w1, cnt1) ->
  (forall c w cnt o w1 cnt1, run E (core ;;; k) c w cnt = (Done o, w1, cnt1) ->
     exists wa cnta, img_eq (beta wa) (pf (beta w)) /\ run E k c wa cnta = (Done o, w1, cnt1)) ->
  exists wa cnta, img_eq (beta wa) (if b then pf (beta w) else beta w) /\ run E k c wa cnta = (Done o, w1, cnt1).
Proof.
  intros Hr Hs. destruct b; [exact (Hs _ _ _ _ _ _ Hr)|]. cbn [bind run] in Hr. exists w, cnt. split; [intros i d; reflexivity|exact Hr].
Qed.

Theorem insert_vertices_refines E n ks e nds ts c w cnt w' cnt' :
  run E (insert_vertices_on_edge n ks e nds ts) c w cnt = (Done tt, w', cnt') ->
  img_eq (beta w') (insert_pure (beta w) e (firstn (length ts) nds) (skipn (length ts) nds)).
Proof.
  intros Hr. unfold insert_vertices_on_edge in Hr. cbv zeta in Hr.
  destruct (negb (Nat.eqb (length nds) (2 * length ts))); [cbn in Hr; discriminate Hr|].
  apply data_stepY in Hr; [|apply wi_any_not_free]. destruct Hr as (nf & wa & ca & Ea & Hr).
  destruct nf; [cbn in Hr; discriminate Hr|].
  set (fh := firstn (length ts) nds) in *. set (sh := skipn (length ts) nds) in *.
  apply rd_stepY in Hr.
  destruct (existsb (fun d => d =? 0) fh); [cbn in Hr; discriminate Hr|].
  destruct (negb (beta wa 2 e =? 0) && existsb (fun d => d =? 0) sh); [cbn in Hr; discriminate Hr|].
  destruct (existsb (fun t => negb (sc_in_unit t)) ts); [cbn in Hr; discriminate Hr|].
  apply rd_stepY in Hr. apply rd_stepY in Hr.
  apply data_stepY in Hr; [|apply wi_vertex_id]. destruct Hr as (vid1 & wb & cb & Eb & Hr).
  rewrite !Ea in Hr.
  set (d2 := beta w 2 e) in *. set (b1 := beta w 1 e) in *.
  destruct ((b1 =? 0) && (d2 =? 0)); [cbn in Hr; discriminate Hr|].
  apply data_stepY in Hr; [|apply wi_vertex_id]. destruct Hr as (vid2 & wc & cc & Ec & Hr).
  apply data_stepY in Hr; [|cbn; intros; exact I]. destruct Hr as (ov1 & wd & cd & Ed & Hr).
  apply data_stepY in Hr; [|cbn; intros; exact I]. destruct Hr as (ov2 & we & ce & Ee & Hr).
  destruct ov1 as [v1|]; [|cbn in Hr; discriminate Hr]. destruct ov2 as [v2|]; [|cbn in Hr; discriminate Hr].
  assert (E0 : img_eq (beta we) (beta w)).
  { intros i d. rewrite Ee, Ed, Ec, Eb, Ea. reflexivity. }
  clear Ea Eb Ec Ed Ee.
  (* the cores *)
  eapply cond_stepY with (pf := fun f => p_unlink1 f e) in Hr; [|intros; eapply unlink1_stepY; eassumption].
  destruct Hr as (w1 & c1 & F1 & Hr).
  eapply cond_stepY with (pf := fun f => p_unlink2 f e) in Hr; [|intros; eapply unlink2_stepY; eassumption].
  destruct Hr as (w2 & c2 & F2 & Hr).
  rewrite run_bind in Hr.
  destruct (run E (link_first_half e fh) c w2 c2) as [[[prev|er| |q] w3] c3] eqn:El; try discriminate Hr.
  destruct (link_first_half_refines E _ _ _ _ _ _ _ _ El) as (Hp & F3).
  eapply cond_stepY with (pf := fun f => p_link1 f prev b1) in Hr; [|intros; eapply link1_stepY; eassumption].
  destruct Hr as (w4 & c4 & F4 & Hr).
  (* images so far, as the pure function computes them *)
  unfold insert_pure. fold d2 b1.
  set (g1 := if negb (b1 =? 0) then p_unlink1 (beta w) e else beta w).
  set (g2 := if negb (d2 =? 0) then p_unlink2 g1 e else g1).
  assert (G1 : img_eq (beta w1) g1).
  { eapply img_eq_trans; [exact F1|]. unfold g1. destruct (negb (b1 =? 0)); [apply p_unlink1_ext|]; exact E0. }
  assert (G2 : img_eq (beta w2) g2).
  { eapply img_eq_trans; [exact F2|]. unfold g2. destruct (negb (d2 =? 0)); [apply p_unlink2_ext|]; exact G1. }
  destruct (first_pure_ext fh _ _ e G2) as (Hs3 & Hf3).
  destruct (first_pure g2 e fh) as [g3 prev'] eqn:Ep. cbn [fst snd] in Hs3, Hf3.
  assert (Hpp : prev' = prev) by (rewrite Hp; symmetry; exact Hs3). clear Hp Hs3. rewrite Hpp in *. clear Hpp.
  assert (G3 : img_eq (beta w3) g3) by (eapply img_eq_trans; [exact F3|exact Hf3]).
  set (g4 := if negb (b1 =? 0) then p_link1 g3 prev b1 else g3).
  assert (G4 : img_eq (beta w4) g4).
  { eapply img_eq_trans; [exact F4|]. unfold g4. destruct (negb (b1 =? 0)); [apply p_link1_ext|]; exact G3. }
  destruct (negb (d2 =? 0)) eqn:Nd2.
  - (* the second side *)
    rewrite bind_assoc in Hr. apply rd_stepY in Hr.
    rewrite bind_assoc in Hr.
    eapply cond_stepY with (pf := fun f => p_unlink1 f d2) in Hr; [|intros; eapply unlink1_stepY; eassumption].
    destruct Hr as (w5 & c5 & F5 & Hr).
    rewrite bind_assoc in Hr. rewrite run_bind in Hr.
    destruct (run E (link_second_half d2 (combine (rev fh) sh)) c w5 c5) as [[[prev2|er| |q] w6] c6] eqn:El2; try discriminate Hr.
    destruct (link_second_half_refines E _ _ _ _ _ _ _ _ El2) as (Hp2 & F6).
    rewrite bind_assoc in Hr.
    eapply cond_stepY with (pf := fun f => p_link1 f prev2 (beta w4 1 d2)) in Hr; [|intros; eapply link1_stepY; eassumption].
    destruct Hr as (w7 & c7 & F7 & Hr).
    apply link2_stepY in Hr. destruct Hr as (w8 & c8 & F8 & Hr).
    assert (E9 : img_eq (beta w') (beta w8)).
    { destruct (last_data E _ c w8 c8 tt w' cnt' (wi_embed_new_d n v1 v2 _) Hr) as [Hb _]. exact Hb. }
    rewrite (G4 1 d2) in *.
    set (cc1 := g4 1 d2) in *.
    set (g5 := if negb (cc1 =? 0) then p_unlink1 g4 d2 else g4).
    assert (G5 : img_eq (beta w5) g5).
    { eapply img_eq_trans; [exact F5|]. unfold g5. destruct (negb (cc1 =? 0)); [apply p_unlink1_ext|]; exact G4. }
    destruct (second_pure_ext (combine (rev fh) sh) _ _ d2 G5) as (Hs6 & Hf6).
    destruct (second_pure g5 d2 (combine (rev fh) sh)) as [g6 prev2'] eqn:Ep2. cbn [fst snd] in Hs6, Hf6.
    assert (Hpp2 : prev2' = prev2) by (rewrite Hp2; symmetry; exact Hs6). clear Hp2 Hs6. rewrite Hpp2 in *. clear Hpp2.
    assert (G6 : img_eq (beta w6) g6) by (eapply img_eq_trans; [exact F6|exact Hf6]).
    eapply img_eq_trans; [exact E9|]. eapply img_eq_trans; [exact F8|]. apply p_link2_ext.
    eapply img_eq_trans; [exact F7|]. destruct (negb (cc1 =? 0)); [apply p_link1_ext|]; exact G6.
  - cbn [bind run] in Hr.
    assert (E9 : img_eq (beta w') (beta w4)).
    { destruct (last_data E _ c w4 c4 tt w' cnt' (wi_embed_new_d n v1 v2 _) Hr) as [Hb _]. exact Hb. }
    eapply img_eq_trans; [exact E9|exact G4].
Qed.

(** ** the pure function on an interior two-dart edge: k + 1 consecutive segments on both sides, glued pairwise *)
Lemma map_fst_combine : forall (l l' : list N), length l = length l' -> map fst (combine l l') = l.
Proof. induction l as [|a l IH]; intros [|b l'] Hl; cbn in *; try congruence. f_equal. apply IH. lia. Qed.
Lemma map_snd_combine : forall (l l' : list N), length l = length l' -> map snd (combine l l') = l'.
Proof. induction l as [|a l IH]; intros [|b l'] Hl; cbn in *; try congruence. f_equal. apply IH. lia. Qed.

Lemma chain_app f : forall C d0 x, chain f d0 (C ++ [x]) <-> chain f d0 C /\ f 1 (last C d0) = x.
Proof.
  induction C as [|c1 r IH]; intros d0 x.
  - cbn [app chain last]. tauto.
  - change ((c1 :: r) ++ [x]) with (c1 :: (r ++ [x])). cbn [chain]. rewrite IH, last_cons_default. tauto.
Qed.

Lemma glued_ext f g : forall ps prev,
  (forall d, In d (removelast (prev :: map snd ps) ++ map fst ps) -> g 2 d = f 2 d) ->
  glued f prev ps -> glued g prev ps.
Proof.
  induction ps as [|[x y] ps IH]; intros prev He Hg; cbn [glued] in *; [exact I|].
  destruct Hg as (A & B & C0). cbn [map fst snd] in He.
  change (removelast (prev :: y :: map snd ps)) with (prev :: removelast (y :: map snd ps)) in He.
  split; [|split].
  - rewrite He; [exact A|left; reflexivity].
  - rewrite He; [exact B|]. right. apply in_or_app. right. left. reflexivity.
  - apply IH; [|exact C0]. intros d Hd. apply He. right. apply in_app_or in Hd. apply in_or_app.
    destruct Hd as [Q|Q]; [left; exact Q|right; right; exact Q].
Qed.

Lemma nodup_parts (a b c0 d : N) l1 l2 : NoDup (a :: b :: c0 :: d :: l1 ++ l2) ->
  (a <> b /\ a <> c0 /\ a <> d /\ b <> c0 /\ b <> d /\ c0 <> d) /\
  (~ In a l1 /\ ~ In b l1 /\ ~ In c0 l1 /\ ~ In d l1) /\ (~ In a l2 /\ ~ In b l2 /\ ~ In c0 l2 /\ ~ In d l2) /\
  NoDup l1 /\ NoDup l2 /\ (forall x, In x l1 -> ~ In x l2).
Proof.
  intros Hn. inversion Hn as [|? ? Na Hn1]. inversion Hn1 as [|? ? Nb Hn2]. inversion Hn2 as [|? ? Nc Hn3]. inversion Hn3 as [|? ? Nd Hn4].
  cbn [In] in *. rewrite ?in_app_iff in *.
  assert (D12 : forall x, In x l1 -> ~ In x l2).
  { clear - Hn4. induction l1 as [|y l1 IH]; intros x Hx; [destruct Hx|]. cbn [app] in Hn4. inversion Hn4 as [|? ? Ny Hn5].
    destruct Hx as [->|Hx]; [intros Q; apply Ny; apply in_or_app; right; exact Q|apply IH; assumption]. }
  assert (N1 : NoDup l1) by (eapply NoDup_app_l; exact Hn4).
  assert (N2 : NoDup l2).
  { clear - Hn4. induction l1 as [|y l1 IH]; [exact Hn4|]. cbn [app] in Hn4. inversion Hn4. apply IH. assumption. }
  repeat split; try assumption; try (intros Q; subst; intuition congruence); intuition.
Qed.

Lemma NoDup_app_swap_rev (l1 l2 : list N) :
  NoDup l1 -> NoDup l2 -> (forall x, In x l1 -> ~ In x l2) -> NoDup (l2 ++ rev l1).
Proof.
  intros N1 N2 Dis. induction l2 as [|a l2 IH]; [cbn; apply NoDup_rev; exact N1|].
  cbn [app]. inversion N2 as [|? ? Na N2']. constructor.
  - rewrite in_app_iff, <- in_rev. intros [Q|Q]; [contradiction|]. apply (Dis a Q). left. reflexivity.
  - apply IH; [exact N2'|]. intros z Hz Q. apply (Dis z Hz). right. exact Q.
Qed.
Lemma in_removelast_cons (a : N) : forall l d, l <> [] -> In d (removelast (a :: l)) -> d = a \/ In d (removelast l).
Proof. intros l d Hl Hd. destruct l as [|b l]; [congruence|]. change (removelast (a :: b :: l)) with (a :: removelast (b :: l)) in Hd. destruct Hd; auto. Qed.
Lemma last_not_in_removelast : forall (l : list N) d, NoDup l -> l <> [] -> ~ In (last l d) (removelast l).
Proof.
  intros l d Hn Hl Hin. rewrite (app_removelast_last d Hl) in Hn. apply NoDup_remove_2 in Hn. rewrite app_nil_r in Hn. contradiction.
Qed.

Theorem insert_pure_inner f e fh sh :
  let d2 := f 2 e in let b1 := f 1 e in let c1 := f 1 d2 in
  fh <> [] -> length fh = length sh ->
  NoDup (e :: d2 :: b1 :: c1 :: fh ++ sh) -> b1 <> 0 -> d2 <> 0 -> c1 <> 0 ->
  let f' := insert_pure f e fh sh in
  chain f' e (fh ++ [b1]) /\ chain f' d2 (sh ++ [c1]) /\
  glued f' d2 (combine (rev fh) sh) /\ f' 2 (last sh d2) = e /\ f' 2 e = last sh d2 /\
  (forall i d, ~ In d (e :: d2 :: b1 :: c1 :: fh ++ sh) -> f' i d = f i d).
Proof.
  intros d2 b1 c1 Hfh Hlen Hnd Nb1 Nd2 Nc1.
  destruct (nodup_parts e d2 b1 c1 fh sh Hnd) as ((D1 & D2 & D3 & D4 & D5 & D6) & (Ne1 & Nd1 & Nb1f & Nc1f) & (Ne2 & Nd2s & Nb2 & Nc2) & Nfh & Nsh & Dis).
  assert (Hsh : sh <> []) by (destruct sh; [destruct fh; cbn in Hlen; congruence|discriminate]).
  cbv zeta. unfold insert_pure. fold d2 b1.
  rewrite (proj2 (N.eqb_neq b1 0) Nb1), (proj2 (N.eqb_neq d2 0) Nd2). cbn [negb].
  set (f1 := p_unlink1 f e). set (f2 := p_unlink2 f1 e).
  (* f2: the edge is taken out *)
  assert (P1 : forall d, d <> e -> f2 1 d = f 1 d).
  { intros d Hd. unfold f2, f1, p_unlink2, p_unlink1. consts. simpl_ne. reflexivity. }
  assert (P2 : forall d, d <> e -> d <> d2 -> f2 2 d = f 2 d).
  { intros d A B. unfold f2, f1, p_unlink2, p_unlink1. consts. fold d2. simpl_ne. reflexivity. }
  assert (P2e : f2 2 e = 0) by (unfold f2, f1, p_unlink2, p_unlink1; consts; fold d2; simpl_ne; destruct (e =? d2); reflexivity).
  assert (Pall : forall i d, d <> e -> d <> d2 -> d <> b1 -> f2 i d = f i d).
  { intros i d A B C0. unfold f2, f1, p_unlink2, p_unlink1. fold d2 b1.
    destruct (N.eqb_spec i 0) as [->|I0]; [consts; simpl_ne; reflexivity|].
    destruct (N.eqb_spec i 1) as [->|I1]; [consts; simpl_ne; reflexivity|].
    destruct (N.eqb_spec i 2) as [->|I2]; [consts; simpl_ne; reflexivity|].
    cbn [andb]. reflexivity. }
  (* first side *)
  assert (Hn1 : NoDup (e :: fh)) by (constructor; assumption).
  destruct (first_pure_spec fh f2 e Hn1) as (L3 & C3 & _ & G31 & G30 & G3i). cbv zeta in *.
  destruct (first_pure f2 e fh) as [f3 prev] eqn:Ep. cbn [fst snd] in *.
  assert (InP : In prev fh) by (rewrite L3; apply last_in; exact Hfh).
  assert (Pe : prev <> e) by (intros Q; rewrite Q in InP; contradiction).
  assert (Pd : prev <> d2) by (intros Q; rewrite Q in InP; contradiction).
  assert (Pb : prev <> b1) by (intros Q; rewrite Q in InP; contradiction).
  assert (Pc : prev <> c1) by (intros Q; rewrite Q in InP; contradiction).
  assert (Pnr : ~ In prev (removelast (e :: fh))).
  { intros Q. apply in_removelast_cons in Q; [|exact Hfh]. destruct Q as [Q|Q]; [congruence|].
    rewrite L3 in Q. revert Q. apply last_not_in_removelast; assumption. }
  set (f4 := p_link1 f3 prev b1).
  destruct (p_link1_vals f3 prev b1 Pb) as (V41 & V40 & F41 & F40 & F4i). fold f4 in V41, V40, F41, F40, F4i.
  assert (C4 : chain f4 e (fh ++ [b1])).
  { apply chain_app. split.
    - apply (chain_ext' f3); [|exact C3]. intros d Hd. apply F41. intros ->.
      apply Pnr. destruct fh as [|a l]; [congruence|]. exact Hd.
    - rewrite <- L3. exact V41. }
  assert (Hc1 : f4 1 d2 = c1).
  { rewrite F41 by congruence. rewrite G31.
    - apply P1. congruence.
    - intros Q. apply removelast_in in Q. destruct Q as [Q|Q]; [congruence|contradiction]. }
  rewrite Hc1. rewrite (proj2 (N.eqb_neq c1 0) Nc1). cbn [negb].
  set (f5 := p_unlink1 f4 d2).
  assert (U51 : forall d, d <> d2 -> f5 1 d = f4 1 d) by (intros d A; unfold f5, p_unlink1; consts; simpl_ne; reflexivity).
  assert (U52 : forall d, f5 2 d = f4 2 d) by (intros d; unfold f5, p_unlink1; consts; reflexivity).
  assert (U5a : forall i d, d <> d2 -> d <> c1 -> f5 i d = f4 i d).
  { intros i d A B. unfold f5, p_unlink1. rewrite Hc1.
    destruct ((i =? 0) && (d =? c1)) eqn:Q1; [apply andb_true_iff in Q1 as [_ Q]; apply N.eqb_eq in Q; contradiction|].
    destruct ((i =? 1) && (d =? d2)) eqn:Q2; [apply andb_true_iff in Q2 as [_ Q]; apply N.eqb_eq in Q; contradiction|]. reflexivity. }
  (* second side *)
  set (ps := combine (rev fh) sh).
  assert (Hlr : length (rev fh) = length sh) by (rewrite rev_length; exact Hlen).
  assert (Ms : map snd ps = sh) by (apply map_snd_combine; exact Hlr).
  assert (Mf : map fst ps = rev fh) by (apply map_fst_combine; exact Hlr).
  assert (Hn2 : NoDup (d2 :: map snd ps ++ map fst ps)).
  { rewrite Ms, Mf. constructor.
    - rewrite in_app_iff, <- in_rev. tauto.
    - apply NoDup_app_swap_rev; assumption. }
  destruct (second_pure_spec ps f5 d2 Hn2) as (L6 & C6 & _ & G6 & G61 & G60 & G62 & G6i). cbv zeta in *.
  destruct (second_pure f5 d2 ps) as [f6 prev2] eqn:Ep2. cbn [fst snd] in *. rewrite Ms in *. rewrite Mf in *.
  assert (InP2 : In prev2 sh) by (rewrite L6; apply last_in; exact Hsh).
  assert (Qe : prev2 <> e) by (intros Q; rewrite Q in InP2; contradiction).
  assert (Qd : prev2 <> d2) by (intros Q; rewrite Q in InP2; contradiction).
  assert (Qc : prev2 <> c1) by (intros Q; rewrite Q in InP2; contradiction).
  assert (Qnr : ~ In prev2 (removelast (d2 :: sh))).
  { intros Q. apply in_removelast_cons in Q; [|exact Hsh]. destruct Q as [Q|Q]; [congruence|].
    rewrite L6 in Q. revert Q. apply last_not_in_removelast; assumption. }
  assert (Qnf : ~ In prev2 fh) by (intros Q; exact (Dis _ Q InP2)).
  set (f7 := p_link1 f6 prev2 c1).
  destruct (p_link1_vals f6 prev2 c1 Qc) as (V71 & V70 & F71 & F70 & F7i). fold f7 in V71, V70, F71, F70, F7i.
  set (f' := p_link2 f7 prev2 e).
  destruct (p_link2_vals f7 prev2 e Qe) as (W1 & W2 & W3 & W4). fold f' in W1, W2, W3, W4.
  split; [|split; [|split; [|split; [|split]]]].
  - (* first side: untouched by the second half *)
    apply (chain_ext' f4); [|exact C4]. intros d Hd.
    assert (Hd' : d = e \/ In d fh).
    { destruct Hd as [<-|Hd]; [left; reflexivity|right]. rewrite removelast_last in Hd. exact Hd. }
    assert (A1 : d <> prev2) by (destruct Hd' as [->|Q]; [congruence|intros ->; contradiction]).
    assert (A2 : d <> d2) by (destruct Hd' as [->|Q]; [congruence|intros ->; contradiction]).
    rewrite W4 by discriminate. rewrite F71 by exact A1. rewrite G61.
    + apply U51. exact A2.
    + intros Q. apply removelast_in in Q. destruct Q as [Q|Q]; [congruence|].
      destruct Hd' as [->|Q']; [contradiction|exact (Dis _ Q' Q)].
  - (* second side *)
    apply chain_app. split.
    + apply (chain_ext' f6); [|exact C6]. intros d Hd.
      rewrite W4 by discriminate. apply F71. intros ->. apply Qnr.
      destruct sh as [|a l]; [congruence|]. exact Hd.
    + rewrite <- L6. rewrite W4 by discriminate. exact V71.
  - (* gluing *)
    apply (glued_ext f6); [|exact G6]. change (combine (rev fh) sh) with ps. rewrite Ms, Mf. intros d Hd.
    assert (A1 : d <> prev2).
    { intros ->. apply in_app_or in Hd. destruct Hd as [Q|Q]; [contradiction|]. apply in_rev in Q. contradiction. }
    assert (A2 : d <> e).
    { intros ->. apply in_app_or in Hd. destruct Hd as [Q|Q].
      - apply removelast_in in Q. destruct Q as [Q|Q]; [congruence|contradiction].
      - apply in_rev in Q. contradiction. }
    rewrite W3 by assumption. apply F7i; discriminate.
  - rewrite <- L6. exact W1.
  - rewrite <- L6. exact W2.
  - (* everything else *)
    intros i d Hd.
    assert (A : d <> e /\ d <> d2 /\ d <> b1 /\ d <> c1 /\ ~ In d fh /\ ~ In d sh).
    { cbn [In] in Hd. rewrite in_app_iff in Hd. repeat split; intros Q; apply Hd; try (rewrite Q); tauto. }
    destruct A as (A1 & A2 & A3 & A4 & A5 & A6).
    assert (Ap : d <> prev) by (intros ->; contradiction).
    assert (Ap2 : d <> prev2) by (intros ->; contradiction).
    assert (E7 : f' i d = f6 i d).
    { destruct (N.eqb_spec i 2) as [->|I2].
      - rewrite W3 by assumption. apply F7i; discriminate.
      - rewrite W4 by assumption. destruct (N.eqb_spec i 0) as [->|I0]; [apply F70; assumption|].
        destruct (N.eqb_spec i 1) as [->|I1]; [apply F71; assumption|]. apply F7i; assumption. }
    assert (E6 : f6 i d = f5 i d).
    { destruct (N.eqb_spec i 0) as [->|I0]; [apply G60; assumption|].
      destruct (N.eqb_spec i 1) as [->|I1].
      - apply G61. intros Q. apply removelast_in in Q. destruct Q as [Q|Q]; [congruence|contradiction].
      - destruct (N.eqb_spec i 2) as [->|I2]; [|apply G6i; assumption].
        apply G62. intros Q. apply in_app_or in Q. destruct Q as [Q|Q].
        + apply removelast_in in Q. destruct Q as [Q|Q]; [congruence|contradiction].
        + apply in_rev in Q. contradiction. }
    assert (E4 : f4 i d = f3 i d).
    { destruct (N.eqb_spec i 0) as [->|I0]; [apply F40; assumption|].
      destruct (N.eqb_spec i 1) as [->|I1]; [apply F41; assumption|]. apply F4i; assumption. }
    assert (E3 : f3 i d = f2 i d).
    { destruct (N.eqb_spec i 0) as [->|I0]; [apply G30; assumption|].
      destruct (N.eqb_spec i 1) as [->|I1]; [|apply G3i; assumption].
      apply G31. intros Q. apply removelast_in in Q. destruct Q as [Q|Q]; [congruence|contradiction]. }
    rewrite E7, E6, (U5a i d A2 A4), E4, E3. apply Pall; assumption.
Qed.

(** the kernel on an interior two-dart edge *)
Theorem insert_vertices_inner E n ks e nds ts c w cnt w' cnt' :
  let d2 := beta w 2 e in let b1 := beta w 1 e in let c1 := beta w 1 d2 in
  let fh := firstn (length ts) nds in let sh := skipn (length ts) nds in
  ts <> [] -> length nds = (2 * length ts)%nat ->
  NoDup (e :: d2 :: b1 :: c1 :: nds) -> b1 <> 0 -> d2 <> 0 -> c1 <> 0 ->
  run E (insert_vertices_on_edge n ks e nds ts) c w cnt = (Done tt, w', cnt') ->
  chain (beta w') e (fh ++ [b1]) /\ chain (beta w') d2 (sh ++ [c1]) /\
  glued (beta w') d2 (combine (rev fh) sh) /\ beta w' 2 (last sh d2) = e /\ beta w' 2 e = last sh d2 /\
  (forall i d, ~ In d (e :: d2 :: b1 :: c1 :: nds) -> beta w' i d = beta w i d).
Proof.
  intros d2 b1 c1 fh sh Hts Hlen Hnd Nb Nd Nc Hr.
  pose proof (insert_vertices_refines E n ks e nds ts c w cnt w' cnt' Hr) as Ref. fold fh sh in Ref.
  assert (Hsplit : nds = fh ++ sh) by (symmetry; apply firstn_skipn).
  assert (Lf : length fh = length ts) by (unfold fh; apply firstn_length_le; lia).
  assert (Ls : length sh = length ts) by (unfold sh; rewrite skipn_length; lia).
  assert (Hfh : fh <> []) by (intros Q; rewrite Q in Lf; destruct ts; [congruence|discriminate Lf]).
  rewrite Hsplit in Hnd.
  destruct (insert_pure_inner (beta w) e fh sh Hfh ltac:(lia) Hnd Nb Nd Nc) as (A & B & C0 & D0 & E0 & F0). cbv zeta in *.
  fold d2 b1 c1 in A, B, C0, D0, E0, F0.
  assert (Sym : img_eq (insert_pure (beta w) e fh sh) (beta w')) by (intros i d; symmetry; apply Ref).
  split; [|split; [|split; [|split; [|split]]]].
  - eapply chain_img_eq; [exact Ref|exact A].
  - eapply chain_img_eq; [exact Ref|exact B].
  - eapply glued_ext; [|exact C0]. intros d _. apply Ref.
  - rewrite Ref. exact D0.
  - rewrite Ref. exact E0.
  - intros i d Hd. rewrite Ref. apply F0. rewrite <- Hsplit. exact Hd.
Qed.

(** boundary (one-dart) edge e -> b1: e -> fh_1 -> ... -> fh_k -> b1, nothing else changes (the second half of the spare
    darts is not used) *)
Theorem insert_pure_boundary f e fh sh :
  let b1 := f 1 e in
  f 2 e = 0 -> fh <> [] -> NoDup (e :: b1 :: fh) -> b1 <> 0 ->
  let f' := insert_pure f e fh sh in
  chain f' e (fh ++ [b1]) /\ chain0 f' e fh /\ f' 0 b1 = last fh e /\
  (forall i d, ~ In d (e :: b1 :: fh) -> f' i d = f i d).
Proof.
  intros b1 Z2 Hfh Hnd Nb1.
  assert (D1 : e <> b1) by (inversion Hnd as [|? ? N0 _]; intros Q; apply N0; left; auto).
  assert (Ne1 : ~ In e fh) by (inversion Hnd as [|? ? N0 _]; intros Q; apply N0; right; exact Q).
  assert (Nb1f : ~ In b1 fh) by (inversion Hnd as [|? ? _ Hn1]; inversion Hn1; assumption).
  assert (Nfh : NoDup fh) by (inversion Hnd as [|? ? _ Hn1]; inversion Hn1; assumption).
  cbv zeta. unfold insert_pure. fold b1. rewrite Z2.
  rewrite (proj2 (N.eqb_neq b1 0) Nb1). change (0 =? 0) with true. cbn [negb].
  set (f1 := p_unlink1 f e).
  assert (P1 : forall d, d <> e -> f1 1 d = f 1 d) by (intros d A; unfold f1, p_unlink1; consts; simpl_ne; reflexivity).
  assert (Pall : forall i d, d <> e -> d <> b1 -> f1 i d = f i d).
  { intros i d A B. unfold f1, p_unlink1. fold b1.
    destruct ((i =? 0) && (d =? b1)) eqn:Q1; [apply andb_true_iff in Q1 as [_ Q]; apply N.eqb_eq in Q; contradiction|].
    destruct ((i =? 1) && (d =? e)) eqn:Q2; [apply andb_true_iff in Q2 as [_ Q]; apply N.eqb_eq in Q; contradiction|]. reflexivity. }
  assert (Hn1 : NoDup (e :: fh)) by (constructor; assumption).
  destruct (first_pure_spec fh f1 e Hn1) as (L3 & C3 & C30 & G31 & G30 & G3i). cbv zeta in *.
  destruct (first_pure f1 e fh) as [f3 prev] eqn:Ep. cbn [fst snd] in *.
  assert (InP : In prev fh) by (rewrite L3; apply last_in; exact Hfh).
  assert (Pe : prev <> e) by (intros Q; rewrite Q in InP; contradiction).
  assert (Pb : prev <> b1) by (intros Q; rewrite Q in InP; contradiction).
  assert (Pnr : ~ In prev (removelast (e :: fh))).
  { intros Q. apply in_removelast_cons in Q; [|exact Hfh]. destruct Q as [Q|Q]; [congruence|].
    rewrite L3 in Q. revert Q. apply last_not_in_removelast; assumption. }
  set (f4 := p_link1 f3 prev b1).
  destruct (p_link1_vals f3 prev b1 Pb) as (V41 & V40 & F41 & F40 & F4i). fold f4 in V41, V40, F41, F40, F4i.
  split; [|split; [|split]].
  - apply chain_app. split.
    + apply (chain_ext' f3); [|exact C3]. intros d Hd. apply F41. intros ->.
      apply Pnr. destruct fh as [|a l]; [congruence|]. exact Hd.
    + rewrite <- L3. exact V41.
  - (* backward chain: the 0-images of fh are not touched by the last link (it writes the 0-image of b1) *)
    clear - C30 F40 Nb1f. revert C30. generalize e as p. induction fh as [|a l IH]; intros p C0; cbn [chain0] in *; [exact I|].
    destruct C0 as [A B]. split.
    + rewrite F40; [exact A|]. intros ->. apply Nb1f. left. reflexivity.
    + apply IH; [|exact B]. intros Q. apply Nb1f. right. exact Q.
  - rewrite <- L3. exact V40.
  - intros i d Hd.
    assert (A : d <> e /\ d <> b1 /\ ~ In d fh) by (cbn [In] in Hd; repeat split; intros Q; apply Hd; try (rewrite Q); tauto).
    destruct A as (A1 & A2 & A3).
    assert (Ap : d <> prev) by (intros ->; contradiction).
    assert (E4 : f4 i d = f3 i d).
    { destruct (N.eqb_spec i 0) as [->|I0]; [apply F40; assumption|].
      destruct (N.eqb_spec i 1) as [->|I1]; [apply F41; assumption|]. apply F4i; assumption. }
    assert (E3 : f3 i d = f1 i d).
    { destruct (N.eqb_spec i 0) as [->|I0]; [apply G30; assumption|].
      destruct (N.eqb_spec i 1) as [->|I1]; [|apply G3i; assumption].
      apply G31. intros Q. apply removelast_in in Q. destruct Q as [Q|Q]; [congruence|contradiction]. }
    rewrite E4, E3. apply Pall; assumption.
Qed.

Theorem insert_vertices_boundary E n ks e nds ts c w cnt w' cnt' :
  let b1 := beta w 1 e in let fh := firstn (length ts) nds in
  beta w 2 e = 0 -> ts <> [] -> length nds = (2 * length ts)%nat ->
  NoDup (e :: b1 :: fh) -> b1 <> 0 ->
  run E (insert_vertices_on_edge n ks e nds ts) c w cnt = (Done tt, w', cnt') ->
  chain (beta w') e (fh ++ [b1]) /\ beta w' 0 b1 = last fh e /\
  (forall i d, ~ In d (e :: b1 :: fh) -> beta w' i d = beta w i d).
Proof.
  intros b1 fh Z2 Hts Hlen Hnd Nb Hr.
  pose proof (insert_vertices_refines E n ks e nds ts c w cnt w' cnt' Hr) as Ref. fold fh in Ref.
  assert (Lf : length fh = length ts) by (unfold fh; apply firstn_length_le; lia).
  assert (Hfh : fh <> []) by (intros Q; rewrite Q in Lf; destruct ts; [congruence|discriminate Lf]).
  destruct (insert_pure_boundary (beta w) e fh (skipn (length ts) nds) Z2 Hfh Hnd Nb) as (A & _ & B & F0). cbv zeta in *. fold b1 in A, B, F0.
  split; [|split].
  - eapply chain_img_eq; [exact Ref|exact A].
  - rewrite Ref. exact B.
  - intros i d Hd. rewrite Ref. apply F0. exact Hd.
Qed.

End InsertMany.
