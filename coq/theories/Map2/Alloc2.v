(** * C18 (2-maps): dart allocation and removal. *)
From Coq Require Import List NArith Arith Bool Lia FinFun.
From HC Require Import Stm.Prog Stm.ProgFacts Map2.Ops2 Map2.State2 Map2.Wf2 Map2.Wf2Proofs Map2.Wf2Dec.
Import ListNotations.
Open Scope N_scope.
Arguments N.add : simpl never. Arguments N.eqb : simpl never. Arguments N.ltb : simpl never.
Arguments N.leb : simpl never.

Section Alloc2.
Context `{Sig}.

Definition count_unused (n : N) (s : store) : nat := length (filter (unused s) (nrange n)).

(** the allocation invariant: structural invariant + the null dart is never flagged removed *)
Definition ainv (st : state2) : Prop := inv2 st /\ unused (mem st) 0 = false.

Definition free_slot (s : store) (d : N) : Prop := forall i, i < 3 -> beta s i d = 0.
Definition blank_slot (s : store) (d : N) : Prop :=
  free_slot s d /\ unused s d = false /\ vertex s d = None /\ forall k, attr s k d = None.

(** attribute storages have one slot more than there are darts ([add_storage(1)] then
    extension by the dart count); nobody is entitled to write it *)
Definition spare_untouched (st : state2) : Prop := forall k, attr (mem st) k (nd st) = None.

Lemma nrange_app n k : nrange (n + k) = nrange n ++ map N.of_nat (seq (N.to_nat n) (N.to_nat k)).
Proof. unfold nrange. rewrite N2Nat.inj_add, seq_app, map_app. reflexivity. Qed.

Lemma filter_none {A} (f : A -> bool) l : (forall x, In x l -> f x = false) -> filter f l = [].
Proof.
  induction l as [|a l IH]; cbn; intros Hf; [reflexivity|]. rewrite Hf by now left.
  apply IH. intros; apply Hf; now right.
Qed.

(** ** append *)
Theorem add_spec st k : ainv st -> spare_untouched st ->
  let d := fst (add_free_darts st k) in let st' := snd (add_free_darts st k) in
  d = nd st /\ d <> 0 /\ nd st' = nd st + k /\
  (forall e, nd st <= e -> blank_slot (mem st') e) /\
  (forall v, mem st' v = mem st v) /\
  count_unused (nd st') (mem st') = count_unused (nd st) (mem st) /\ ainv st'.
Proof.
  intros [Hi H0] Hsp. cbn. pose proof Hi as (Hn & W & F).
  refine (conj eq_refl (conj _ (conj eq_refl (conj _ (conj (fun _ => eq_refl) (conj _ (conj _ _))))))); try lia.
  - intros e He. split; [|split; [|split]].
    + intros i Hi3. eapply fresh_beta; eauto.
    + eapply fresh_unused; eauto.
    + unfold vertex. rewrite F; [reflexivity|]. cbn. destruct (N.ltb_spec e (nd st)); [lia|reflexivity].
    + intros k0. destruct (N.eq_dec e (nd st)) as [->|Hne]; [apply Hsp|].
      unfold attr. rewrite F; [reflexivity|]. cbn.
      destruct (N.leb_spec e (nd st)); [lia|]. now rewrite andb_false_r.
  - unfold count_unused. rewrite nrange_app, filter_app, app_length.
    rewrite (filter_none (unused (mem st)) (map N.of_nat (seq (N.to_nat (nd st)) (N.to_nat k)))); [cbn [length]; lia|].
    intros x Hx. apply in_map_iff in Hx as (j & <- & Hj). apply in_seq in Hj.
    eapply fresh_unused; eauto. lia.
  - exact (inv2_add st k Hi).
  - exact H0.
Qed.

(** ** the unused counter under a flag update *)
Lemma count_upd n s d b : d < n ->
  (count_unused n (upd s (XUnused d) (VB b)) + (if unused s d then 1 else 0) =
   count_unused n s + (if b then 1 else 0))%nat.
Proof.
  intros Hd. unfold count_unused.
  assert (Hin : In d (nrange n)) by now apply in_nrange.
  assert (ND : NoDup (nrange n)).
  { unfold nrange. apply FinFun.Injective_map_NoDup; [intros a c; apply Nat2N.inj | apply seq_NoDup]. }
  apply in_split in Hin as (l1 & l2 & E). rewrite E in *.
  apply NoDup_remove_2 in ND. rewrite in_app_iff in ND.
  rewrite !filter_app. cbn [filter]. rewrite !app_length.
  rewrite unused_upd_unused, N.eqb_refl.
  assert (Q : forall l, ~ In d l -> filter (unused (upd s (XUnused d) (VB b))) l = filter (unused s) l).
  { intros l Hl. apply filter_ext_in. intros x Hx. rewrite unused_upd_unused.
    destruct (N.eqb_spec x d); [subst; contradiction|reflexivity]. }
  rewrite !Q by tauto. destruct b, (unused s d); cbn [length]; lia.
Qed.

(** ** slot reuse / append through [insert_free_dart] *)
Lemma find_unused_spec s : forall count from d, find_unused s from count = Some d ->
  unused s d = true /\ from <= d /\ forall e, from <= e -> e < d -> unused s e = false.
Proof.
  induction count as [|c IH]; intros from d E; cbn [find_unused] in E; [discriminate|].
  destruct (unused s from) eqn:U.
  - injection E as <-. split; [exact U|]. split; [lia|]. intros; lia.
  - apply IH in E as (A & B & C). split; [exact A|]. split; [lia|].
    intros e He Hed. destruct (N.eq_dec e from) as [->|]; [exact U|]. apply C; lia.
Qed.

Lemma find_unused_none s : forall count from, find_unused s from count = None ->
  forall e, from <= e -> e < from + N.of_nat count -> unused s e = false.
Proof.
  induction count as [|c IH]; intros from E e He Hlt; cbn [find_unused] in E; [lia|].
  destruct (unused s from) eqn:U; [discriminate|].
  destruct (N.eq_dec e from) as [->|]; [exact U|]. apply (IH (from + 1)); auto; lia.
Qed.

Theorem insert_spec st : ainv st -> spare_untouched st ->
  let d := fst (insert_free_dart st) in let st' := snd (insert_free_dart st) in
  d <> 0 /\ d < nd st' /\ free_slot (mem st') d /\ unused (mem st') d = false /\ ainv st' /\
  ( (* slot reuse: the first flagged slot *)
    (d < nd st /\ unused (mem st) d = true /\ (forall e, e < d -> unused (mem st) e = false) /\
     nd st' = nd st /\ (count_unused (nd st') (mem st') + 1 = count_unused (nd st) (mem st))%nat)
    \/ (* append: no flagged slot *)
    (d = nd st /\ (forall e, e < nd st -> unused (mem st) e = false) /\ nd st' = nd st + 1 /\
     blank_slot (mem st') d)).
Proof.
  intros Ha Hsp. pose proof Ha as [Hi H0]. pose proof Hi as (Hn & W & F).
  pose proof (inv2_insert st Hi) as Hins. unfold insert_free_dart in *.
  destruct (find_unused (mem st) 0 (N.to_nat (nd st))) as [d|] eqn:Ef.
  - cbn [fst snd]. pose proof (find_unused_lt _ _ _ _ Ef) as Hlt.
    apply find_unused_spec in Ef as (U & _ & Hfirst).
    assert (Hd : d < nd st) by lia.
    assert (Hd0 : d <> 0) by (intros ->; congruence).
    cbn [with_mem nd mem].
    split; [exact Hd0|]. split; [exact Hd|]. split.
    { intros i Hi3. rewrite beta_upd_other by (intros; discriminate). eapply unused_free; eauto. }
    split. { rewrite unused_upd_unused, N.eqb_refl. reflexivity. }
    split. { split; [exact Hins |].
             cbn [snd]. cbn [mem with_mem]. rewrite unused_upd_unused.
             destruct (N.eqb_spec 0 d); [reflexivity|exact H0]. }
    left. repeat split; auto. { intros e He. apply Hfirst; lia. }
    pose proof (count_upd (nd st) (mem st) d false Hd) as C. rewrite U in C. lia.
  - cbn [fst snd]. pose proof (find_unused_none _ _ _ Ef) as Hnone.
    destruct (add_spec st 1 Ha Hsp) as (_ & A2 & A3 & A4 & A5 & A6 & A7). cbn in *.
    split; [lia|]. split; [lia|]. split; [apply A4; lia|]. split; [apply A4; lia|]. split; [exact A7|].
    right. repeat split; try apply A4; try lia. intros e He. apply Hnone; lia.
Qed.

(** ** removal *)
Theorem remove_spec st d : ainv st -> d <> 0 -> d < nd st ->
  match remove_free_dart st d with
  | (ROk _, st') =>
      is_free2 (mem st) d = true /\ unused (mem st) d = false /\ unused (mem st') d = true /\
      nd st' = nd st /\ (count_unused (nd st') (mem st') = count_unused (nd st) (mem st) + 1)%nat /\ ainv st'
  | (RPanic _, st') =>      (* refused: the documented assertion *)
      (is_free2 (mem st) d = false \/ unused (mem st) d = true) /\
      nd st' = nd st /\ (forall i e, beta (mem st') i e = beta (mem st) i e) /\
      (forall e, unused (mem st') e = unused (mem st) e)
  | _ => False
  end.
Proof.
  intros [Hi H0] Hd0 Hd. unfold remove_free_dart.
  destruct (N.ltb_spec d (nd st)); [|lia]. cbn [negb].
  destruct (is_free2 (mem st) d) eqn:Efree; cbn [negb].
  2:{ split; [now left|]. split; [reflexivity|]. split; intros; reflexivity. }
  destruct (unused (mem st) d) eqn:U.
  - cbn [with_mem nd mem]. split; [now right|]. split; [reflexivity|]. split.
    + intros i e. apply beta_upd_other. intros; discriminate.
    + intros e. rewrite unused_upd_unused. destruct (N.eqb_spec e d); [subst; auto|reflexivity].
  - cbn [with_mem nd mem]. split; [reflexivity|]. split; [reflexivity|]. split.
    { rewrite unused_upd_unused, N.eqb_refl. reflexivity. }
    split; [reflexivity|]. split.
    { pose proof (count_upd (nd st) (mem st) d true Hd) as C. rewrite U in C. lia. }
    split.
    + pose proof (inv2_remove st d Hi) as Hr. unfold remove_free_dart in Hr.
      destruct (N.ltb_spec d (nd st)); [|lia]. cbn [negb] in Hr. rewrite Efree, U in Hr. exact Hr.
    + cbn. rewrite unused_upd_unused. destruct (N.eqb_spec 0 d); [congruence|exact H0].
Qed.

(** ** every identifier below the dart count is addressable in every registered storage *)
Theorem addressable st fa d k c : d < nd st -> In (k, c) (aks st) ->
  e_dom (env2 st fa) (XVertex d) = true /\ e_dom (env2 st fa) (XAttr k d) = true /\
  forall i, i < 3 -> e_dom (env2 st fa) (XBeta i d) = true.
Proof.
  intros Hd Hk. cbn. repeat split.
  - now apply N.ltb_lt.
  - apply andb_true_iff. split; [|apply N.leb_le; lia].
    apply existsb_exists. exists (k, c). split; [exact Hk|apply N.eqb_refl].
  - intros i Hi. apply andb_true_iff. split; now apply N.ltb_lt.
Qed.

(** ** the "blank" clause fails on slot reuse in the faithful model: stale data survives *)
End Alloc2.
