(** * C01: every editing operation preserves 2-map well-formedness. *)
From Coq Require Import List NArith Bool Lia.
From HC Require Import Stm.Prog Stm.ProgFacts Map2.Ops2 Map2.State2 Map2.Wf2.
Import ListNotations.
Open Scope N_scope.
Arguments visit : simpl never.
Arguments N.add : simpl never. Arguments N.mul : simpl never. Arguments N.min : simpl never.
Arguments N.eqb : simpl never. Arguments N.ltb : simpl never. Arguments N.leb : simpl never.

Section Proofs.
Context `{Sig}.

(** ** accessors vs updates *)
Lemma beta_upd_beta s j e x i d :
  beta (upd s (XBeta j e) (VN x)) i d = if (i =? j) && (d =? e) then x else beta s i d.
Proof.
  unfold beta, upd. cbn. destruct (N.eqb_spec i j), (N.eqb_spec d e); cbn; reflexivity.
Qed.

Lemma beta_upd_other s v x i d :
  (forall j e, v <> XBeta j e) -> beta (upd s v x) i d = beta s i d.
Proof. intros Hv. unfold beta. rewrite upd_other; [reflexivity|]. intros E; symmetry in E; eapply Hv; eauto. Qed.

Lemma unused_upd_unused s e b d :
  unused (upd s (XUnused e) (VB b)) d = if d =? e then b else unused s d.
Proof. unfold unused, upd. cbn. destruct (N.eqb_spec d e); reflexivity. Qed.

Lemma unused_upd_other s v x d :
  (forall e, v <> XUnused e) -> unused (upd s v x) d = unused s d.
Proof. intros Hv. unfold unused. rewrite upd_other; [reflexivity|]. intros E; symmetry in E; eapply Hv; eauto. Qed.

(** ** well-formedness only depends on the topology part of the store *)
Definition topo_eq (w w' : store) : Prop :=
  (forall i d, beta w' i d = beta w i d) /\ (forall d, unused w' d = unused w d).

Lemma wf2_ext n w w' : wf2 n w -> topo_eq w w' -> wf2 n w'.
Proof.
  intros [W1 W2 W3 W4 W5 W6] [Hb Hu]. constructor; intros; rewrite ?Hb in *; rewrite ?Hu in *; auto.
Qed.

Lemma okd_ext n w w' d : okd n w d -> topo_eq w w' -> okd n w' d.
Proof. intros (A1 & A2 & A3) [Hb Hu]. repeat split; auto. now rewrite Hu. Qed.

Definition Sdata (v : var) : Prop :=
  match v with XVertex _ | XAttr _ _ => True | _ => False end.

Lemma Sdata_topo w w' : (forall v, ~ Sdata v -> w' v = w v) -> topo_eq w w'.
Proof.
  intros Hv. split; intros; unfold beta, unused; rewrite Hv; auto.
Qed.

Definition topo (P : store -> Prop) : Prop := forall w w', P w -> topo_eq w w' -> P w'.

Lemma triple_data {X} E (P : store -> Prop) (p : prog X) :
  writes_in Sdata p -> topo P -> triple E P p (fun _ => P) P.
Proof.
  intros Hw HP. eapply triple_frame; eauto. intros w w' Pw Hv. eapply HP; eauto. now apply Sdata_topo.
Qed.

(** ** which programs only touch data *)
Ltac wi := repeat (cbn; match goal with
  | |- _ /\ _ => split
  | |- forall _, _ => intro
  | |- True => exact I
  | |- writes_in _ (bind _ _) => apply writes_in_bind
  | |- writes_in _ (if ?b then _ else _) => destruct b
  | |- writes_in _ (match ?o with Some _ => _ | None => _ end) => destruct o
  | |- writes_in _ (let '(_, _) := ?o in _) => destruct o
  end); auto.

Lemma wi_vid S f : forall p m mn, writes_in S (vid_loop f p m mn).
Proof.
  induction f as [|f IH]; intros p m mn; cbn; [exact I|].
  destruct p as [|d rest]; cbn; [exact I|]. intros a b c.
  destruct (visit (asN c) (rest, m, mn)) as [[p1 m1] mn1]. cbn. intros e.
  destruct (visit (asN e) (p1, m1, mn1)) as [[p2 m2] mn2]. apply IH.
Qed.

Lemma wi_fid S f : forall p m mn, writes_in S (fid_loop f p m mn).
Proof.
  induction f as [|f IH]; intros p m mn; cbn; [exact I|].
  destruct p as [|d rest]; cbn; [exact I|]. intros a.
  destruct (visit (asN a) (rest, m, mn)) as [[p1 m1] mn1]. cbn. intros e.
  destruct (visit (asN e) (p1, m1, mn1)) as [[p2 m2] mn2]. apply IH.
Qed.

Lemma wi_vertex_id S n d : writes_in S (vertex_id_tx n d).
Proof. apply wi_vid. Qed.
Lemma wi_face_id S n d : writes_in S (face_id_tx n d).
Proof. apply wi_fid. Qed.
Lemma wi_edge_id S d : writes_in S (edge_id_tx d).
Proof. unfold edge_id_tx. wi. Qed.

Lemma wi_vertices_merge o l r : writes_in Sdata (vertices_merge o l r).
Proof. unfold vertices_merge. wi. Qed.
Lemma wi_vertices_split lo ro i : writes_in Sdata (vertices_split lo ro i).
Proof. unfold vertices_split. wi. Qed.
Lemma wi_attr_merge k o l r : writes_in Sdata (attr_merge k o l r).
Proof. unfold attr_merge. wi. Qed.
Lemma wi_attr_split k lo ro i : writes_in Sdata (attr_split k lo ro i).
Proof. unfold attr_split. wi. Qed.
Lemma wi_merge_attributes ks c o l r : writes_in Sdata (merge_attributes ks c o l r).
Proof.
  induction ks as [|[k c'] ks IH]; cbn; [exact I|]. apply writes_in_bind; [|auto].
  destruct (cellkind_eqb c c'); [apply wi_attr_merge | exact I].
Qed.
Lemma wi_split_attributes ks c lo ro i : writes_in Sdata (split_attributes ks c lo ro i).
Proof.
  induction ks as [|[k c'] ks IH]; cbn; [exact I|]. apply writes_in_bind; [|auto].
  destruct (cellkind_eqb c c'); [apply wi_attr_split | exact I].
Qed.


(** ** the link cores *)
Ltac run_step Hr :=
  match type of Hr with
  | context [e_dom ?E ?v] => destruct (e_dom E v) eqn:?
  | context [if negb (?a =? ?b) then _ else _] => destruct (N.eqb_spec a b); cbn [negb] in Hr
  | context [if (?a =? ?b) then _ else _] => destruct (N.eqb_spec a b)
  end; cbn [run bind rdB wrB] in Hr.

Ltac run_all Hr := cbn [run bind rdB wrB] in Hr; repeat run_step Hr;
  try (injection Hr as <- <- <-).

Ltac bsimp := repeat (rewrite ?beta_upd_beta, ?unused_upd_other in * by (intros; discriminate)).

Ltac case_eqbs :=
  repeat match goal with
  | |- context [(?a =? ?b) && (?c =? ?d)] =>
      destruct (N.eqb_spec a b); destruct (N.eqb_spec c d); cbn [andb]
  | H : context [(?a =? ?b) && (?c =? ?d)] |- _ =>
      destruct (N.eqb_spec a b); destruct (N.eqb_spec c d); cbn [andb] in H
  end.

Lemma okd_lt n w d : okd n w d -> d < n. Proof. intros (?&?&?); auto. Qed.

(* decide comparisons between numerals *)
Ltac eqb_consts :=
  repeat match goal with
  | |- context [?a =? ?b] =>
      let v := eval vm_compute in (a =? b) in
      match v with true => idtac | false => idtac end;
      change (a =? b) with v
  | H : context [?a =? ?b] |- _ =>
      let v := eval vm_compute in (a =? b) in
      match v with true => idtac | false => idtac end;
      change (a =? b) with v in H
  end; cbn [andb orb negb] in *.

Ltac case_eqb :=
  repeat (match goal with
  | |- context [?a =? ?b] => destruct (N.eqb_spec a b)
  | H : context [?a =? ?b] |- _ => destruct (N.eqb_spec a b)
  end; cbn [andb orb negb] in *).

Ltac three_cases i Hi :=
  let H0 := fresh in
  assert (H0 : i = 0 \/ i = 1 \/ i = 2) by lia; destruct H0 as [->|[->| ->]].

Section WfTac.
Context (n : N) (w : store).
Lemma wf2_at : wf2 n w -> forall d, d < n ->
  beta w 0 d < n /\ beta w 1 d < n /\ beta w 2 d < n /\
  (beta w 1 d <> 0 -> beta w 0 (beta w 1 d) = d) /\
  (beta w 0 d <> 0 -> beta w 1 (beta w 0 d) = d) /\
  (beta w 2 d <> 0 -> beta w 2 (beta w 2 d) = d /\ beta w 2 d <> d) /\
  (unused w d = true -> beta w 0 d = 0 /\ beta w 1 d = 0 /\ beta w 2 d = 0).
Proof.
  intros [W1 W2 W3 W4 W5 W6] d Hd. repeat split; auto; try (apply W2; lia);
    try (apply W5; auto); apply W6; auto; lia.
Qed.
Lemma wf2_null : wf2 n w -> beta w 0 0 = 0 /\ beta w 1 0 = 0 /\ beta w 2 0 = 0.
Proof. intros [W1 _ _ _ _ _]. repeat split; apply W1; lia. Qed.
End WfTac.

(* prove wf2 of an updated store from wf2 of [w]; [pts] = darts at which wf2 w is needed *)
Ltac wf_start W :=
  let N0 := fresh "N0" in pose proof (wf2_null _ _ W) as N0.

Ltac at_pt W x := let F := fresh "F" in
  assert (F := wf2_at _ _ W x); try (specialize (F ltac:(assumption || lia))).

Ltac fwd := repeat (match goal with
  | H : _ /\ _ |- _ => destruct H
  | H : ?P -> ?Q |- _ =>
      match type of P with Prop => idtac end;
      let HP := fresh in assert (HP : P) by congruence; specialize (H HP); clear HP
  end).
Ltac fin := intros; subst; try assumption; try congruence; fwd; try congruence;
  try (split; congruence).

Ltac solve_wf W :=
  wf_start W; constructor;
  [ intros i Hi; bsimp; three_cases i Hi; eqb_consts; case_eqb; fin
  | intros i d Hi Hd; pose proof (in_range _ _ W i d Hi Hd); bsimp; case_eqb; fin;
    try (eapply N.le_lt_trans; [apply N.le_0_l | eassumption])
  | intros d Hd; at_pt W d; bsimp; eqb_consts; case_eqb; fin
  | intros d Hd; at_pt W d; bsimp; eqb_consts; case_eqb; fin
  | intros d Hd; at_pt W d; bsimp; eqb_consts; case_eqb; fin
  | intros d Hd Hu i Hi; at_pt W d; bsimp; three_cases i Hi; eqb_consts; case_eqb; fin ].

Lemma triple_one_link_core E n l r :
  triple E (fun w => wf2 n w /\ okd n w l /\ okd n w r) (one_link_core l r)
         (fun _ => wf2 n) (wf2 n).
Proof.
  intros c w cnt o w' cnt' (W & (Hl0 & Hln & Hlu) & (Hr0 & Hrn & Hru)) Hr.
  unfold one_link_core in Hr. run_all Hr; auto.
  fold (beta w 1 l) in *. fold (beta w 0 r) in *.
  at_pt W l. at_pt W r. solve_wf W.
Qed.

Lemma triple_two_link_core E n l r :
  triple E (fun w => wf2 n w /\ okd n w l /\ okd n w r /\ l <> r) (two_link_core l r)
         (fun _ => wf2 n) (wf2 n).
Proof.
  intros c w cnt o w' cnt' (W & (Hl0 & Hln & Hlu) & (Hr0 & Hrn & Hru) & Hlr) Hr.
  unfold two_link_core in Hr. run_all Hr; auto.
  fold (beta w 2 l) in *. fold (beta w 2 r) in *.
  at_pt W l. at_pt W r. solve_wf W.
Qed.

Lemma wf2_upd_same n w i d : wf2 n w -> wf2 n (upd w (XBeta i d) (VN (beta w i d))).
Proof.
  intros W. eapply wf2_ext; eauto. split; intros.
  - bsimp. case_eqb; subst; auto.
  - bsimp. reflexivity.
Qed.

Lemma triple_one_unlink_core E n l :
  triple E (fun w => wf2 n w /\ okd n w l) (one_unlink_core l) (fun _ => wf2 n) (wf2 n).
Proof.
  intros c w cnt o w' cnt' (W & (Hl0 & Hln & Hlu)) Hr.
  unfold one_unlink_core in Hr. run_all Hr; auto.
  - fold (beta w 1 l) in *. rewrite <- e. now apply wf2_upd_same.
  - fold (beta w 1 l) in *. at_pt W l.
    assert (Hrn : beta w 1 l < n) by (apply (in_range _ _ W); auto; lia).
    at_pt W (beta w 1 l). solve_wf W.
Qed.

Lemma triple_two_unlink_core E n l :
  triple E (fun w => wf2 n w /\ okd n w l) (two_unlink_core l) (fun _ => wf2 n) (wf2 n).
Proof.
  intros c w cnt o w' cnt' (W & (Hl0 & Hln & Hlu)) Hr.
  unfold two_unlink_core in Hr. run_all Hr; auto.
  - fold (beta w 2 l) in *. rewrite <- e. now apply wf2_upd_same.
  - fold (beta w 2 l) in *. at_pt W l.
    assert (Hrn : beta w 2 l < n) by (apply (in_range _ _ W); auto; lia).
    at_pt W (beta w 2 l). solve_wf W.
Qed.


(** ** the public calls *)
Lemma triple_data' {X} E (P Qf : store -> Prop) (p : prog X) :
  writes_in Sdata p -> topo P -> (forall w, P w -> Qf w) -> triple E P p (fun _ => P) Qf.
Proof.
  intros Hw HP HQ. eapply triple_conseq; [| | | apply (triple_data E P p Hw HP)]; auto.
Qed.

Lemma topo_wf2 n : topo (wf2 n).
Proof. intros w w' W T. eapply wf2_ext; eauto. Qed.

Lemma topo_and P Q : topo P -> topo Q -> topo (fun w => P w /\ Q w).
Proof. intros HP HQ w w' [A B] T. split; eauto. Qed.

Lemma topo_okd n d : topo (fun w => okd n w d).
Proof. intros w w' O T. eapply okd_ext; eauto. Qed.

Lemma topo_const (Q : Prop) : topo (fun _ => Q).
Proof. intros w w' q _. exact q. Qed.

Ltac topo_solve := repeat first [ apply topo_okd | apply topo_wf2 | apply topo_const | apply topo_and ].

Ltac wi_solve := first
  [ apply wi_vertex_id | apply wi_edge_id | apply wi_face_id | apply wi_vertices_merge
  | apply wi_vertices_split | apply wi_merge_attributes | apply wi_split_attributes
  | (cbn; intros; exact I) | wi ].

(* one data-only step, keeping the current assertion *)
Tactic Notation "tdata" ident(x) := eapply triple_bind;
  [ apply triple_data'; [ wi_solve | topo_solve | cbn; tauto ] | intros x; cbn beta ].
Tactic Notation "tdata" := eapply triple_bind;
  [ apply triple_data'; [ wi_solve | topo_solve | cbn; tauto ] | intros ?; cbn beta ].
Tactic Notation "tcore" constr(L) := eapply triple_bind; [ apply L | intros ?; cbn beta ].
Ltac tdata_last := apply triple_data; [ wi_solve | topo_solve ].

Definition P2 n l r (w : store) := wf2 n w /\ okd n w l /\ okd n w r.
Definition P2d n l r (w : store) := wf2 n w /\ okd n w l /\ okd n w r /\ l <> r.
Definition P1 n l (w : store) := wf2 n w /\ okd n w l.

Lemma triple_one_sew E n ks l r :
  triple E (P2 n l r) (one_sew n ks l r) (fun _ => wf2 n) (wf2 n).
Proof.
  unfold one_sew, P2. tdata b2l. destruct (b2l =? 0); [apply triple_one_link_core|].
  tdata v1. tdata v2. tcore triple_one_link_core.
  tdata v3. tdata. tdata_last.
Qed.

Lemma triple_one_unsew E n ks l :
  triple E (P1 n l) (one_unsew n ks l) (fun _ => wf2 n) (wf2 n).
Proof.
  unfold one_unsew, P1. tdata b2l. destruct (b2l =? 0); [apply triple_one_unlink_core|].
  tdata r. tdata v1. tcore triple_one_unlink_core.
  tdata v2. tdata v3. tdata. tdata_last.
Qed.

Lemma triple_two_sew E n ks l r :
  triple E (P2d n l r) (two_sew n ks l r) (fun _ => wf2 n) (wf2 n).
Proof.
  unfold two_sew, P2d. tdata b1l. tdata b1r. destruct (b1l =? 0), (b1r =? 0).
  - tcore triple_two_link_core. tdata e. tdata_last.
  - tdata v1. tdata v2. tcore triple_two_link_core.
    tdata v3. tdata e. tdata. tdata. tdata_last.
  - tdata v1. tdata v2. tcore triple_two_link_core.
    tdata v3. tdata e. tdata. tdata. tdata_last.
  - tdata v1. tdata v2. tdata v3. tdata v4. tdata c1. tdata c2. tdata c3. tdata c4.
    eapply triple_bind.
    { instantiate (1 := fun _ w => wf2 n w /\ okd n w l /\ okd n w r /\ l <> r).
      destruct c1 as [a|], c2 as [b|], c3 as [c0|], c4 as [d|];
        try (apply triple_ret'; cbn; tauto).
      destruct (bad_orient a b c0 d).
      - apply triple_fail'; cbn; tauto.
      - apply triple_ret'; cbn; tauto. }
    intros ?. cbn beta.
    tcore triple_two_link_core.
    tdata v5. tdata v6. tdata e. tdata. tdata. tdata. tdata. tdata_last.
Qed.

Lemma triple_two_unsew E n ks l :
  triple E (P1 n l) (two_unsew n ks l) (fun _ => wf2 n) (wf2 n).
Proof.
  unfold two_unsew, P1. tdata r. tdata b1l. tdata b1r. destruct (b1l =? 0), (b1r =? 0).
  - tdata e. tcore triple_two_unlink_core. tdata_last.
  - tdata e. tdata v1. tcore triple_two_unlink_core. tdata. tdata v2. tdata v3. tdata. tdata_last.
  - tdata e. tdata v1. tcore triple_two_unlink_core. tdata. tdata v2. tdata v3. tdata. tdata_last.
  - tdata e. tdata v1. tdata v2. tcore triple_two_unlink_core. tdata.
    tdata v3. tdata v4. tdata v5. tdata v6. tdata. tdata. tdata. tdata_last.
Qed.


Lemma wf2_set_unused n w d b :
  wf2 n w -> (b = true -> is_free2 w d = true) -> wf2 n (upd w (XUnused d) (VB b)).
Proof.
  intros [W1 W2 W3 W4 W5 W6] Hb.
  assert (Hbeta : forall i e, beta (upd w (XUnused d) (VB b)) i e = beta w i e)
    by (intros; apply beta_upd_other; intros; discriminate).
  constructor; intros; rewrite ?Hbeta in *; auto.
  rewrite unused_upd_unused in *. destruct (N.eqb_spec d0 d) as [->|Hne]; [|eauto].
  specialize (Hb H1). unfold is_free2 in Hb.
  apply andb_prop in Hb as [Hb H2']. apply andb_prop in Hb as [H0' H1'].
  apply N.eqb_eq in H0', H1', H2'.
  assert (Hi : i = 0 \/ i = 1 \/ i = 2) by lia. destruct Hi as [->|[->| ->]]; auto.
Qed.

Lemma triple_call2 E n ks c :
  triple E (fun w => wf2 n w /\ pre_call n w c) (call2_prog n ks c) (fun _ => wf2 n) (wf2 n).
Proof.
  destruct c; cbn [call2_prog pre_call].
  - apply triple_one_link_core.
  - eapply triple_conseq; [ | | | apply (triple_two_link_core E n l r) ]; cbn; tauto.
  - apply triple_one_unlink_core.
  - apply triple_two_unlink_core.
  - apply triple_one_sew.
  - eapply triple_conseq; [ | | | apply (triple_two_sew E n ks l r) ]; unfold P2d; cbn; tauto.
  - apply triple_one_unsew.
  - apply triple_two_unsew.
  - eapply triple_conseq; [ | | | apply (triple_data E (wf2 n)); [wi | topo_solve] ]; cbn; tauto.
  - eapply triple_conseq; [ | | | apply (triple_data E (wf2 n)); [wi | topo_solve] ]; cbn; tauto.
  - eapply triple_conseq; [ | | | apply (triple_data E (wf2 n)); [wi | topo_solve] ]; cbn; tauto.
  - eapply triple_conseq; [ | | | apply (triple_data E (wf2 n)); [wi | topo_solve] ]; cbn; tauto.
  - intros c w cnt o w' cnt' (W & Hd0 & Hdn & Hfree) Hr.
    cbn [run bind rdU wrU] in Hr. repeat run_step Hr; injection Hr as <- <- <-; auto.
    apply wf2_set_unused; auto.
Qed.

Lemma block_wf E n ks : forall cs c w cnt o w' cnt',
  wf2 n w -> block_pre E n ks cs c w cnt ->
  run E (block_prog n ks cs) c w cnt = (o, w', cnt') ->
  match o with Done _ | Failed _ => wf2 n w' | _ => True end.
Proof.
  induction cs as [|call rest IH]; intros c w cnt o w' cnt' W Hpre Hr.
  - cbn in Hr. injection Hr as <- <- <-. exact W.
  - cbn [block_prog] in Hr. rewrite run_bind in Hr. destruct Hpre as [Hp Hrest].
    destruct (run E (call2_prog n ks call) c w cnt) as [[[x|e| |q] w1] cnt1] eqn:Ec;
      pose proof (triple_call2 E n ks call c w cnt _ _ _ (conj W Hp) Ec) as W1; cbn in W1.
    + eapply IH; eauto.
    + injection Hr as <- <- <-. exact W1.
    + injection Hr as <- <- <-. exact I.
    + injection Hr as <- <- <-. exact I.
Qed.

(** ** whole-map steps *)
Lemma dom2_mono n k ks v : dom2 n ks v = true -> dom2 (n + k) ks v = true.
Proof.
  destruct v; cbn; rewrite ?andb_true_iff, ?N.ltb_lt, ?N.leb_le; intuition lia.
Qed.

Lemma fresh_beta st i d : fresh_above st -> nd st <= d -> beta (mem st) i d = 0.
Proof.
  intros Hf Hd. unfold beta. rewrite Hf; [reflexivity|]. cbn.
  apply andb_false_iff. right. apply N.ltb_ge. exact Hd.
Qed.

Lemma fresh_unused st d : fresh_above st -> nd st <= d -> unused (mem st) d = false.
Proof.
  intros Hf Hd. unfold unused. rewrite Hf; [reflexivity|]. cbn. apply N.ltb_ge. exact Hd.
Qed.

Lemma inv2_add st k : inv2 st -> inv2 (snd (add_free_darts st k)).
Proof.
  intros (Hpos & [W1 W2 W3 W4 W5 W6] & Hf). unfold add_free_darts; cbn [snd]. unfold inv2; cbn [nd mem aks].
  split; [lia|]. split.
  - assert (B : forall i d, nd st <= d -> beta (mem st) i d = 0) by (intros; now apply fresh_beta).
    assert (U : forall d, nd st <= d -> unused (mem st) d = false) by (intros; now apply fresh_unused).
    constructor; auto.
    + intros i d Hi Hd. destruct (N.lt_ge_cases d (nd st)) as [Hlt|Hge].
      * specialize (W2 i d Hi Hlt). lia.
      * rewrite B by exact Hge. lia.
    + intros d Hd Hne. destruct (N.lt_ge_cases d (nd st)); [auto|]. rewrite B in Hne by auto. congruence.
    + intros d Hd Hne. destruct (N.lt_ge_cases d (nd st)); [auto|]. rewrite B in Hne by auto. congruence.
    + intros d Hd Hne. destruct (N.lt_ge_cases d (nd st)); [auto|]. rewrite B in Hne by auto. congruence.
    + intros d Hd Hu. destruct (N.lt_ge_cases d (nd st)); [auto|]. rewrite U in Hu by auto. discriminate.
  - intros v Hv. apply Hf. destruct (dom2 (nd st) (aks st) v) eqn:Ed; [|reflexivity].
    apply dom2_mono with (k := k) in Ed. cbn in Hv. congruence.
Qed.

Lemma find_unused_lt s : forall count from d,
  find_unused s from count = Some d -> d < from + N.of_nat count /\ unused s d = true.
Proof.
  induction count as [|c IH]; intros from d; cbn [find_unused]; [discriminate|].
  destruct (unused s from) eqn:Eu.
  - intros [= <-]. split; [lia|auto].
  - intros Hd. apply IH in Hd. split; [lia|tauto].
Qed.

Lemma fresh_upd st v x :
  fresh_above st -> dom2 (nd st) (aks st) v = true -> fresh_above (with_mem st (upd (mem st) v x)).
Proof.
  intros Hf Hv u Hu. cbn in *. rewrite upd_other; [auto|]. intros ->. congruence.
Qed.

Lemma inv2_insert st : inv2 st -> inv2 (snd (insert_free_dart st)).
Proof.
  intros Hinv. unfold insert_free_dart.
  destruct (find_unused (mem st) 0 (N.to_nat (nd st))) as [d|] eqn:Ef; [|now apply inv2_add].
  apply find_unused_lt in Ef as [Hd Hu]. rewrite N2Nat.id in Hd. cbn in Hd.
  destruct Hinv as (Hpos & W & Hf). cbn [snd]. split; [exact Hpos|]. split.
  - cbn [nd mem with_mem]. apply wf2_set_unused; auto. discriminate.
  - apply fresh_upd; auto. cbn. now apply N.ltb_lt.
Qed.

Lemma inv2_remove st d : inv2 st -> inv2 (snd (remove_free_dart st d)).
Proof.
  intros Hinv. unfold remove_free_dart.
  destruct (N.ltb_spec d (nd st)) as [Hd|Hd]; cbn [negb]; [|exact Hinv].
  destruct (is_free2 (mem st) d) eqn:Efree; cbn [negb]; [|exact Hinv].
  assert (Hinv' : inv2 (with_mem st (upd (mem st) (XUnused d) (VB true)))).
  { destruct Hinv as (Hpos & W & Hf). split; [exact Hpos|]. split.
    - cbn [nd mem with_mem]. apply wf2_set_unused; auto.
    - apply fresh_upd; auto. cbn. now apply N.ltb_lt. }
  destruct (unused (mem st) d); exact Hinv'.
Qed.

Lemma inv2_atomically st fail_at (p : prog unit) r m :
  inv2 st ->
  (forall c w cnt o w' cnt', wf2 (nd st) w -> w = mem st -> cnt = 0 -> c = mem st ->
     run (env2 st fail_at) p c w cnt = (o, w', cnt') ->
     match o with Done _ | Failed _ => wf2 (nd st) w' | _ => True end) ->
  atomically (env2 st fail_at) p (mem st) = (r, m) ->
  inv2 (with_mem st m).
Proof.
  intros (Hpos & W & Hf) Hp. unfold atomically.
  destruct (run (env2 st fail_at) p (mem st) (mem st) 0) as [[[x|e| |q] w1] cnt1] eqn:Er;
    intros [= <- <-]; try (split; [exact Hpos|]; split; [exact W|exact Hf]).
  split; [exact Hpos|]. split.
  - exact (Hp _ _ _ _ _ _ W eq_refl eq_refl eq_refl Er).
  - intros v Hv. cbn in *. rewrite (run_dom _ _ _ _ _ _ _ _ Er v Hv). auto.
Qed.

Lemma inv2_step fail_at st o : inv2 st -> pre_op fail_at st o -> inv2 (snd (step2 fail_at st o)).
Proof.
  intros Hinv Hpre. destruct o as [|k| |d|c|cs]; cbn [step2].
  - pose proof (inv2_add st 1 Hinv). destruct (add_free_darts st 1); auto.
  - pose proof (inv2_add st k Hinv). destruct (add_free_darts st k); auto.
  - pose proof (inv2_insert st Hinv). destruct (insert_free_dart st); auto.
  - pose proof (inv2_remove st d Hinv). destruct (remove_free_dart st d) as [[x|e| |q] st']; auto.
  - destruct (atomically (env2 st fail_at) (call2_prog (nd st) (aks st) c) (mem st)) as [r m] eqn:Ea.
    assert (Hi : inv2 (with_mem st m)).
    { eapply inv2_atomically; eauto. intros c0 w cnt o w' cnt' W -> -> -> Hr.
      pose proof (triple_call2 _ _ _ _ _ _ _ _ _ _ (conj W Hpre) Hr) as Hq.
      destruct o; auto. }
    destruct r; cbn [snd]; auto.
  - destruct (atomically (env2 st fail_at) (block_prog (nd st) (aks st) cs) (mem st)) as [r m] eqn:Ea.
    assert (Hi : inv2 (with_mem st m)).
    { eapply inv2_atomically; eauto. intros c0 w cnt o w' cnt' W -> -> -> Hr.
      eapply block_wf; eauto. }
    destruct r; cbn [snd]; auto.
Qed.

Lemma inv2_empty n ks : inv2 (empty2 n ks).
Proof.
  unfold inv2, empty2; cbn [nd mem aks]. split; [lia|]. split.
  - constructor; intros; unfold beta, unused, blank in *; cbn in *; try reflexivity; try lia; try congruence.
  - intros v _. reflexivity.
Qed.

Theorem history_inv2 fail_at : forall ops st,
  inv2 st -> hist_pre fail_at st ops -> inv2 (exec2 fail_at st ops).
Proof.
  induction ops as [|o rest IH]; intros st Hinv Hpre; cbn [exec2]; [exact Hinv|].
  destruct Hpre as [Ho Hrest]. apply IH; [now apply inv2_step | exact Hrest].
Qed.

End Proofs.
