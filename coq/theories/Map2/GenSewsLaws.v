(** * The four 2D sew / unsew programs used by the model and by every theorem are, verbatim, the programs that
    tools/tr_sews.py generates from dim2/sews/one.rs and two.rs on every run (hand-written file, not generated). *)
From Coq Require Import List NArith Bool.
From HC Require Import Stm.Prog Map2.Ops2 Map2.GenSews.
Open Scope N_scope.

(* syntactic comparison first (fast, also when it fails): after unfolding the two constants the programs must be the
   same term up to the names of bound variables; [reflexivity] then only re-checks identical terms *)
Ltac syn_eq := lazymatch goal with |- ?a = ?b => first [constr_eq a b | fail 1 "the generated program differs from the model"] end.

Section Laws.
Context `{Sig}.
Lemma gen_one_sew_ok n ks l r : gen_one_sew n ks l r = one_sew n ks l r. Proof. cbv beta zeta delta [gen_one_sew one_sew]. syn_eq; reflexivity. Qed.
Lemma gen_one_unsew_ok n ks l : gen_one_unsew n ks l = one_unsew n ks l. Proof. cbv beta zeta delta [gen_one_unsew one_unsew]. syn_eq; reflexivity. Qed.
Lemma gen_two_sew_ok n ks l r : gen_two_sew n ks l r = two_sew n ks l r. Proof. cbv beta zeta delta [gen_two_sew two_sew]. syn_eq; reflexivity. Qed.
Lemma gen_two_unsew_ok n ks l : gen_two_unsew n ks l = two_unsew n ks l. Proof. cbv beta zeta delta [gen_two_unsew two_unsew]. syn_eq; reflexivity. Qed.

Theorem sews_are_the_source :
  (forall n ks l r, gen_one_sew n ks l r = one_sew n ks l r) /\ (forall n ks l, gen_one_unsew n ks l = one_unsew n ks l) /\
  (forall n ks l r, gen_two_sew n ks l r = two_sew n ks l r) /\ (forall n ks l, gen_two_unsew n ks l = two_unsew n ks l).
Proof.
  repeat split; intros; first [apply gen_one_sew_ok | apply gen_one_unsew_ok | apply gen_two_sew_ok | apply gen_two_unsew_ok].
Qed.
End Laws.
