(** * C15, edge collapse towards an end point: the half-cell routine as the driver calls it on the RIGHT side of an
    interior edge, [collapse_halfcell_to_base b1r r b0r] -- the triangle is r -> b1r -> b0r -> r, so the dart in the
    "previous edge" slot is in fact the NEXT side of the triangle and the one in the "next edge" slot the previous one.
    Mirrored variant of [halfcell_to_base_boundary] (CollapseTopo.v): when the dart in the third slot is on the
    boundary the triangle disappears entirely, the 2-neighbour of the dart in the first slot becomes a boundary dart,
    nothing else changes.  On every store. *)
From Coq Require Import List NArith Bool Lia.
From HC Require Import Base.Closure Stm.Prog Stm.ProgFacts Stm.Atomic Map2.Ops2 Map2.State2 Map2.Wf2 Map2.Wf2Proofs
  Map2.Orbit2 Map2.SewTopo Map2.SewData Map2.Kern2 Map2.SwapTopo Map2.FanTopo Map2.CollapseTopo.
Import ListNotations.
Open Scope N_scope.
Arguments N.eqb : simpl never.

Section CollapseMirror.
Context `{Sig}.

Ltac simpl_ne := repeat match goal with
  | Hne : ?x <> ?y |- context [?x =? ?y] => rewrite (proj2 (N.eqb_neq x y) Hne)
  | Hne : ?y <> ?x |- context [?x =? ?y] => rewrite (proj2 (N.eqb_neq x y) (not_eq_sym Hne))
  end; rewrite ?N.eqb_refl; cbn [andb orb negb].
Ltac consts := change (1 =? 0) with false; change (0 =? 1) with false; change (1 =? 1) with true;
  change (0 =? 0) with true; change (2 =? 0) with false; change (2 =? 1) with false; change (0 =? 2) with false;
  change (1 =? 2) with false; change (2 =? 2) with true; cbn [andb].
Ltac lk := repeat (match goal with
  | Hx : forall i d, beta ?s i d = _ |- context [beta ?s _ _] => rewrite Hx
  end; consts; simpl_ne).
Ltac stepU L Hr F U :=
  apply L in Hr; let wk := fresh "wk" in let ck := fresh "ck" in
  destruct Hr as (wk & ck & [F U] & Hr);
  unfold img_eq, fl_eq, p_link1, p_link2, p_unlink1, p_unlink2, p_remove in F, U.


Theorem halfcell_to_base_boundary_mirror E n ks pe e ne c w cnt w' cnt' :
  let x := beta w 2 pe in
  NoDup [pe; e; ne; x] -> pe <> 0 -> e <> 0 -> ne <> 0 ->
  beta w 1 e = pe -> beta w 1 pe = ne -> beta w 1 ne = e ->
  beta w 2 ne = 0 -> beta w 2 e = 0 -> (x <> 0 -> beta w 2 x = pe) ->
  run E (collapse_halfcell_to_base n ks pe e ne) c w cnt = (Done tt, w', cnt') ->
  (forall i y, beta w' i y =
     if (y =? pe) || (y =? e) || (y =? ne) then (if i <? 3 then 0 else beta w i y)
     else if (i =? 2) && (y =? x) && negb (x =? 0) then 0
     else beta w i y) /\
  (forall y, unused w' y = if (y =? pe) || (y =? e) || (y =? ne) then true else unused w y).
Proof.
  intros x. remember (beta w 2 pe) as x' eqn:Ex. subst x. rename x' into x.
  intros Hnd P0 E0 N0 B1 B2 B3 Zn Ze Hx Hr.
  assert (D : pe <> e /\ pe <> ne /\ pe <> x /\ e <> ne /\ e <> x /\ ne <> x).
  { repeat match goal with Hq : NoDup (_ :: _) |- _ => inversion Hq; clear Hq; subst end.
    cbn [In] in *. repeat split; intros Q; intuition congruence. }
  destruct D as (Q1 & Q2 & Q3 & Q4 & Q5 & Q6).
  unfold collapse_halfcell_to_base in Hr.
  apply rd_stepY' in Hr. rewrite Zn in Hr.
  apply rd_stepY' in Hr. apply rd_stepY' in Hr.
  stepU (@unsew1_stepU _ unit) Hr F1 U1. rewrite B1 in F1.
  stepU (@unsew1_stepU _ unit) Hr F2 U2.
  assert (V2 : beta wk 1 pe = ne) by (lk; auto). rewrite V2 in F2.
  stepU (@unsew1_stepU _ unit) Hr F3 U3.
  assert (V3 : beta wk0 1 ne = e) by (lk; auto). rewrite V3 in F3.
  change (0 =? 0) with true in Hr. cbn [negb] in Hr.
  apply rd_stepY' in Hr.
  assert (R : beta wk1 2 pe = x) by (lk; auto). rewrite R in Hr.
  destruct (N.eqb_spec x 0) as [Zx|Nx]; cbn [negb] in Hr.
  - (* pe itself on the boundary *)
    cbn [bind run] in Hr.
    stepU (@remove_stepU _ unit) Hr F5 U5. stepU (@remove_stepU _ unit) Hr F6 U6.
    assert (Hl : step_to w' (beta wk3) (p_remove (unused wk3) ne)).
    { unfold remove_dart_tx in Hr. cbn [run bind rdU wrU] in Hr. destruct (e_dom E (XUnused ne)); [|discriminate Hr]. cbn [run] in Hr.
      injection Hr as <- <-. split.
      - intros i d. unfold beta. rewrite upd_other by discriminate. reflexivity.
      - intros d. unfold p_remove. apply unused_upd_unused. }
    destruct Hl as [F7 U7]. unfold img_eq, fl_eq, p_remove in F7, U7.
    split.
    + intros i y. rewrite andb_false_r.
      destruct (N.eqb_spec i 0) as [->|Ni0]; [|destruct (N.eqb_spec i 1) as [->|Ni1]; [|destruct (N.eqb_spec i 2) as [->|Ni2]]].
      * change (0 <? 3) with true. lk.
        destruct (N.eqb_spec y pe) as [->|M1]; [simpl_ne; reflexivity|].
        destruct (N.eqb_spec y e) as [->|M2]; [simpl_ne; reflexivity|].
        destruct (N.eqb_spec y ne) as [->|M3]; [simpl_ne; reflexivity|]. simpl_ne. reflexivity.
      * change (1 <? 3) with true. lk.
        destruct (N.eqb_spec y pe) as [->|M1]; [simpl_ne; reflexivity|].
        destruct (N.eqb_spec y e) as [->|M2]; [simpl_ne; reflexivity|].
        destruct (N.eqb_spec y ne) as [->|M3]; [simpl_ne; reflexivity|]. simpl_ne. reflexivity.
      * change (2 <? 3) with true. lk.
        destruct (N.eqb_spec y pe) as [->|M1]; [simpl_ne; rewrite <- Ex, Zx; reflexivity|].
        destruct (N.eqb_spec y e) as [->|M2]; [simpl_ne; exact Ze|].
        destruct (N.eqb_spec y ne) as [->|M3]; [simpl_ne; exact Zn|]. simpl_ne. reflexivity.
      * assert (Hi : (i <? 3) = false) by (clear - Ni0 Ni1 Ni2; apply N.ltb_ge; lia). rewrite Hi.
        rewrite F7, F6, F5, F3, F2, F1.
        rewrite (proj2 (N.eqb_neq i 0) Ni0), (proj2 (N.eqb_neq i 1) Ni1). cbn [andb].
        destruct ((y =? pe) || (y =? e) || (y =? ne)); reflexivity.
    + intros y. rewrite U7, U6, U5, U3, U2, U1.
      destruct (N.eqb_spec y pe) as [->|M1]; [simpl_ne; reflexivity|].
      destruct (N.eqb_spec y e) as [->|M2]; [simpl_ne; reflexivity|].
      destruct (N.eqb_spec y ne) as [->|M3]; [simpl_ne; reflexivity|]. simpl_ne. reflexivity.
  - (* pe glued to x: the 2-unsew frees both *)
    specialize (Hx Nx).
    stepU (@unsew2_stepU _ unit) Hr F4 U4. rewrite R in F4.
    stepU (@remove_stepU _ unit) Hr F5 U5. stepU (@remove_stepU _ unit) Hr F6 U6.
    assert (Hl : step_to w' (beta wk4) (p_remove (unused wk4) ne)).
    { unfold remove_dart_tx in Hr. cbn [run bind rdU wrU] in Hr. destruct (e_dom E (XUnused ne)); [|discriminate Hr]. cbn [run] in Hr.
      injection Hr as <- <-. split.
      - intros i d. unfold beta. rewrite upd_other by discriminate. reflexivity.
      - intros d. unfold p_remove. apply unused_upd_unused. }
    destruct Hl as [F7 U7]. unfold img_eq, fl_eq, p_remove in F7, U7.
    cbn [negb].
    split.
    + intros i y. rewrite andb_true_r.
      destruct (N.eqb_spec i 0) as [->|Ni0]; [|destruct (N.eqb_spec i 1) as [->|Ni1]; [|destruct (N.eqb_spec i 2) as [->|Ni2]]].
      * change (0 <? 3) with true. change (0 =? 2) with false. lk.
        destruct (N.eqb_spec y pe) as [->|M1]; [simpl_ne; reflexivity|].
        destruct (N.eqb_spec y e) as [->|M2]; [simpl_ne; reflexivity|].
        destruct (N.eqb_spec y ne) as [->|M3]; [simpl_ne; reflexivity|]. simpl_ne. reflexivity.
      * change (1 <? 3) with true. change (1 =? 2) with false. lk.
        destruct (N.eqb_spec y pe) as [->|M1]; [simpl_ne; reflexivity|].
        destruct (N.eqb_spec y e) as [->|M2]; [simpl_ne; reflexivity|].
        destruct (N.eqb_spec y ne) as [->|M3]; [simpl_ne; reflexivity|]. simpl_ne. reflexivity.
      * change (2 <? 3) with true. change (2 =? 2) with true. lk.
        destruct (N.eqb_spec y pe) as [->|M1]; [simpl_ne; reflexivity|].
        destruct (N.eqb_spec y e) as [->|M2]; [simpl_ne; exact Ze|].
        destruct (N.eqb_spec y ne) as [->|M3]; [simpl_ne; exact Zn|].
        destruct (N.eqb_spec y x) as [->|M4]; [simpl_ne; reflexivity|]. simpl_ne. reflexivity.
      * assert (Hi : (i <? 3) = false) by (clear - Ni0 Ni1 Ni2; apply N.ltb_ge; lia). rewrite Hi.
        rewrite F7, F6, F5, F4, F3, F2, F1.
        rewrite (proj2 (N.eqb_neq i 0) Ni0), (proj2 (N.eqb_neq i 1) Ni1), (proj2 (N.eqb_neq i 2) Ni2). cbn [andb].
        destruct ((y =? pe) || (y =? e) || (y =? ne)); reflexivity.
    + intros y. rewrite U7, U6, U5, U4, U3, U2, U1.
      destruct (N.eqb_spec y pe) as [->|M1]; [simpl_ne; reflexivity|].
      destruct (N.eqb_spec y e) as [->|M2]; [simpl_ne; reflexivity|].
      destruct (N.eqb_spec y ne) as [->|M3]; [simpl_ne; reflexivity|]. simpl_ne. reflexivity.
Qed.
(** ... and the map stays well formed (premises on the map before the call only) *)
Theorem halfcell_to_base_boundary_mirror_wf E n ks pe e ne c w cnt w' cnt' :
  wf2 n w -> pe < n -> pe <> e -> pe <> ne -> e <> ne -> e <> 0 -> ne <> 0 ->
  beta w 1 e = pe -> beta w 1 pe = ne -> beta w 1 ne = e ->
  beta w 2 ne = 0 -> beta w 2 e = 0 ->
  run E (collapse_halfcell_to_base n ks pe e ne) c w cnt = (Done tt, w', cnt') ->
  wf2 n w'.
Proof.
  intros W Hpn Q1 Q2 Q4 E0 N0 B1 B2 B3 Zn Ze Hr.
  pose proof W as [W1 W2 W3 W4 W5 W6].
  assert (P0 : pe <> 0) by (intros ->; rewrite (W1 1 eq_refl) in B2; congruence).
  assert (Hnn : ne < n) by (rewrite <- B2; apply W2; [reflexivity|exact Hpn]).
  assert (Hen : e < n) by (rewrite <- B3; apply W2; [reflexivity|exact Hnn]).
  assert (P0e : beta w 0 e = ne) by (rewrite <- B3; apply W3; [exact Hnn|rewrite B3; exact E0]).
  assert (P0n : beta w 0 ne = pe) by (rewrite <- B2; apply W3; [exact Hpn|rewrite B2; exact N0]).
  assert (P0p : beta w 0 pe = e) by (rewrite <- B1; apply W3; [exact Hen|rewrite B1; exact P0]).
  remember (beta w 2 pe) as x eqn:Ex.
  assert (Gx : x <> 0 -> beta w 2 x = pe /\ x <> pe) by (intros Nx; rewrite Ex; apply W5; [exact Hpn|rewrite <- Ex; exact Nx]).
  assert (Xe : x <> 0 -> x <> e) by (intros Nx ->; destruct (Gx Nx) as [G _]; rewrite Ze in G; congruence).
  assert (Xn : x <> 0 -> x <> ne) by (intros Nx ->; destruct (Gx Nx) as [G _]; rewrite Zn in G; congruence).
  assert (Hnd : NoDup [pe; e; ne; x]).
  { destruct (N.eq_dec x 0) as [Zx|Nx].
    - rewrite Zx. repeat constructor; cbn [In]; intuition congruence.
    - pose proof (Gx Nx) as [_ Xp]. specialize (Xe Nx). specialize (Xn Nx).
      repeat constructor; cbn [In]; intuition congruence. }
  assert (T := halfcell_to_base_boundary_mirror E n ks pe e ne c w cnt w' cnt').
  cbv zeta in T. rewrite <- Ex in T.
  destruct (T Hnd P0 E0 N0 B1 B2 B3 Zn Ze (fun Nx => proj1 (Gx Nx)) Hr) as (Hb0 & Hu0). clear T.
  set (three := fun y => (y =? pe) || (y =? e) || (y =? ne)).
  set (cut := fun i y => (i =? 2) && (y =? x) && negb (x =? 0)).
  assert (Hb : forall i y, beta w' i y = if three y then (if i <? 3 then 0 else beta w i y) else if cut i y then 0 else beta w i y)
    by (intros i y; rewrite Hb0; reflexivity).
  assert (Hu : forall y, unused w' y = if three y then true else unused w y) by (intros y; rewrite Hu0; reflexivity).
  clear Hb0 Hu0.
  assert (Three : forall y, three y = true <-> (y = pe \/ y = e \/ y = ne)).
  { intros y. unfold three. rewrite !orb_true_iff, !N.eqb_eq. tauto. }
  assert (Cut : forall i y, cut i y = true <-> (i = 2 /\ y = x /\ x <> 0)).
  { intros i y. unfold cut. rewrite !andb_true_iff, negb_true_iff, !N.eqb_eq, N.eqb_neq. tauto. }
  assert (In1 : forall y, three y = true -> three (beta w 1 y) = true).
  { intros y Hy. apply Three in Hy. apply Three. destruct Hy as [->|[->| ->]]; rewrite ?B1, ?B2, ?B3; tauto. }
  assert (In0 : forall y, three y = true -> three (beta w 0 y) = true).
  { intros y Hy. apply Three in Hy. apply Three. destruct Hy as [->|[->| ->]]; rewrite ?P0e, ?P0n, ?P0p; tauto. }
  assert (Cut1 : forall y, cut 1 y = false) by reflexivity.
  assert (Cut0 : forall y, cut 0 y = false) by reflexivity.
  constructor.
  - intros i Hi. rewrite Hb.
    assert (Q : three 0 = false) by (destruct (three 0) eqn:Q; [apply Three in Q; intuition congruence|reflexivity]).
    rewrite Q. destruct (cut i 0); [reflexivity|apply W1; exact Hi].
  - intros i y Hi Hy. rewrite Hb.
    assert (Zn' : 0 < n) by (apply (N.le_lt_trans _ pe); [apply N.le_0_l|exact Hpn]).
    destruct (three y).
    + destruct (i <? 3); [exact Zn'|apply W2; assumption].
    + destruct (cut i y); [exact Zn'|apply W2; assumption].
  - intros y Hy Hnz. rewrite Hb in Hnz. destruct (three y) eqn:Sy; [change (1 <? 3) with true in Hnz; congruence|].
    rewrite Cut1 in Hnz. rewrite (Hb 1 y), Sy, Cut1. rewrite Hb, Cut0.
    destruct (three (beta w 1 y)) eqn:Sz.
    + apply In0 in Sz. rewrite (W3 y Hy Hnz) in Sz. congruence.
    + apply W3; assumption.
  - intros y Hy Hnz. rewrite Hb in Hnz. destruct (three y) eqn:Sy; [change (0 <? 3) with true in Hnz; congruence|].
    rewrite Cut0 in Hnz. rewrite (Hb 0 y), Sy, Cut0. rewrite Hb, Cut1.
    destruct (three (beta w 0 y)) eqn:Sz.
    + apply In1 in Sz. rewrite (W4 y Hy Hnz) in Sz. congruence.
    + apply W4; assumption.
  - intros y Hy Hnz. rewrite Hb in Hnz. destruct (three y) eqn:Sy; [change (2 <? 3) with true in Hnz; congruence|].
    destruct (cut 2 y) eqn:Cy; [congruence|].
    rewrite (Hb 2 y), Sy, Cy.
    destruct (W5 y Hy Hnz) as (I2 & I3).
    remember (beta w 2 y) as z eqn:Ez.
    assert (Sz : three z = false).
    { destruct (three z) eqn:Q; [|reflexivity]. apply Three in Q. exfalso. destruct Q as [->|[->| ->]].
      - rewrite <- Ex in I2.
        assert (C : cut 2 y = true) by (apply Cut; repeat split; [congruence|intros Zx; rewrite Zx in I2; rewrite <- I2, (W1 2 eq_refl) in Ez; congruence]).
        congruence.
      - rewrite Ze in I2. rewrite <- I2, (W1 2 eq_refl) in Ez. congruence.
      - rewrite Zn in I2. rewrite <- I2, (W1 2 eq_refl) in Ez. congruence. }
    assert (Cz : cut 2 z = false).
    { destruct (cut 2 z) eqn:Q; [|reflexivity]. apply Cut in Q. destruct Q as (_ & -> & Nx). exfalso.
      destruct (Gx Nx) as [G _]. rewrite G in I2.
      assert (C : three y = true) by (apply Three; left; congruence). congruence. }
    rewrite Hb, Sz, Cz. split; assumption.
  - intros y Hy Hux i Hi. rewrite Hu in Hux. rewrite Hb. destruct (three y).
    + assert (Q : (i <? 3) = true) by (apply N.ltb_lt; exact Hi). rewrite Q. reflexivity.
    + destruct (cut i y); [reflexivity|]. apply (W6 y Hy Hux); exact Hi.
Qed.

(** the same when the dart in the third slot is glued to q: e, ne and q disappear, the first-slot dart takes the place of q *)
Theorem halfcell_to_base_inner_mirror E n ks pe e ne c w cnt w' cnt' :
  let q := beta w 2 ne in let p0 := beta w 0 q in let p1 := beta w 1 q in
  NoDup [pe; e; ne; q; p0; p1] -> ~ In 0 [pe; e; ne; q; p0; p1] ->
  beta w 1 e = pe -> beta w 1 pe = ne -> beta w 1 ne = e -> beta w 1 p0 = q -> beta w 2 e = 0 ->
  run E (collapse_halfcell_to_base n ks pe e ne) c w cnt = (Done tt, w', cnt') ->
  (forall i y, beta w' i y =
     if (y =? e) || (y =? ne) || (y =? q) then (if i <? 3 then 0 else beta w i y)
     else if (i =? 1) && (y =? pe) then p1 else if (i =? 0) && (y =? pe) then p0
     else if (i =? 1) && (y =? p0) then pe else if (i =? 0) && (y =? p1) then pe
     else beta w i y) /\
  (forall y, unused w' y = if (y =? e) || (y =? ne) || (y =? q) then true else unused w y).
Proof.
  intros q p0 p1.
  remember (beta w 2 ne) as q' eqn:Eq. subst q. rename q' into q.
  remember (beta w 0 q) as p0' eqn:Ep0. subst p0. rename p0' into p0.
  remember (beta w 1 q) as p1' eqn:Ep1. subst p1. rename p1' into p1.
  intros Hnd Hz B1 B2 B3 B4 Ze Hr.
  assert (Z : pe <> 0 /\ e <> 0 /\ ne <> 0 /\ q <> 0 /\ p0 <> 0 /\ p1 <> 0).
  { cbn [In] in Hz. repeat split; intros Q; apply Hz; rewrite Q; tauto. }
  destruct Z as (Z1 & Z2 & Z3 & Z4 & Z5 & Z6).
  assert (D : (pe <> e /\ pe <> ne /\ pe <> q /\ pe <> p0 /\ pe <> p1) /\ (e <> ne /\ e <> q /\ e <> p0 /\ e <> p1) /\
              (ne <> q /\ ne <> p0 /\ ne <> p1) /\ (q <> p0 /\ q <> p1) /\ p0 <> p1).
  { repeat match goal with Hq : NoDup (_ :: _) |- _ => inversion Hq; clear Hq; subst end.
    cbn [In] in *. repeat split; intros Q; intuition congruence. }
  destruct D as ((Q1 & Q2 & Q3 & Q4 & Q5) & (Q6 & Q7 & Q8 & Q9) & (Q10 & Q11 & Q12) & (Q13 & Q14) & Q15).
  clear Hnd Hz.
  unfold collapse_halfcell_to_base in Hr.
  apply rd_stepY' in Hr. rewrite <- Eq in Hr.
  apply rd_stepY' in Hr. rewrite <- Ep0 in Hr. apply rd_stepY' in Hr. rewrite <- Ep1 in Hr.
  stepU (@unsew1_stepU _ unit) Hr F1 U1. rewrite B1 in F1.
  stepU (@unsew1_stepU _ unit) Hr F2 U2.
  assert (V2 : beta wk 1 pe = ne) by (lk; auto). rewrite V2 in F2.
  stepU (@unsew1_stepU _ unit) Hr F3 U3.
  assert (V3 : beta wk0 1 ne = e) by (lk; auto). rewrite V3 in F3.
  rewrite (proj2 (N.eqb_neq q 0) Z4) in Hr. cbn [negb] in Hr.
  stepU (@unsew1_stepU _ unit) Hr F4 U4.
  assert (V4 : beta wk1 1 q = p1) by (lk; auto). rewrite V4 in F4.
  stepU (@unsew1_stepU _ unit) Hr F5 U5.
  assert (V5 : beta wk2 1 p0 = q) by (lk; auto). rewrite V5 in F5.
  stepU (@unlink2c_stepU _ unit) Hr F6 U6.
  assert (V6 : beta wk3 2 ne = q) by (lk; auto). rewrite V6 in F6.
  stepU (@remove_stepU _ unit) Hr F7 U7. stepU (@remove_stepU _ unit) Hr F8 U8. stepU (@remove_stepU _ unit) Hr F9 U9.
  stepU (@sew1_stepU _ unit) Hr F10 U10.
  apply sew1_last in Hr. destruct Hr as [F11 U11]. unfold img_eq, fl_eq, p_link1 in F11, U11.
  split.
  - intros i y.
    destruct (N.eqb_spec i 0) as [->|Ni0]; [|destruct (N.eqb_spec i 1) as [->|Ni1]; [|destruct (N.eqb_spec i 2) as [->|Ni2]]].
    + change (0 <? 3) with true. lk.
      destruct (N.eqb_spec y pe) as [->|M1]; [simpl_ne; reflexivity|].
      destruct (N.eqb_spec y e) as [->|M2]; [simpl_ne; reflexivity|].
      destruct (N.eqb_spec y ne) as [->|M3]; [simpl_ne; reflexivity|].
      destruct (N.eqb_spec y q) as [->|M4]; [simpl_ne; reflexivity|].
      destruct (N.eqb_spec y p0) as [->|M5]; [simpl_ne; reflexivity|].
      destruct (N.eqb_spec y p1) as [->|M6]; [simpl_ne; reflexivity|]. simpl_ne. reflexivity.
    + change (1 <? 3) with true. lk.
      destruct (N.eqb_spec y pe) as [->|M1]; [simpl_ne; reflexivity|].
      destruct (N.eqb_spec y e) as [->|M2]; [simpl_ne; reflexivity|].
      destruct (N.eqb_spec y ne) as [->|M3]; [simpl_ne; reflexivity|].
      destruct (N.eqb_spec y q) as [->|M4]; [simpl_ne; reflexivity|].
      destruct (N.eqb_spec y p0) as [->|M5]; [simpl_ne; reflexivity|].
      destruct (N.eqb_spec y p1) as [->|M6]; [simpl_ne; reflexivity|]. simpl_ne. reflexivity.
    + change (2 <? 3) with true. lk.
      destruct (N.eqb_spec y pe) as [->|M1]; [simpl_ne; reflexivity|].
      destruct (N.eqb_spec y e) as [->|M2]; [simpl_ne; exact Ze|].
      destruct (N.eqb_spec y ne) as [->|M3]; [simpl_ne; reflexivity|].
      destruct (N.eqb_spec y q) as [->|M4]; [simpl_ne; reflexivity|].
      destruct (N.eqb_spec y p0) as [->|M5]; [simpl_ne; reflexivity|].
      destruct (N.eqb_spec y p1) as [->|M6]; [simpl_ne; reflexivity|]. simpl_ne. reflexivity.
    + assert (Hi : (i <? 3) = false) by (clear - Ni0 Ni1 Ni2; apply N.ltb_ge; lia). rewrite Hi.
      rewrite F11, F10, F9, F8, F7, F6, F5, F4, F3, F2, F1.
      rewrite (proj2 (N.eqb_neq i 0) Ni0), (proj2 (N.eqb_neq i 1) Ni1), (proj2 (N.eqb_neq i 2) Ni2). cbn [andb].
      destruct ((y =? e) || (y =? ne) || (y =? q)); reflexivity.
  - intros y. rewrite U11, U10, U9, U8, U7, U6, U5, U4, U3, U2, U1.
    destruct (N.eqb_spec y e) as [->|M2]; [simpl_ne; reflexivity|].
    destruct (N.eqb_spec y ne) as [->|M3]; [simpl_ne; reflexivity|].
    destruct (N.eqb_spec y q) as [->|M4]; [simpl_ne; reflexivity|]. simpl_ne. reflexivity.
Qed.

(** ... and the map stays well formed *)
Theorem halfcell_to_base_inner_mirror_wf E n ks pe e ne c w cnt w' cnt' :
  let q := beta w 2 ne in let p0 := beta w 0 q in let p1 := beta w 1 q in
  wf2 n w -> pe < n ->
  NoDup [pe; e; ne; q; p0; p1] -> ~ In 0 [pe; e; ne; q; p0; p1] ->
  beta w 1 e = pe -> beta w 1 pe = ne -> beta w 1 ne = e -> beta w 2 e = 0 ->
  run E (collapse_halfcell_to_base n ks pe e ne) c w cnt = (Done tt, w', cnt') ->
  wf2 n w'.
Proof.
  intros q p0 p1 W Hpn Hnd Hz B1 B2 B3 Ze Hr.
  pose proof W as [W1 W2 W3 W4 W5 W6].
  assert (Z : pe <> 0 /\ e <> 0 /\ ne <> 0 /\ q <> 0 /\ p0 <> 0 /\ p1 <> 0).
  { cbn [In] in Hz. repeat split; intros Q; apply Hz; rewrite Q; tauto. }
  destruct Z as (Z1 & Z2 & Z3 & Z4 & Z5 & Z6).
  assert (D : (pe <> e /\ pe <> ne /\ pe <> q /\ pe <> p0 /\ pe <> p1) /\ (e <> ne /\ e <> q /\ e <> p0 /\ e <> p1) /\
              (ne <> q /\ ne <> p0 /\ ne <> p1) /\ (q <> p0 /\ q <> p1) /\ p0 <> p1).
  { clear - Hnd. repeat match goal with Hq : NoDup (_ :: _) |- _ => inversion Hq; clear Hq; subst end.
    cbn [In] in *. repeat split; intros Q; intuition congruence. }
  destruct D as ((Q1 & Q2 & Q3 & Q4 & Q5) & (Q6 & Q7 & Q8 & Q9) & (Q10 & Q11 & Q12) & (Q13 & Q14) & Q15).
  assert (Hnn : ne < n) by (rewrite <- B2; apply W2; [reflexivity|exact Hpn]).
  assert (Hen : e < n) by (rewrite <- B3; apply W2; [reflexivity|exact Hnn]).
  assert (Hqn : q < n) by (apply W2; [reflexivity|exact Hnn]).
  assert (H0n : p0 < n) by (apply W2; [reflexivity|exact Hqn]).
  assert (H1n : p1 < n) by (apply W2; [reflexivity|exact Hqn]).
  assert (P0e : beta w 0 e = ne) by (rewrite <- B3; apply W3; [exact Hnn|rewrite B3; exact Z2]).
  assert (P0n : beta w 0 ne = pe) by (rewrite <- B2; apply W3; [exact Hpn|rewrite B2; exact Z3]).
  assert (P0p : beta w 0 pe = e) by (rewrite <- B1; apply W3; [exact Hen|rewrite B1; exact Z1]).
  assert (B4 : beta w 1 p0 = q) by (apply (W4 q Hqn); exact Z5).
  assert (P01 : beta w 0 p1 = q) by (apply (W3 q Hqn); exact Z6).
  assert (G2q : beta w 2 q = ne) by (apply (W5 ne Hnn); exact Z4).
  destruct (halfcell_to_base_inner_mirror E n ks pe e ne c w cnt w' cnt' Hnd Hz B1 B2 B3 B4 Ze Hr) as (Hb0 & Hu0).
  fold q p0 p1 in Hb0, Hu0.
  set (three := fun y => (y =? e) || (y =? ne) || (y =? q)).
  assert (Hb : forall i y, beta w' i y =
     if three y then (if i <? 3 then 0 else beta w i y)
     else if (i =? 1) && (y =? pe) then p1 else if (i =? 0) && (y =? pe) then p0
     else if (i =? 1) && (y =? p0) then pe else if (i =? 0) && (y =? p1) then pe
     else beta w i y) by (intros i y; rewrite Hb0; reflexivity).
  assert (Hu : forall y, unused w' y = if three y then true else unused w y) by (intros y; rewrite Hu0; reflexivity).
  clear Hb0 Hu0.
  assert (Three : forall y, three y = true <-> (y = e \/ y = ne \/ y = q)).
  { intros y. unfold three. rewrite !orb_true_iff, !N.eqb_eq. tauto. }
  assert (Out : forall y, three y = false -> y <> e /\ y <> ne /\ y <> q).
  { intros y Hy. repeat split; intros ->; match type of Hy with three ?z = false => assert (Q : three z = true) by (apply Three; tauto) end; congruence. }
  assert (Tpe : three pe = false) by (destruct (three pe) eqn:Q; [apply Three in Q; intuition congruence|reflexivity]).
  assert (Tp0 : three p0 = false) by (destruct (three p0) eqn:Q; [apply Three in Q; intuition congruence|reflexivity]).
  assert (Tp1 : three p1 = false) by (destruct (three p1) eqn:Q; [apply Three in Q; intuition congruence|reflexivity]).
  assert (T0 : three 0 = false) by (destruct (three 0) eqn:Q; [apply Three in Q; intuition congruence|reflexivity]).
  (* images in the new map, dimension by dimension, outside the three removed darts *)
  assert (H1 : forall y, three y = false -> beta w' 1 y = if y =? pe then p1 else if y =? p0 then pe else beta w 1 y).
  { intros y Hy. rewrite Hb, Hy. consts. destruct (y =? pe); [reflexivity|]. destruct (y =? p0); reflexivity. }
  assert (H0 : forall y, three y = false -> beta w' 0 y = if y =? pe then p0 else if y =? p1 then pe else beta w 0 y).
  { intros y Hy. rewrite Hb, Hy. consts. destruct (y =? pe); [reflexivity|]. destruct (y =? p1); reflexivity. }
  assert (H2 : forall y, three y = false -> beta w' 2 y = beta w 2 y).
  { intros y Hy. rewrite Hb, Hy. consts. reflexivity. }
  assert (Hz3 : forall i y, i < 3 -> three y = true -> beta w' i y = 0).
  { intros i y Hi Hy. rewrite Hb, Hy. apply N.ltb_lt in Hi. rewrite Hi. reflexivity. }
  constructor.
  - intros i Hi. rewrite Hb, T0.
    destruct (N.eqb_spec 0 pe) as [Q|_]; [congruence|]. destruct (N.eqb_spec 0 p0) as [Q|_]; [congruence|].
    destruct (N.eqb_spec 0 p1) as [Q|_]; [congruence|]. rewrite !andb_false_r. apply W1; exact Hi.
  - intros i y Hi Hy. rewrite Hb.
    assert (Zn' : 0 < n) by (apply (N.le_lt_trans _ pe); [apply N.le_0_l|exact Hpn]).
    destruct (three y); [destruct (i <? 3); [exact Zn'|apply W2; assumption]|].
    destruct ((i =? 1) && (y =? pe)); [exact H1n|]. destruct ((i =? 0) && (y =? pe)); [exact H0n|].
    destruct ((i =? 1) && (y =? p0)); [exact Hpn|]. destruct ((i =? 0) && (y =? p1)); [exact Hpn|]. apply W2; assumption.
  - intros y Hy Hnz. destruct (three y) eqn:Sy; [rewrite (Hz3 1 y eq_refl Sy) in Hnz; congruence|].
    destruct (Out y Sy) as (O1 & O2 & O3).
    rewrite (H1 y Sy) in Hnz |- *.
    destruct (N.eqb_spec y pe) as [->|Np]; [rewrite (H0 p1 Tp1); simpl_ne; reflexivity|].
    destruct (N.eqb_spec y p0) as [->|N0]; [rewrite (H0 pe Tpe); simpl_ne; reflexivity|].
    pose proof (W3 y Hy Hnz) as I.
    remember (beta w 1 y) as z eqn:Ez.
    assert (Sz : three z = false).
    { destruct (three z) eqn:Q; [|reflexivity]. apply Three in Q. exfalso.
      destruct Q as [->|[->| ->]]; [rewrite P0e in I|rewrite P0n in I|fold p0 in I]; congruence. }
    rewrite (H0 z Sz).
    destruct (N.eqb_spec z pe) as [->|Zp]; [rewrite P0p in I; congruence|].
    destruct (N.eqb_spec z p1) as [->|Z1']; [rewrite P01 in I; congruence|]. exact I.
  - intros y Hy Hnz. destruct (three y) eqn:Sy; [rewrite (Hz3 0 y eq_refl Sy) in Hnz; congruence|].
    destruct (Out y Sy) as (O1 & O2 & O3).
    rewrite (H0 y Sy) in Hnz |- *.
    destruct (N.eqb_spec y pe) as [->|Np]; [rewrite (H1 p0 Tp0); simpl_ne; reflexivity|].
    destruct (N.eqb_spec y p1) as [->|N1]; [rewrite (H1 pe Tpe); simpl_ne; reflexivity|].
    pose proof (W4 y Hy Hnz) as I.
    remember (beta w 0 y) as z eqn:Ez.
    assert (Sz : three z = false).
    { destruct (three z) eqn:Q; [|reflexivity]. apply Three in Q. exfalso.
      destruct Q as [->|[->| ->]]; [rewrite B1 in I|rewrite B3 in I|fold p1 in I]; congruence. }
    rewrite (H1 z Sz).
    destruct (N.eqb_spec z pe) as [->|Zp]; [rewrite B2 in I; congruence|].
    destruct (N.eqb_spec z p0) as [->|Z0']; [rewrite B4 in I; congruence|]. exact I.
  - intros y Hy Hnz. destruct (three y) eqn:Sy; [rewrite (Hz3 2 y eq_refl Sy) in Hnz; congruence|].
    destruct (Out y Sy) as (O1 & O2 & O3).
    rewrite (H2 y Sy) in Hnz |- *.
    destruct (W5 y Hy Hnz) as (I2 & I3).
    remember (beta w 2 y) as z eqn:Ez.
    assert (Sz : three z = false).
    { destruct (three z) eqn:Q; [|reflexivity]. apply Three in Q. exfalso.
      destruct Q as [->|[->| ->]].
      - rewrite Ze in I2. rewrite <- I2, (W1 2 eq_refl) in Ez. congruence.
      - fold q in I2. congruence.
      - rewrite G2q in I2. congruence. }
    rewrite (H2 z Sz). split; assumption.
  - intros y Hy Hux i Hi. rewrite Hu in Hux. destruct (three y) eqn:Sy; [apply Hz3; assumption|].
    pose proof (W6 y Hy Hux) as Fr. rewrite Hb, Sy.
    destruct (N.eqb_spec y pe) as [->|Np]; [rewrite (Fr 1 eq_refl) in B2; congruence|].
    destruct (N.eqb_spec y p0) as [->|N0]; [rewrite (Fr 1 eq_refl) in B4; congruence|].
    destruct (N.eqb_spec y p1) as [->|N1]; [rewrite (Fr 0 eq_refl) in P01; congruence|].
    rewrite !andb_false_r. apply Fr; exact Hi.
Qed.

End CollapseMirror.
