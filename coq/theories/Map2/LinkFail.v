(** * C01 / C06: a link or unlink core that FAILS leaves the transaction's view as it found it.
    This is what makes the transactional form safe inside a larger transaction whose body handles the error and
    commits (the "swallowed error" form the 2D harness runs for half of the link / unlink argument pairs): the
    link cores test before they write, and the unlink cores have only written the null dart over a null image. *)
From Coq Require Import List NArith Bool.
From HC Require Import Stm.Prog Stm.ProgFacts Map2.Ops2.
Open Scope N_scope.

Section LinkFail.
Context `{Sig}.

(* same images, and every variable that is not an image slot is untouched *)
Definition view_same (w w' : store) : Prop :=
  (forall i d, beta w' i d = beta w i d) /\ (forall v, (forall i d, v <> XBeta i d) -> w' v = w v).

Lemma view_same_refl w : view_same w w.
Proof. split; intros; reflexivity. Qed.

Lemma view_same_null w i l : beta w i l = 0 -> view_same w (upd w (XBeta i l) (VN 0)).
Proof.
  intros Hz. split.
  - intros j d. unfold beta, upd. destruct (var_eqb_spec (XBeta j d) (XBeta i l)) as [Q|Q]; [|reflexivity].
    rewrite Q. symmetry. exact Hz.
  - intros v Hv. apply upd_other. apply Hv.
Qed.

Theorem one_link_core_fail E l r c w cnt e w' cnt' :
  run E (one_link_core l r) c w cnt = (Failed e, w', cnt') -> w' = w.
Proof.
  unfold one_link_core, rdB, wrB. cbn [bind run].
  destruct (e_dom E (XBeta 1 l)); [|discriminate]. cbn [bind run].
  destruct (negb (asN (w (XBeta 1 l)) =? 0)); cbn [bind run]; [intros Q; injection Q as _ <- _; reflexivity|].
  destruct (e_dom E (XBeta 0 r)); [|discriminate]. cbn [bind run].
  destruct (negb (asN (w (XBeta 0 r)) =? 0)); cbn [bind run]; [intros Q; injection Q as _ <- _; reflexivity|].
  destruct (e_dom E (XBeta 1 l)); [|discriminate]. cbn [bind run].
  destruct (e_dom E (XBeta 0 r)); discriminate.
Qed.

Theorem two_link_core_fail E l r c w cnt e w' cnt' :
  run E (two_link_core l r) c w cnt = (Failed e, w', cnt') -> w' = w.
Proof.
  unfold two_link_core, rdB, wrB. cbn [bind run].
  destruct (e_dom E (XBeta 2 l)); [|discriminate]. cbn [bind run].
  destruct (negb (asN (w (XBeta 2 l)) =? 0)); cbn [bind run]; [intros Q; injection Q as _ <- _; reflexivity|].
  destruct (e_dom E (XBeta 2 r)); [|discriminate]. cbn [bind run].
  destruct (negb (asN (w (XBeta 2 r)) =? 0)); cbn [bind run]; [intros Q; injection Q as _ <- _; reflexivity|].
  destruct (e_dom E (XBeta 2 l)); [|discriminate]. cbn [bind run].
  destruct (e_dom E (XBeta 2 r)); discriminate.
Qed.

Theorem one_unlink_core_fail E l c w cnt e w' cnt' :
  run E (one_unlink_core l) c w cnt = (Failed e, w', cnt') -> view_same w w'.
Proof.
  unfold one_unlink_core, rdB, wrB. cbn [bind run].
  destruct (e_dom E (XBeta 1 l)); [|discriminate]. cbn [bind run].
  destruct (asN (w (XBeta 1 l)) =? 0) eqn:Z; cbn [bind run].
  - intros Q; injection Q as _ <- _. apply view_same_null. apply N.eqb_eq. exact Z.
  - destruct (e_dom E (XBeta 0 (asN (w (XBeta 1 l))))); discriminate.
Qed.

Theorem two_unlink_core_fail E l c w cnt e w' cnt' :
  run E (two_unlink_core l) c w cnt = (Failed e, w', cnt') -> view_same w w'.
Proof.
  unfold two_unlink_core, rdB, wrB. cbn [bind run].
  destruct (e_dom E (XBeta 2 l)); [|discriminate]. cbn [bind run].
  destruct (asN (w (XBeta 2 l)) =? 0) eqn:Z; cbn [bind run].
  - intros Q; injection Q as _ <- _. apply view_same_null. apply N.eqb_eq. exact Z.
  - destruct (e_dom E (XBeta 2 (asN (w (XBeta 2 l))))); discriminate.
Qed.

End LinkFail.
