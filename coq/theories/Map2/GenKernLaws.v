(** * The remeshing kernels of the model are, verbatim, the programs that tools/tr_kern.py generates from
    remeshing/cut.rs, remeshing/swap.rs, remeshing/collapse.rs (the two half-cell routines and the two drivers that call them), cell_insertion/vertices.rs (single insertion) and triangulation/fan.rs (convex fan, with its loop) on every run (hand-written file, not generated). *)
From Coq Require Import List NArith Bool.
From HC Require Import Stm.Prog Map2.Ops2 Map2.Kern2 Map2.GenKern.
Open Scope N_scope.

(* syntactic comparison first (fast, also when it fails): after unfolding the two constants the programs must be the
   same term up to the names of bound variables; [reflexivity] then only re-checks identical terms *)
Ltac syn_eq := lazymatch goal with |- ?a = ?b => first [constr_eq a b | fail 1 "the generated program differs from the model"] end.

Section Laws.
Context `{Sig}.
Lemma gen_cut_outer_edge_ok n ks e nd1 nd2 nd3 : gen_cut_outer_edge n ks e nd1 nd2 nd3 = cut_outer_edge n ks e nd1 nd2 nd3.
Proof. cbv beta zeta delta [gen_cut_outer_edge cut_outer_edge reattach_face_anchor]. syn_eq; reflexivity. Qed.
Lemma gen_cut_inner_edge_ok n ks e nd1 nd2 nd3 nd4 nd5 nd6 :
  gen_cut_inner_edge n ks e nd1 nd2 nd3 nd4 nd5 nd6 = cut_inner_edge n ks e nd1 nd2 nd3 nd4 nd5 nd6.
Proof. cbv beta zeta delta [gen_cut_inner_edge cut_inner_edge reattach_face_anchor]. syn_eq; reflexivity. Qed.
Lemma gen_swap_edge_ok n ks e : gen_swap_edge n ks e = swap_edge n ks e.
Proof. cbv beta zeta delta [gen_swap_edge swap_edge restore_vertex restore_anchor]. syn_eq; reflexivity. Qed.

Lemma gen_insert_vertex_on_edge_ok n ks e nd1 nd2 t :
  gen_insert_vertex_on_edge n ks e nd1 nd2 t = insert_vertex_on_edge n ks e nd1 nd2 t.
Proof. cbv beta zeta delta [gen_insert_vertex_on_edge insert_vertex_on_edge]. syn_eq; reflexivity. Qed.

Lemma gen_fan_convex_cell_ok n ks f nds : gen_fan_convex_cell n ks f nds = fan_convex_cell n ks f nds.
Proof.
  cbv beta zeta delta [gen_fan_convex_cell fan_convex_cell fan_from gen_process_convex_cell_loop fan_loop]. syn_eq; reflexivity.
Qed.

Lemma gen_collapse_halfcell_to_midpoint_ok n ks b0d d b1d :
  gen_collapse_halfcell_to_midpoint n ks b0d d b1d = collapse_halfcell_to_midpoint n ks b0d d b1d.
Proof. cbv beta zeta delta [gen_collapse_halfcell_to_midpoint collapse_halfcell_to_midpoint]. syn_eq; reflexivity. Qed.
Lemma gen_collapse_halfcell_to_base_ok n ks d_pe d_e d_ne :
  gen_collapse_halfcell_to_base n ks d_pe d_e d_ne = collapse_halfcell_to_base n ks d_pe d_e d_ne.
Proof. cbv beta zeta delta [gen_collapse_halfcell_to_base collapse_halfcell_to_base]. syn_eq; reflexivity. Qed.

Lemma gen_collapse_edge_to_midpoint_ok n ks b0l l b1l b0r r b1r :
  gen_collapse_edge_to_midpoint n ks b0l l b1l b0r r b1r = collapse_edge_to_midpoint n ks b0l l b1l b0r r b1r.
Proof. cbv beta zeta delta [gen_collapse_edge_to_midpoint collapse_edge_to_midpoint]. syn_eq; reflexivity. Qed.
Lemma gen_collapse_edge_to_base_ok n ks b0l l b1l b0r r b1r :
  gen_collapse_edge_to_base n ks b0l l b1l b0r r b1r = collapse_edge_to_base n ks b0l l b1l b0r r b1r.
Proof. cbv beta zeta delta [gen_collapse_edge_to_base collapse_edge_to_base]. syn_eq; reflexivity. Qed.

Theorem collapse_drivers_are_the_source :
  (forall n ks b0l l b1l b0r r b1r, gen_collapse_edge_to_midpoint n ks b0l l b1l b0r r b1r = collapse_edge_to_midpoint n ks b0l l b1l b0r r b1r) /\
  (forall n ks b0l l b1l b0r r b1r, gen_collapse_edge_to_base n ks b0l l b1l b0r r b1r = collapse_edge_to_base n ks b0l l b1l b0r r b1r).
Proof. split; intros; [apply gen_collapse_edge_to_midpoint_ok | apply gen_collapse_edge_to_base_ok]. Qed.

Theorem collapse_halfcells_are_the_source :
  (forall n ks b0d d b1d, gen_collapse_halfcell_to_midpoint n ks b0d d b1d = collapse_halfcell_to_midpoint n ks b0d d b1d) /\
  (forall n ks d_pe d_e d_ne, gen_collapse_halfcell_to_base n ks d_pe d_e d_ne = collapse_halfcell_to_base n ks d_pe d_e d_ne).
Proof. split; intros; [apply gen_collapse_halfcell_to_midpoint_ok | apply gen_collapse_halfcell_to_base_ok]. Qed.

Theorem kernels_are_the_source :
  (forall n ks e nd1 nd2 nd3, gen_cut_outer_edge n ks e nd1 nd2 nd3 = cut_outer_edge n ks e nd1 nd2 nd3) /\
  (forall n ks e nd1 nd2 nd3 nd4 nd5 nd6, gen_cut_inner_edge n ks e nd1 nd2 nd3 nd4 nd5 nd6 = cut_inner_edge n ks e nd1 nd2 nd3 nd4 nd5 nd6) /\
  (forall n ks e, gen_swap_edge n ks e = swap_edge n ks e).
Proof. split; [|split]; intros; [apply gen_cut_outer_edge_ok | apply gen_cut_inner_edge_ok | apply gen_swap_edge_ok]. Qed.
End Laws.
