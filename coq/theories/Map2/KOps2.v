(** * Histories that also contain kernel calls. Model only, no proofs. *)
From Coq Require Import List NArith Bool.
From HC Require Import Stm.Prog Map2.Ops2 Map2.State2 Map2.Orbit2 Map2.Kern2.
Import ListNotations.
Open Scope N_scope.

Section KOps2.
Context `{Sig}.

Inductive kcall :=
| KInsertVertex (e nd1 nd2 : N) (t : option Sc)
| KInsertVertices (e : N) (nds : list N) (ts : list Sc)
| KFan (f : N) (nds : list N)
| KFanConvex (f : N) (nds : list N)
| KEarclip (ccw : bool) (f : N) (nds : list N)
| KSwap (e : N)
| KCutOuter (e nd1 nd2 nd3 : N)
| KCutInner (e nd1 nd2 nd3 nd4 nd5 nd6 : N)
| KCollapse (e : N).

Definition kcall_prog (n : N) (ks : kinds) (k : kcall) : prog unit :=
  match k with
  | KInsertVertex e nd1 nd2 t => insert_vertex_on_edge n ks e nd1 nd2 t
  | KInsertVertices e nds ts => insert_vertices_on_edge n ks e nds ts
  | KFan f nds => fan_cell n ks f nds
  | KFanConvex f nds => fan_convex_cell n ks f nds
  | KEarclip ccw f nds => earclip_cell n ks ccw f nds
  | KSwap e => swap_edge n ks e
  | KCutOuter e a b c => cut_outer_edge n ks e a b c
  | KCutInner e a b c d f g => cut_inner_edge n ks e a b c d f g
  | KCollapse e => collapse_edge n ks e
  end.

Inductive bitem := BC (c : call2) | BK (k : kcall).
Definition bitem_prog (n : N) (ks : kinds) (b : bitem) : prog unit :=
  match b with BC c => call2_prog n ks c | BK k => kcall_prog n ks k end.

Fixpoint kblock_prog (n : N) (ks : kinds) (bs : list bitem) : prog unit :=
  match bs with
  | [] => Ret tt
  | b :: rest => bitem_prog n ks b ;;; kblock_prog n ks rest
  end.

Inductive opk :=
| Base (o : op2)
| Kern (k : kcall)                   (* the kernel in its own transaction *)
| KBlock (bs : list bitem).          (* core calls and kernels in one user block *)

Definition tx_step (fail_at : option N) (st : state2) (p : prog unit) : result N * state2 :=
  match atomically (env2 st fail_at) p (mem st) with
  | (ROk _, m) => (ROk 0, with_mem st m)
  | (RErr e, _) => (RErr e, st)
  | (RHang, _) => (RHang, st)
  | (RPanic q, _) => (RPanic q, st)
  end.

Definition stepk (fail_at : option N) (st : state2) (o : opk) : result N * state2 :=
  match o with
  | Base o => step2 fail_at st o
  | Kern k => tx_step fail_at st (kcall_prog (nd st) (aks st) k)
  | KBlock bs => tx_step fail_at st (kblock_prog (nd st) (aks st) bs)
  end.

End KOps2.
