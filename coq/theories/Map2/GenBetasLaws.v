(** * The link / unlink cores used by the model and by every theorem are, verbatim, the programs that
    tools/tr_betas.py generates from components/betas.rs on every run (hand-written file, not generated). *)
From Coq Require Import NArith Bool.
From HC Require Import Stm.Prog Map2.Ops2 Map2.GenBetas Map3.Ops3.
Open Scope N_scope.

Section Laws.
Context `{Sig}.
Lemma gen_one_link_core_ok l r : gen_one_link_core l r = one_link_core l r. Proof. reflexivity. Qed.
Lemma gen_two_link_core_ok l r : gen_two_link_core l r = two_link_core l r. Proof. reflexivity. Qed.
Lemma gen_three_link_core_ok l r : gen_three_link_core l r = three_link_core l r. Proof. reflexivity. Qed.
Lemma gen_one_unlink_core_ok l : gen_one_unlink_core l = one_unlink_core l. Proof. reflexivity. Qed.
Lemma gen_two_unlink_core_ok l : gen_two_unlink_core l = two_unlink_core l. Proof. reflexivity. Qed.
Lemma gen_three_unlink_core_ok l : gen_three_unlink_core l = three_unlink_core l. Proof. reflexivity. Qed.

Theorem cores_are_the_source :
  (forall l r, gen_one_link_core l r = one_link_core l r) /\ (forall l r, gen_two_link_core l r = two_link_core l r) /\
  (forall l r, gen_three_link_core l r = three_link_core l r) /\ (forall l, gen_one_unlink_core l = one_unlink_core l) /\
  (forall l, gen_two_unlink_core l = two_unlink_core l) /\ (forall l, gen_three_unlink_core l = three_unlink_core l).
Proof.
  repeat split; intros; first [apply gen_one_link_core_ok | apply gen_two_link_core_ok | apply gen_three_link_core_ok
                              | apply gen_one_unlink_core_ok | apply gen_two_unlink_core_ok | apply gen_three_unlink_core_ok].
Qed.
End Laws.
