(** * CMap2 as a whole: dart count + stores, the [&mut self] methods, and histories.
    Sources: cmap/dim2/{structure,basic_ops}.rs.  Model only, no proofs. *)
From Coq Require Import List NArith Bool.
From HC Require Import Stm.Prog Map2.Ops2.
Import ListNotations.
Open Scope N_scope.

Section State2.
Context `{Sig}.

Record state2 := { nd : N;             (* n_darts, null dart included *)
                   mem : store;
                   aks : kinds }.      (* registered attribute kinds *)

(** Vec bounds: betas/unused/vertices have length [nd]; attribute storages are created
    with [add_storage(1)] and extended by the same amounts, hence have length [nd + 1]. *)
Definition dom2 (n : N) (ks : kinds) (v : var) : bool :=
  match v with
  | XBeta i d => (i <? 3) && (d <? n)
  | XUnused d => d <? n
  | XVertex d => d <? n
  | XAttr k d => existsb (fun kc => fst kc =? k) ks && (d <=? n)
  end.

Definition env2 (st : state2) (fail_at : option N) : env :=
  {| e_dom := dom2 (nd st) (aks st); e_fail_at := fail_at |}.

(** the initial content of every fresh slot *)
Definition blank (v : var) : val :=
  match v with
  | XBeta _ _ => VN 0 | XUnused _ => VB false | XVertex _ => VV None | XAttr _ _ => VA None
  end.

Definition empty2 (n : N) (ks : kinds) : state2 := {| nd := n + 1; mem := blank; aks := ks |}.

Definition with_mem (st : state2) (m : store) : state2 :=
  {| nd := nd st; mem := m; aks := aks st |}.

(** [add_free_dart(s)]: the Vecs are extended with fresh TVars. Slots >= nd were never
    addressable, the model keeps them [blank] (invariant [fresh_above]). *)
Definition add_free_darts (st : state2) (k : N) : N * state2 :=
  (nd st, {| nd := nd st + k; mem := mem st; aks := aks st |}).

(** first unused slot, scanning from 0 as `unused_darts.iter().enumerate().find(..)` does *)
Fixpoint find_unused (s : store) (from : N) (count : nat) : option N :=
  match count with
  | O => None
  | S c => if unused s from then Some from else find_unused s (from + 1) c
  end.

Definition insert_free_dart (st : state2) : N * state2 :=
  match find_unused (mem st) 0 (N.to_nat (nd st)) with
  | Some d => (d, with_mem st (upd (mem st) (XUnused d) (VB false)))
  | None => add_free_darts st 1
  end.

Definition is_free2 (s : store) (d : N) : bool :=
  (beta s 0 d =? 0) && (beta s 1 d =? 0) && (beta s 2 d =? 0).

(** [remove_free_dart]: two asserts; a failed assert is a documented panic and the
    state is unchanged by the first, but the second fires *after* the commit. *)
Definition remove_free_dart (st : state2) (d : N) : result unit * state2 :=
  if negb (d <? nd st) then (RPanic OOB, st) else
  if negb (is_free2 (mem st) d) then (RPanic AssertFailed, st) else
  let was := unused (mem st) d in
  let st' := with_mem st (upd (mem st) (XUnused d) (VB true)) in
  if was then (RPanic AssertFailed, st') else (ROk tt, st').

(** ** histories *)
Inductive op2 :=
| AddDart | AddDarts (k : N) | InsertDart | RemoveDart (d : N)
| Force (c : call2)                  (* force_* : the call in its own transaction *)
| Block (cs : list call2).           (* the calls through &mut Transaction in one user block *)

(** result of a step: class + returned dart id (0 when none) *)
Definition step2 (fail_at : option N) (st : state2) (o : op2) : result N * state2 :=
  match o with
  | AddDart => let '(d, st') := add_free_darts st 1 in (ROk d, st')
  | AddDarts k => let '(d, st') := add_free_darts st k in (ROk d, st')
  | InsertDart => let '(d, st') := insert_free_dart st in (ROk d, st')
  | RemoveDart d =>
      match remove_free_dart st d with
      | (ROk _, st') => (ROk 0, st')
      | (RErr e, st') => (RErr e, st')
      | (RHang, st') => (RHang, st')
      | (RPanic p, st') => (RPanic p, st')
      end
  | Force c =>
      match atomically (env2 st fail_at) (call2_prog (nd st) (aks st) c) (mem st) with
      | (ROk _, m) => (ROk 0, with_mem st m)
      | (RErr e, _) => (RErr e, st)
      | (RHang, _) => (RHang, st)
      | (RPanic p, _) => (RPanic p, st)
      end
  | Block cs =>
      match atomically (env2 st fail_at) (block_prog (nd st) (aks st) cs) (mem st) with
      | (ROk _, m) => (ROk 0, with_mem st m)
      | (RErr e, _) => (RErr e, st)
      | (RHang, _) => (RHang, st)
      | (RPanic p, _) => (RPanic p, st)
      end
  end.

Fixpoint exec2 (fail_at : option N) (st : state2) (ops : list op2) : state2 :=
  match ops with
  | [] => st
  | o :: rest => exec2 fail_at (snd (step2 fail_at st o)) rest
  end.

End State2.
