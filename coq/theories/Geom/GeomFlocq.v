(** * C19, floating-point reading (Flocq, any binary format, round to nearest even):
    v - v = +0 exactly, componentwise, for the generated operators. *)
From Coq Require Import ZArith Reals Lia Psatz.
From Flocq Require Import Core IEEE754.BinarySingleNaN.
From HC Require Import Geom.GenGeom.

Section F.
Variable prec emax : Z.
Context (prec_gt_0_ : Prec_gt_0 prec) (Hmax : Prec_lt_emax prec emax).
Notation bf := (binary_float prec emax).

(* sqrt / hypot are not used by the laws of this file *)
Definition bops : fops bf :=
  {| fadd := @Bplus prec emax prec_gt_0_ Hmax mode_NE;
     fsub := @Bminus prec emax prec_gt_0_ Hmax mode_NE;
     fmul := @Bmult prec emax prec_gt_0_ Hmax mode_NE;
     fdiv := @Bdiv prec emax prec_gt_0_ Hmax mode_NE;
     fneg := @Bopp prec emax;
     fsqrt := fun x => x; fhypot := fun x _ => x;
     fzero := B754_zero false; fone := B754_zero false; ftwo := B754_zero false |}.

Lemma sub_self (x : bf) : is_finite x = true -> fsub bops x x = B754_zero false.
Proof.
  intros Fx. cbn [fsub bops].
  pose proof (Bminus_correct prec emax prec_gt_0_ Hmax mode_NE x x Fx Fx) as H.
  rewrite Rminus_diag_eq in H by reflexivity.
  rewrite round_0 in H by typeclasses eauto.
  rewrite Rabs_R0 in H.
  destruct (Rlt_bool_spec 0 (bpow radix2 emax)) as [_|Hc]; [|exfalso; pose proof (bpow_gt_0 radix2 emax); lra].
  destruct H as (HR & HF & HS).
  destruct (Bminus mode_NE x x) as [s| | |s m e He] eqn:E; try discriminate.
  - f_equal. cbn [Bsign] in HS. rewrite HS.
    rewrite Rcompare_Eq by reflexivity. now destruct (Bsign x).
  - exfalso. cbn [B2R] in HR. apply eq_0_F2R in HR. cbn in HR. destruct s; discriminate.
Qed.

Definition fin2 (v : vec2 bf) : Prop := is_finite (fst v) = true /\ is_finite (snd v) = true.
Definition fin3 (v : vec3 bf) : Prop :=
  is_finite (fst (fst v)) = true /\ is_finite (snd (fst v)) = true /\ is_finite (snd v) = true.
Definition z := @B754_zero prec emax false.

Theorem vector2_sub_self v : fin2 v -> vector2_sub_vector2 bops v v = (z, z).
Proof. destruct v as [x y]. intros [Hx Hy]. unfold vector2_sub_vector2, p0, p1. cbn [fst snd]. now rewrite !sub_self. Qed.
Theorem vertex2_sub_self v : fin2 v -> vertex2_sub_vertex2 bops v v = (z, z).
Proof. destruct v as [x y]. intros [Hx Hy]. unfold vertex2_sub_vertex2, p0, p1. cbn [fst snd]. now rewrite !sub_self. Qed.
Theorem vector3_sub_self v : fin3 v -> vector3_sub_vector3 bops v v = (z, z, z).
Proof. destruct v as [[x y] w]. intros (Hx & Hy & Hw). unfold vector3_sub_vector3, q0, q1, q2. cbn [fst snd]. now rewrite !sub_self. Qed.
Theorem vertex3_sub_self v : fin3 v -> vertex3_sub_vertex3 bops v v = (z, z, z).
Proof. destruct v as [[x y] w]. intros (Hx & Hy & Hw). unfold vertex3_sub_vertex3, q0, q1, q2. cbn [fst snd]. now rewrite !sub_self. Qed.

End F.
