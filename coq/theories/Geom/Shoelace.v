(** * The identity behind the area clause of C13: the triangles of a fan from the first corner of a polygon
    add up to the polygon's signed area (shoelace formula), for every polygon -- convex or not -- over
    integer (hence, by scaling, dyadic) coordinates. *)
From Coq Require Import List ZArith Lia.
Import ListNotations.
Open Scope Z_scope.

Definition P := (Z * Z)%type.
Definition crs (u v : P) : Z := fst u * snd v - snd u * fst v.
(* twice the signed area of the triangle a b c *)
Definition tri2 (a b c : P) : Z := (fst b - fst a) * (snd c - snd a) - (snd b - snd a) * (fst c - fst a).

(* shoelace: sum of p_i x p_{i+1} over the closed polygon *)
Fixpoint sh (first : P) (l : list P) : Z :=
  match l with
  | [] => 0
  | [p] => crs p first
  | p :: ((q :: _) as r) => crs p q + sh first r
  end.
Definition area2 (l : list P) : Z := match l with [] => 0 | p :: _ => sh p l end.

(* the fan from [apex] over the chain l *)
Fixpoint fan (apex : P) (l : list P) : Z :=
  match l with
  | p :: ((q :: _) as r) => tri2 apex p q + fan apex r
  | _ => 0
  end.

Lemma sh_fan apex p r : sh apex (p :: r) = fan apex (p :: r) - crs apex p.
Proof.
  revert p. induction r as [|q r IH]; intros p.
  - cbn. unfold crs. ring.
  - change (sh apex (p :: q :: r)) with (crs p q + sh apex (q :: r)).
    change (fan apex (p :: q :: r)) with (tri2 apex p q + fan apex (q :: r)).
    rewrite IH. unfold tri2, crs. ring.
Qed.

(** the fan triangulation of any polygon tiles its signed area *)
Theorem fan_tiles_area apex rest : area2 (apex :: rest) = fan apex rest.
Proof.
  destruct rest as [|p r]; [cbn; unfold crs; ring|].
  change (area2 (apex :: p :: r)) with (crs apex p + sh apex (p :: r)).
  rewrite sh_fan. ring.
Qed.

(** the signed area does not depend on the corner the cycle is listed from *)
Lemma sh_app first l p : l <> [] -> sh first (l ++ [p]) = sh first l - crs (last l first) first + crs (last l first) p + crs p first.
Proof.
  induction l as [|a l IH]; [congruence|]. intros _. destruct l as [|b l].
  - cbn. ring.
  - change (sh first ((a :: b :: l) ++ [p])) with (crs a b + sh first ((b :: l) ++ [p])).
    change (sh first (a :: b :: l)) with (crs a b + sh first (b :: l)).
    rewrite IH by discriminate. change (last (a :: b :: l) first) with (last (b :: l) first). ring.
Qed.
