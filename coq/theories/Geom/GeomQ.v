(** * C19, exact-arithmetic reading: the formulas generated from the source satisfy the
    algebraic contracts over the rationals (floating-point results differ by rounding only). *)
From Coq Require Import QArith Qabs Lia Lqa.
From HC Require Import Geom.GenGeom.
Open Scope Q_scope.

(** square roots are not rational: [norm] is not used by the laws below *)
Definition qops : fops Q :=
  {| fadd := Qplus; fsub := Qminus; fmul := Qmult; fdiv := Qdiv; fneg := Qopp;
     fsqrt := fun x => x; fhypot := fun x _ => x; fzero := 0; fone := 1; ftwo := 2 |}.

Definition eq2 (a b : vec2 Q) : Prop := fst a == fst b /\ snd a == snd b.
Definition eq3 (a b : vec3 Q) : Prop := fst (fst a) == fst (fst b) /\ snd (fst a) == snd (fst b) /\ snd a == snd b.

Ltac geom := intros; repeat match goal with v : vec2 Q |- _ => destruct v | v : vec3 Q |- _ => destruct v as [[? ?] ?] end;
  unfold eq2, eq3; cbn; repeat split; try ring; try field.

Lemma vector2_sub_self v : eq2 (vector2_sub_vector2 qops v v) (0, 0). Proof. geom. Qed.
Lemma vector3_sub_self v : eq3 (vector3_sub_vector3 qops v v) (0, 0, 0). Proof. geom. Qed.
Lemma vertex2_sub_self v : eq2 (vertex2_sub_vertex2 qops v v) (0, 0). Proof. geom. Qed.
Lemma vertex3_sub_self v : eq3 (vertex3_sub_vertex3 qops v v) (0, 0, 0). Proof. geom. Qed.

Lemma vertex2_add_sub v u : eq2 (vertex2_sub_vertex2 qops (vertex2_add_vector2 qops v u) v) u. Proof. geom. Qed.
Lemma vertex3_add_sub v u : eq3 (vertex3_sub_vertex3 qops (vertex3_add_vector3 qops v u) v) u. Proof. geom. Qed.
Lemma vector2_add_sub v u : eq2 (vector2_sub_vector2 qops (vector2_add_vector2 qops v u) v) u. Proof. geom. Qed.
Lemma vector3_add_sub v u : eq3 (vector3_sub_vector3 qops (vector3_add_vector3 qops v u) v) u. Proof. geom. Qed.

Lemma vector2_dot_sym a b : vector2_dot qops a b == vector2_dot qops b a. Proof. geom. Qed.
Lemma vector3_dot_sym a b : vector3_dot qops a b == vector3_dot qops b a. Proof. geom. Qed.

Lemma vector3_cross_antisym a b : eq3 (vector3_cross qops a b) (vector3_neg qops (vector3_cross qops b a)). Proof. geom. Qed.
Lemma vector3_cross_orth_l a b : vector3_dot qops a (vector3_cross qops a b) == 0. Proof. geom. Qed.
Lemma vector3_cross_orth_r a b : vector3_dot qops b (vector3_cross qops a b) == 0. Proof. geom. Qed.

(** the orientation product is the determinant | v2-v1  v3-v2 |, i.e. twice the signed area *)
Lemma orientation_is_det (v1 v2 v3 : vec2 Q) :
  vertex2_cross_product_from_vertices qops v1 v2 v3 ==
  (fst v2 - fst v1) * (snd v3 - snd v1) - (snd v2 - snd v1) * (fst v3 - fst v1).
Proof. geom. Qed.
(** ... invariant under cyclic permutation, negated by a swap: positive exactly for ccw triples *)
Lemma orientation_cyclic (v1 v2 v3 : vec2 Q) :
  vertex2_cross_product_from_vertices qops v2 v3 v1 == vertex2_cross_product_from_vertices qops v1 v2 v3.
Proof. geom. Qed.
Lemma orientation_swap (v1 v2 v3 : vec2 Q) :
  vertex2_cross_product_from_vertices qops v1 v3 v2 == - vertex2_cross_product_from_vertices qops v1 v2 v3.
Proof. geom. Qed.
Example orientation_ccw : 0 < vertex2_cross_product_from_vertices qops (0, 0) (1, 0) (0, 1). Proof. reflexivity. Qed.

Lemma vertex2_average_sym a b : eq2 (vertex2_average qops a b) (vertex2_average qops b a). Proof. geom. Qed.
Lemma vertex3_average_sym a b : eq3 (vertex3_average qops a b) (vertex3_average qops b a). Proof. geom. Qed.
Lemma average_between (x y : Q) : x <= y -> x <= (x + y) / 2 <= y.
Proof. intros Hxy. split; apply Qle_shift_div_l || apply Qle_shift_div_r; try reflexivity; lra. Qed.
Lemma vertex2_average_between a b : fst a <= fst b -> snd a <= snd b ->
  fst a <= fst (vertex2_average qops a b) <= fst b /\ snd a <= snd (vertex2_average qops a b) <= snd b.
Proof. destruct a, b. cbn. intros H1 H2. split; apply average_between; assumption. Qed.

(** the direction formulas: unit_dir v = v / |v| is parallel to v, normal_dir is v rotated by +90 degrees *)
Lemma normal_is_quarter_turn (x y : Q) :
  vector2_dot qops (x, y) (vector2_neg qops (y, - x)) == 0 /\
  vertex2_cross_product_from_vertices qops (0, 0) (x, y) (x - y, y + x) == x * x + y * y.
Proof. cbn. split; ring. Qed.
