(** * The PrimFloat (binary64) instance of the generated geometry, used by the correspondence runs. *)
From Coq Require Import Floats List.
From HC Require Import Geom.GenGeom.
(* hypot is a libm routine outside the repository: modelled by sqrt(x*x + y*y); results that
   depend on it are compared with a tolerance, never bit for bit *)
Definition pops : fops float :=
  {| fadd := PrimFloat.add; fsub := PrimFloat.sub; fmul := PrimFloat.mul; fdiv := PrimFloat.div;
     fneg := PrimFloat.opp; fsqrt := PrimFloat.sqrt;
     fhypot := fun x y => PrimFloat.sqrt (PrimFloat.add (PrimFloat.mul x x) (PrimFloat.mul y y));
     fzero := 0%float; fone := 1%float; ftwo := 2%float |}.
