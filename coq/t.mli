open PrimFloat

val avg : Float64.t -> Float64.t -> Float64.t
