open PrimFloat

(** val avg : Float64.t -> Float64.t -> Float64.t **)

let avg a b =
  div (add a b) (Float64.of_float (0x1p+1))
