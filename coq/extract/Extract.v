(* Extraction of the executable model. The only extraction directives are the standard
   ones below (listed in DESIGN.md section "Trusted base"). Run with cwd = output dir. *)
Require Import ExtrOcamlBasic ExtrOCamlFloats ExtrOCamlInt63.
From HC Require Import Extract.Tok Extract.Entry.
Extraction Language OCaml.
Set Extraction KeepSingleton.
Separate Extraction Entry.entry Tok.tok.
