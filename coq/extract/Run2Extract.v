(* Extraction of the executable 2-map model. The only extraction directives are the
   standard ones below (listed in DESIGN.md section "Trusted base"). Run with cwd = output dir. *)
Require Import ExtrOcamlBasic ExtrOCamlFloats ExtrOCamlInt63.
From HC Require Import Extract.Run2.
Extraction Language OCaml.
Set Extraction KeepSingleton.
Separate Extraction Run2.entry Run2.tok.
