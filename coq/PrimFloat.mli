
val add : Float64.t -> Float64.t -> Float64.t

val div : Float64.t -> Float64.t -> Float64.t
