//! `scene`: the viewer's start-up extraction (C20) run in a headless bevy App on generated maps.
//!
//! impl.txt: `ID 0 0 0 0 dump(map)`,
//!           `ID 1 class 0 0 scene`  with scene =
//!           `ntab (x y z)* nv (vid idx)* ne (eid i0 i1)* nf (fid k idx*)* nd (did vid eid fid vol start end)*
//!            nn (fid idx x y z)* nvn (vol idx x y z)*`   (entities sorted by identifier, f32 values widened to f64)
//! ops.txt : `ID 1 50 dim`
//! No model replay: Extract/SceneOracle.v validates each (map, scene) pair.

#[allow(dead_code, unused_imports, unused_variables)]
#[path = "../../../harness/src/bin/core2.rs"]
mod core2;
#[allow(dead_code, unused_imports, unused_variables)]
#[path = "../../../harness/src/bin/core3.rs"]
mod core3;

use bevy::app::{App, Startup};
use hc_harness::*;
use honeycomb_core::cmap::{CMap2, CMap3, CMapBuilder, GridDescriptor};
use honeycomb_render::components::{Dart, DartId, Edge, EdgeId, Face, FaceId, Vertex, VertexId, VolumeId};
use honeycomb_render::resources::{FaceNormals, Map, Map3, MapVertices, VolumeNormals};
use honeycomb_render::systems::{extract_data_from_3d_map, extract_data_from_map};
use std::fmt::Write as _;
use std::io::Write as _;
use std::panic::{AssertUnwindSafe, catch_unwind};

fn f32tok(x: f32) -> String {
    ftok(f64::from(x))
}

fn dump_world(app: &mut App, three_d: bool) -> String {
    let world = app.world_mut();
    let mut s = String::new();
    let tab = world.resource::<MapVertices>().0.clone();
    write!(s, " {}", tab.len()).unwrap();
    for v in &tab {
        write!(s, " {} {} {}", f32tok(v.x), f32tok(v.y), f32tok(v.z)).unwrap();
    }
    // vertices: entities with a Vertex component (dart entities carry a VertexId but no Vertex)
    let mut vs: Vec<(u32, usize)> = world.query::<(&VertexId, &Vertex)>().iter(world).map(|(i, v)| (i.0, v.0)).collect();
    vs.sort_unstable();
    write!(s, " {}", vs.len()).unwrap();
    for (i, x) in vs {
        write!(s, " {i} {x}").unwrap();
    }
    let mut es: Vec<(u32, usize, usize)> = world.query::<(&EdgeId, &Edge)>().iter(world).map(|(i, e)| (i.0, e.0, e.1)).collect();
    es.sort_unstable();
    write!(s, " {}", es.len()).unwrap();
    for (i, a, b) in es {
        write!(s, " {i} {a} {b}").unwrap();
    }
    let mut fs: Vec<(u32, Vec<usize>)> = world.query::<(&FaceId, &Face)>().iter(world).map(|(i, f)| (i.0, f.0.clone())).collect();
    fs.sort();
    write!(s, " {}", fs.len()).unwrap();
    for (i, l) in fs {
        write!(s, " {i} {}", l.len()).unwrap();
        for x in l {
            write!(s, " {x}").unwrap();
        }
    }
    let mut ds: Vec<(u32, u32, u32, u32, u32, usize, usize)> = world
        .query::<(&DartId, &VertexId, &EdgeId, &FaceId, &VolumeId, &Dart)>()
        .iter(world)
        .map(|(d, v, e, f, vol, dart)| {
            let (a, b) = dart.verif_ends();
            (d.0, v.0, e.0, f.0, vol.0, a, b)
        })
        .collect();
    ds.sort_unstable();
    write!(s, " {}", ds.len()).unwrap();
    for (d, v, e, f, vol, a, b) in ds {
        write!(s, " {d} {v} {e} {f} {vol} {a} {b}").unwrap();
    }
    let mut ns: Vec<(u32, usize, [f32; 3])> = world.resource::<FaceNormals>().0.iter().map(|(k, n)| (k.0, k.1, [n.x, n.y, n.z])).collect();
    ns.sort_by(|a, b| (a.0, a.1).cmp(&(b.0, b.1)));
    write!(s, " {}", ns.len()).unwrap();
    for (f, i, n) in ns {
        write!(s, " {f} {i} {} {} {}", f32tok(n[0]), f32tok(n[1]), f32tok(n[2])).unwrap();
    }
    if three_d {
        let mut vn: Vec<(u32, usize, [f32; 3])> = world.resource::<VolumeNormals>().0.iter().map(|(k, n)| (k.0, k.1, [n.x, n.y, n.z])).collect();
        vn.sort_by(|a, b| (a.0, a.1).cmp(&(b.0, b.1)));
        write!(s, " {}", vn.len()).unwrap();
        for (v, i, n) in vn {
            write!(s, " {v} {i} {} {} {}", f32tok(n[0]), f32tok(n[1]), f32tok(n[2])).unwrap();
        }
    } else {
        s.push_str(" 0");
    }
    s
}

fn scene2(m: CMap2<f64>) -> String {
    match catch_unwind(AssertUnwindSafe(|| {
        let mut app = App::new();
        app.insert_resource(Map(m));
        app.add_systems(Startup, extract_data_from_map::<f64>);
        app.update();
        dump_world(&mut app, false)
    })) {
        Ok(s) => format!("0 0 0{s}"),
        Err(_) => "2 0 0".to_string(),
    }
}
fn scene3(m: CMap3<f64>) -> String {
    match catch_unwind(AssertUnwindSafe(|| {
        let mut app = App::new();
        app.insert_resource(Map3(m));
        app.add_systems(Startup, extract_data_from_3d_map::<f64>);
        app.update();
        dump_world(&mut app, true)
    })) {
        Ok(s) => format!("0 0 0{s}"),
        Err(_) => "2 0 0".to_string(),
    }
}

fn main() {
    let args: Vec<String> = std::env::args().collect();
    let get = |name: &str, dflt: &str| -> String {
        args.iter().position(|a| a == name).and_then(|i| args.get(i + 1).cloned()).unwrap_or_else(|| dflt.to_string())
    };
    let seed: u64 = get("--seed", "1").parse().unwrap();
    let mode = get("--mode", "scene2");
    let outdir = get("--out", ".");
    let ncases: usize = get("--cases", "100").parse().unwrap();
    quiet_panics();
    let mk = |f: &str| std::io::BufWriter::new(std::fs::File::create(format!("{outdir}/{f}")).unwrap());
    let (mut obs, mut ops, mut cases) = (mk("impl.txt"), mk("ops.txt"), mk("cases.txt"));
    let mut rng = Rng::new(seed);
    for i in 0..ncases {
        let mut r = Rng::new(rng.next());
        let id = format!("w{i}");
        let (pre, post, dim) = if mode == "scene2" {
            use core2::*;
            let m: CMap2<f64> = match r.below(8) {
                0 | 1 => {
                    let n = [1 + r.below(4) as usize, 1 + r.below(4) as usize];
                    let g = GridDescriptor::<2, f64>::default()
                        .n_cells(n)
                        .len_per_cell([0.5 + r.below(3) as f64, 1.0 + 0.25 * r.below(3) as f64])
                        .origin([r.below(5) as f64 - 2.0, r.below(3) as f64])
                        .split_cells(r.chance(1, 2));
                    CMapBuilder::<2, f64>::from_grid_descriptor(g).build().unwrap()
                }
                2 => {
                    // one polygon, convex or not
                    let shape = if r.chance(1, 2) { 4 } else { r.below(4) as u32 };
                    let k = if shape == 4 { 4 + r.below(9) as u32 } else { 3 + r.below(10) as u32 };
                    let ccw = r.chance(3, 4);
                    let (p, used) = prefix_polygon(&mut r, k, shape, ccw);
                    let mut m = build2(used as usize, 0);
                    for o in &p {
                        exec(&mut m, o);
                    }
                    m
                }
                _ => {
                    let (nx, ny) = (1 + r.below(4) as u32, 1 + r.below(4) as u32);
                    let (p, used) = prefix_trimesh(&mut r, nx, ny, false);
                    let mut m = build2(used as usize, 0);
                    for o in &p {
                        exec(&mut m, o);
                    }
                    for _ in 0..r.below(6) {
                        let fresh = m.n_darts() as u32;
                        exec(&mut m, &Op::AddDarts(8));
                        let only = if r.chance(1, 2) { "remesh" } else { "insert" };
                        let k = gen_kcall(&mut r, &m, fresh, None, only);
                        exec(&mut m, &Op::Kern(None, k));
                        for d in fresh..fresh + 8 {
                            if m.is_free(d) && !m.is_unused(d) {
                                m.remove_free_dart(d);
                            }
                        }
                    }
                    m
                }
            };
            let mut pre = String::new();
            dump2(&m, 0, &mut pre);
            (pre, scene2(m), 2)
        } else {
            use core3::*;
            let m: CMap3<f64> = if r.chance(1, 3) {
                build3(1, 1 + r.below(2) as u32, 1 + r.below(2) as u32, 1 + r.below(2) as u32, 0)
            } else {
                let cx = complex(r.below(8) as u32, 1 + r.below(4) as u32);
                let mut m = build3(0, cx.n_darts(), 0, 0, 0);
                for o in &cx.build {
                    exec(&mut m, o);
                }
                // 3-sew some of the coinciding faces
                for _ in 0..r.below(4) {
                    let good: Vec<(u32, u32)> = cx.sewable().into_iter().filter(|&(l, rr)| m.beta::<3>(l) == 0 && m.beta::<3>(rr) == 0).collect();
                    if good.is_empty() {
                        break;
                    }
                    let (l, rr) = *r.pick(&good);
                    exec(&mut m, &Op::Force(None, Call::S(3, l, rr)));
                }
                // open shells: some sides lose their 2-sew (boundary darts that are 2-free and 3-free)
                if r.chance(1, 3) {
                    for _ in 0..1 + r.below(4) {
                        let d = 1 + r.below(u64::from(cx.n_darts())) as u32;
                        exec(&mut m, &Op::Force(None, Call::X(2, d)));
                    }
                }
                m
            };
            let mut pre = String::new();
            dump3(&m, 0, &mut pre);
            (pre, scene3(m), 3)
        };
        writeln!(obs, "{id} 0 0 0 0{pre}").unwrap();
        writeln!(obs, "{id} 1 {post}").unwrap();
        writeln!(ops, "{id} 1 50 {dim}").unwrap();
        let fp = pre.bytes().fold(0xcbf2_9ce4_8422_2325u64, |h, b| (h ^ u64::from(b)).wrapping_mul(0x0100_0000_01b3));
        writeln!(cases, "{id} 0 0 {dim} {fp}").unwrap();
    }
    obs.flush().unwrap();
    ops.flush().unwrap();
    cases.flush().unwrap();
}
