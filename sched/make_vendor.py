#!/usr/bin/env python3
"""Copies the fast-stm source the repository builds against (cargo registry, version from /repo/Cargo.lock)
into /verif/.build/fast-stm-sched and inserts scheduler yield points:
  kind 1  first transactional read of a variable (before memory is read)
  kind 2  TVar::read_atomic (non-transactional read)
  kind 3  Transaction::commit (before any lock is taken)
  kind 4  wait_for_change (retry()): yields instead of blocking when a scheduler is installed
Every edit is an exact-text replacement that must match exactly once: if the upstream source changes,
this script fails and the C07 check reports a broken tie instead of silently testing something else."""
import glob, os, re, shutil, sys
lock = open("/repo/Cargo.lock").read()
m = re.search(r'name = "fast-stm"\nversion = "([^"]+)"', lock)
ver = m.group(1)
srcs = glob.glob(os.path.expanduser("~/.cargo/registry/src/*/fast-stm-%s" % ver))
if not srcs:
    sys.exit("fast-stm %s not found in the cargo registry" % ver)
dst = "/verif/.build/fast-stm-sched"
shutil.rmtree(dst, ignore_errors=True)
shutil.copytree(srcs[0], dst)
for f in ("Cargo.toml.orig", ".cargo_vcs_info.json", ".cargo-ok"):
    p = os.path.join(dst, f)
    if os.path.exists(p):
        os.remove(p)

def edit(path, old, new):
    p = os.path.join(dst, path)
    s = open(p).read()
    if s.count(old) != 1:
        sys.exit("make_vendor: expected exactly one occurrence in %s of:\n%s" % (path, old))
    open(p, "w").write(s.replace(old, new))

edit("src/lib.rs", "mod result;\n", '''pub mod sched {
    //! scheduler hook inserted by /verif/sched/make_vendor.py (not part of fast-stm)
    use std::sync::OnceLock;
    static HOOK: OnceLock<fn(u8) -> bool> = OnceLock::new();
    /// installs the hook; it returns true when the calling thread is under scheduler control
    pub fn install(h: fn(u8) -> bool) {
        let _ = HOOK.set(h);
    }
    #[inline]
    pub fn yield_point(kind: u8) -> bool {
        match HOOK.get() {
            Some(h) => h(kind),
            None => false,
        }
    }
}
mod result;
''')
edit("src/transaction/mod.rs", '''            Entry::Vacant(entry) => {
                // Read the value from the var.
                let value = var.read_ref_atomic();
''', '''            Entry::Vacant(entry) => {
                crate::sched::yield_point(1);
                // Read the value from the var.
                let value = var.read_ref_atomic();
''')
edit("src/transaction/mod.rs", '''    fn commit(&mut self) -> bool {
''', '''    fn commit(&mut self) -> bool {
        crate::sched::yield_point(3);
''')
edit("src/transaction/mod.rs", '''    fn wait_for_change(&mut self) {
''', '''    fn wait_for_change(&mut self) {
        if crate::sched::yield_point(4) {
            // under scheduler control: do not block, the attempt simply starts again
            self.vars.clear();
            return;
        }
''')
edit("src/tvar.rs", '''    pub fn read_atomic(&self) -> T {
''', '''    pub fn read_atomic(&self) -> T {
        crate::sched::yield_point(2);
''')
print("vendored fast-stm %s with yield points -> %s" % (ver, dst))
