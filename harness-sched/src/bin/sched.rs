//! `sched`: several threads run transactions on one CMap2 under a deterministic scheduler (C07).
//!
//! fast-stm is replaced (Cargo `[patch.crates-io]`) by the same source with yield points
//! (sched/make_vendor.py): a worker thread parks at every first transactional read, every
//! non-transactional read, every commit and every `retry()` until the scheduler names it.
//!
//!   <out>/cases.txt : `ID mask n0 prefix-op* 20 nthreads (ntx (nitems item*)*)* nsched tid*`
//!   <out>/impl.txt  : `ID 0 0 0 0 dump` (after the prefix) and
//!                     `ID 1 0 0 0 hang nthreads (nouts (class code)*)* ncommits tid* nlabels (tid kind)* dump`
//!   <out>/ops.txt   : `ID 1 20 workload`
//! Modes: `exh` (small programs, all schedules depth-first up to --maxsched), `random`.

#[allow(dead_code, unused_imports, unused_variables)]
#[path = "../../../harness/src/bin/core2.rs"]
mod core2;

use core2::*;
use hc_harness::*;
use honeycomb_core::cmap::CMap2;
use honeycomb_core::stm::atomically_with_err;
use std::cell::Cell;
use std::fmt::Write as _;
use std::io::Write as _;
use std::panic::{AssertUnwindSafe, catch_unwind};
use std::sync::{Condvar, Mutex, OnceLock};

// ------------------------------------------------------------------ scheduler
#[derive(Default)]
struct State {
    parked: Vec<Option<u8>>,
    finished: Vec<bool>,
    granted: Option<usize>,
    abort: bool,
}
struct Sched {
    state: Mutex<State>,
    cv: Condvar,
}
static S: OnceLock<Sched> = OnceLock::new();
thread_local! { static TID: Cell<Option<usize>> = const { Cell::new(None) }; }

fn sched() -> &'static Sched {
    S.get_or_init(|| Sched { state: Mutex::new(State::default()), cv: Condvar::new() })
}

/// the hook called by the patched fast-stm at every yield point
fn hook(kind: u8) -> bool {
    let Some(i) = TID.with(Cell::get) else { return false };
    let s = sched();
    let mut st = s.state.lock().unwrap();
    st.parked[i] = Some(kind);
    s.cv.notify_all();
    while st.granted != Some(i) && !st.abort {
        st = s.cv.wait(st).unwrap();
    }
    if st.abort {
        st.parked[i] = None;
        drop(st);
        panic!("sched-abort");
    }
    st.granted = None;
    st.parked[i] = None;
    s.cv.notify_all();
    true
}

type Tx = Vec<Item>;

fn run_items(m: &CMap2<f64>, t: &mut honeycomb_core::stm::Transaction, items: &[Item]) -> honeycomb_core::stm::TransactionClosureResult<(), u32> {
    for it in items {
        match it {
            Item::C(c) => match call_tx(m, t, c) {
                Ok(()) => {}
                Err(honeycomb_core::stm::TransactionError::Abort(e)) => return honeycomb_core::stm::abort(sew_err_code(&e)),
                Err(honeycomb_core::stm::TransactionError::Stm(e)) => return Err(honeycomb_core::stm::TransactionError::Stm(e)),
            },
            Item::K(k) => kcall_tx(m, t, k)?,
        }
    }
    Ok(())
}

struct RunResult {
    hang: bool,
    outs: Vec<Vec<(u32, u32)>>,
    commits: Vec<usize>,
    labels: Vec<(usize, u8)>,
    /// (choice index, number of enabled threads) at every scheduling decision
    decisions: Vec<(usize, usize)>,
}

/// one execution of the workload on `m`; `choose(step, enabled, last)` picks an index into `enabled`
fn run_once(m: &CMap2<f64>, wl: &[Vec<Tx>], budget: usize, on_spin: &dyn Fn(&[(usize, u8)]), choose: &mut dyn FnMut(usize, &[usize], Option<usize>) -> usize) -> RunResult {
    let n = wl.len();
    let s = sched();
    {
        let mut st = s.state.lock().unwrap();
        *st = State { parked: vec![None; n], finished: vec![false; n], granted: None, abort: false };
    }
    let outs: Vec<Mutex<Vec<(u32, u32)>>> = (0..n).map(|_| Mutex::new(Vec::new())).collect();
    let commits: Mutex<Vec<usize>> = Mutex::new(Vec::new());
    let mut labels = Vec::new();
    let mut decisions = Vec::new();
    let mut hang = false;
    let mut spinning = false;
    let mut blocked = vec![false; n];
    let spin_secs = 4;
    let spun = std::sync::atomic::AtomicBool::new(false);
    std::thread::scope(|sc| {
        for i in 0..n {
            let (outs, commits, txs) = (&outs, &commits, &wl[i]);
            sc.spawn(move || {
                TID.with(|t| t.set(Some(i)));
                for items in txs {
                    let r = catch_unwind(AssertUnwindSafe(|| atomically_with_err(|t| run_items(m, t, items))));
                    match r {
                        Ok(Ok(())) => {
                            commits.lock().unwrap().push(i);
                            outs[i].lock().unwrap().push((0, 0));
                        }
                        Ok(Err(c)) => outs[i].lock().unwrap().push((1, c)),
                        Err(_) => {
                            // a panic kills the thread (as in the model); a scheduler abort records nothing
                            if !sched().state.lock().unwrap().abort {
                                outs[i].lock().unwrap().push((2, 0));
                            }
                            break;
                        }
                    }
                }
                let s = sched();
                let mut st = s.state.lock().unwrap();
                st.finished[i] = true;
                s.cv.notify_all();
            });
        }
        let mut last: Option<usize> = None;
        loop {
            let mut st = s.state.lock().unwrap();
            while !(0..n).all(|i| st.finished[i] || st.parked[i].is_some()) {
                st = s.cv.wait(st).unwrap();
            }
            // a thread parked in retry() is blocked until another thread has committed something
            let enabled: Vec<usize> = (0..n).filter(|&i| !st.finished[i] && !(st.parked[i] == Some(4) && blocked[i])).collect();
            if (0..n).all(|i| st.finished[i]) {
                break;
            }
            if enabled.is_empty() {
                // every remaining thread waits in retry() for a change nobody can make any more
                hang = true;
                st.abort = true;
                s.cv.notify_all();
                while !(0..n).all(|i| st.finished[i]) {
                    st = s.cv.wait(st).unwrap();
                }
                break;
            }
            if labels.len() >= budget {
                hang = true;
                st.abort = true;
                s.cv.notify_all();
                while !(0..n).all(|i| st.finished[i]) {
                    st = s.cv.wait(st).unwrap();
                }
                break;
            }
            let c = choose(labels.len(), &enabled, last).min(enabled.len() - 1);
            decisions.push((c, enabled.len()));
            let pick = enabled[c];
            last = Some(pick);
            let kind = st.parked[pick].unwrap();
            labels.push((pick, kind));
            if kind == 3 {
                // a commit attempt of `pick`: whoever waits in retry() may see a change
                for b in blocked.iter_mut() {
                    *b = false;
                }
            }
            if kind == 4 {
                blocked[pick] = true;
            }
            st.granted = Some(pick);
            s.cv.notify_all();
            let t0 = std::time::Instant::now();
            while st.granted.is_some() || !(st.finished[pick] || st.parked[pick].is_some()) {
                let (g, _) = s.cv.wait_timeout(st, std::time::Duration::from_millis(200)).unwrap();
                st = g;
                if t0.elapsed() > std::time::Duration::from_secs(spin_secs) {
                    // the thread runs without reaching a yield point or finishing: it spins on its own log
                    spinning = true;
                    break;
                }
            }
            if spinning {
                spun.store(true, std::sync::atomic::Ordering::SeqCst);
                drop(st);
                on_spin(&labels);
                unreachable!();
            }
        }
    });
    RunResult {
        hang,
        outs: outs.into_iter().map(|m| m.into_inner().unwrap()).collect(),
        commits: commits.into_inner().unwrap(),
        labels,
        decisions,
    }
}

fn item_toks(it: &Item, s: &mut String) {
    match it {
        Item::C(c) => {
            s.push_str(" 0");
            call_toks(c, s);
        }
        Item::K(k) => {
            s.push_str(" 1");
            kcall_toks(k, s);
        }
    }
}

fn workload_toks(wl: &[Vec<Tx>], s: &mut String) {
    write!(s, " 20 {}", wl.len()).unwrap();
    for th in wl {
        write!(s, " {}", th.len()).unwrap();
        for tx in th {
            write!(s, " {}", tx.len()).unwrap();
            for it in tx {
                item_toks(it, s);
            }
        }
    }
}

struct Out {
    cases: std::io::BufWriter<std::fs::File>,
    obs: std::io::BufWriter<std::fs::File>,
    ops: std::io::BufWriter<std::fs::File>,
}

fn build_prefix(mask: u32, n0: u32, prefix: &[Op]) -> CMap2<f64> {
    let mut m = build2(n0 as usize, mask);
    for o in prefix {
        exec(&mut m, o);
    }
    m
}

fn emit(id: &str, mask: u32, n0: u32, prefix: &[Op], wl: &[Vec<Tx>], pre_dump: &str, m: &CMap2<f64>, r: &RunResult, out: &mut Out) {
    let mut case = format!("{id} {mask} {n0}");
    for o in prefix {
        op_toks(o, &mut case);
    }
    workload_toks(wl, &mut case);
    write!(case, " {}", r.labels.len()).unwrap();
    for (t, _) in &r.labels {
        write!(case, " {t}").unwrap();
    }
    writeln!(out.cases, "{case}").unwrap();
    writeln!(out.obs, "{id} 0 0 0 0{pre_dump}").unwrap();
    let mut line = format!("{id} 1 0 0 0 {} {}", u8::from(r.hang), wl.len());
    for o in &r.outs {
        write!(line, " {}", o.len()).unwrap();
        for (c, code) in o {
            write!(line, " {c} {code}").unwrap();
        }
    }
    write!(line, " {}", r.commits.len()).unwrap();
    for t in &r.commits {
        write!(line, " {t}").unwrap();
    }
    write!(line, " {}", r.labels.len()).unwrap();
    for (t, k) in &r.labels {
        write!(line, " {t} {k}").unwrap();
    }
    dump2(m, mask, &mut line);
    writeln!(out.obs, "{line}").unwrap();
    let mut op = format!("{id} 1");
    workload_toks(wl, &mut op);
    writeln!(out.ops, "{op}").unwrap();
    out.cases.flush().unwrap();
    out.obs.flush().unwrap();
    out.ops.flush().unwrap();
}

/// a thread spins without reaching a yield point: the run cannot be joined. Record the case (hang flag 2,
/// the grants so far, the state before the concurrent phase as final dump) and leave the process.
fn emit_spin(outdir: &str, id: &str, mask: u32, n0: u32, prefix: &[Op], wl: &[Vec<Tx>], pre_dump: &str, labels: &[(usize, u8)]) -> ! {
    let app = |f: &str| std::fs::OpenOptions::new().append(true).open(format!("{outdir}/{f}")).unwrap();
    let mut case = format!("{id} {mask} {n0}");
    for o in prefix {
        op_toks(o, &mut case);
    }
    workload_toks(wl, &mut case);
    write!(case, " {}", labels.len()).unwrap();
    for (t, _) in labels {
        write!(case, " {t}").unwrap();
    }
    writeln!(app("cases.txt"), "{case}").unwrap();
    let mut line = format!("{id} 0 0 0 0{pre_dump}\n{id} 1 0 0 0 2 {}", wl.len());
    for _ in wl {
        line.push_str(" 0");
    }
    write!(line, " 0 {}", labels.len()).unwrap();
    for (t, k) in labels {
        write!(line, " {t} {k}").unwrap();
    }
    line.push_str(pre_dump);
    writeln!(app("impl.txt"), "{line}").unwrap();
    let mut op = format!("{id} 1");
    workload_toks(wl, &mut op);
    writeln!(app("ops.txt"), "{op}").unwrap();
    std::process::exit(0)
}

/// a small call touching few variables (exhaustive mode)
fn gen_small(r: &mut Rng, m: &CMap2<f64>, mask: u32) -> Call {
    let v = view(m);
    let n = v_n(&v);
    let d = |r: &mut Rng| 1 + r.below(u64::from(n.max(2) - 1)) as u32;
    match r.below(10) {
        0 | 1 => Call::Link1(d(r), d(r)),
        2 | 3 => Call::Link2(d(r), d(r)),
        4 => Call::Unlink1(d(r)),
        5 => Call::Unlink2(d(r)),
        6 => Call::WriteVertex(d(r), r.below(4) as f64, r.below(4) as f64),
        7 if mask != 0 => {
            let ks: Vec<u32> = (0..4).filter(|k| mask & (1 << k) != 0).collect();
            if ks.is_empty() { Call::RemoveVertex(d(r)) } else { Call::WriteAttr(*r.pick(&ks), d(r), r.below(30)) }
        }
        8 => Call::Unsew1(d(r)),
        _ => Call::RemoveVertex(d(r)),
    }
}
/// the attribute manager keeps the storages of a cell kind in a HashMap whose iteration order changes from
/// run to run: with two storages on one cell kind, the number of reads made before a failing merge is not
/// reproducible. Scheduled runs therefore register at most one storage per cell kind (vertex: 0 or 3).
fn one_storage_per_cell(mask: u32, r: &mut Rng) -> u32 {
    if mask & 9 == 9 { mask & !(if r.chance(1, 2) { 1 } else { 8 }) } else { mask }
}
fn v_n(v: &View) -> u32 {
    // `View`'s fields are private to core2: recompute the dart count from a dump-free accessor
    view_n(v)
}

fn main() {
    let args: Vec<String> = std::env::args().collect();
    let get = |name: &str, dflt: &str| -> String {
        args.iter().position(|a| a == name).and_then(|i| args.get(i + 1).cloned()).unwrap_or_else(|| dflt.to_string())
    };
    let seed: u64 = get("--seed", "1").parse().unwrap();
    let mode = get("--mode", "random");
    let outdir = get("--out", ".");
    let ncases: usize = get("--cases", "50").parse().unwrap();
    let maxsched: usize = get("--maxsched", "300").parse().unwrap();
    let nsched: usize = get("--scheds", "6").parse().unwrap();
    let budget: usize = get("--budget", "3000").parse().unwrap();
    let tag = get("--tag", "s");
    let threads: usize = get("--threads", "0").parse().unwrap();
    if std::env::var("HC_LOUD").is_err() {
        quiet_panics();
    }
    fast_stm::sched::install(hook);
    let mk = |f: &str| std::io::BufWriter::new(std::fs::File::create(format!("{outdir}/{f}")).unwrap());
    let mut out = Out { cases: mk("cases.txt"), obs: mk("impl.txt"), ops: mk("ops.txt") };
    let mut rng = Rng::new(seed);
    for i in 0..ncases {
        let mut r2 = Rng::new(rng.next());
        let small = mode == "exh";
        // ---- prefix: a small random map (exh) or a triangle mesh with spare darts (random)
        let (mask, n0, prefix): (u32, u32, Vec<Op>) = if small {
            let mask = one_storage_per_cell(if r2.chance(1, 2) { 0 } else { r2.below(16) as u32 }, &mut r2);
            let n0 = 3 + r2.below(5) as u32;
            let mut m = build2(n0 as usize, mask);
            let mut p = Vec::new();
            for _ in 0..r2.below(8) {
                let o = Op::Force(None, gen_call(&mut r2, &view(&m), mask, 0));
                exec(&mut m, &o);
                p.push(o);
            }
            (mask, n0, p)
        } else {
            let anchors = if r2.chance(1, 3) { 0x70 } else { 0 };
            let user = if anchors == 0 && r2.chance(1, 2) { one_storage_per_cell(r2.below(16) as u32, &mut r2) } else { 0 };
            let (nx, ny) = (1 + r2.below(3) as u32, 1 + r2.below(3) as u32);
            let (mut p, used) = prefix_trimesh(&mut r2, nx, ny, anchors != 0);
            p.retain(|o| !matches!(o, Op::Obs(_)));
            p.push(Op::AddDarts(48));
            (user | anchors, used, p)
        };
        let m0 = build_prefix(mask, n0, &prefix);
        let mut pre_dump = String::new();
        dump2(&m0, mask, &mut pre_dump);
        // ---- workload
        let pb = mode == "pb";
        let nth = if threads > 0 { threads } else if pb { 2 } else { 2 + usize::from(r2.chance(1, 4)) };
        let fresh0 = if small { 0 } else { m0.n_darts() as u32 - 48 };
        let mut wl: Vec<Vec<Tx>> = Vec::new();
        let mut slot = 0u32;
        for _ in 0..nth {
            let ntx = 1 + r2.below(if small { 2 } else { 3 }) as usize;
            let mut th = Vec::new();
            for _ in 0..ntx {
                let nit = 1 + usize::from(r2.chance(1, 4));
                let mut tx = Vec::new();
                for _ in 0..nit {
                    if small {
                        tx.push(Item::C(gen_small(&mut r2, &m0, mask)));
                    } else if r2.chance(1, 2) && slot < 5 {
                        tx.push(Item::K(gen_kcall(&mut r2, &m0, fresh0 + 8 * slot, None, "all")));
                        slot += 1;
                    } else if r2.chance(2, 3) {
                        tx.push(Item::C(gen_sewish(&mut r2, &view(&m0))));
                    } else {
                        tx.push(Item::C(gen_call(&mut r2, &view(&m0), mask & 15, 0)));
                    }
                }
                th.push(tx);
            }
            wl.push(th);
        }
        if pb && r2.chance(1, 2) {
            // thread 1 takes a dart out of a face some call of thread 0 works on (one block of three links)
            let target: Option<u32> = wl[0].iter().flatten().find_map(|it| match it {
                Item::K(KCall::CutOuter(e, _) | KCall::CutInner(e, _) | KCall::Swap(e) | KCall::Collapse(e)) => Some(*e),
                Item::K(KCall::InsertVertex(e, ..) | KCall::InsertVertices(e, ..)) => Some(*e),
                Item::C(Call::Sew2(l, _) | Call::Unsew2(l) | Call::Sew1(l, _) | Call::Unsew1(l)) => Some(*l),
                _ => None,
            });
            if let Some(e) = target {
                if e != 0 && (e as usize) < m0.n_darts() {
                    let cyc: Vec<u32> = m0.orbit(honeycomb_core::cmap::OrbitPolicy::Face, e).collect();
                    let d = if r2.chance(1, 2) { e } else { *r2.pick(&cyc) };
                    let (y, z) = (m0.beta::<0>(d), m0.beta::<1>(d));
                    if y != 0 && z != 0 && y != d && z != d {
                        wl[1] = vec![vec![Item::C(Call::Unlink1(d)), Item::C(Call::Unlink1(y)), Item::C(Call::Link1(y, z))]];
                    }
                }
            }
        }
        // ---- schedules
        if pb {
            // preemption-bounded: thread a runs k1 grants, thread b k2 grants, then a to the end, then b
            let mut count = 0usize;
            let lens: Vec<usize> = {
                let m = build_prefix(mask, n0, &prefix);
                let id = format!("{tag}{i}p{count}");
                let spin = |l: &[(usize, u8)]| { emit_spin(&outdir, &id, mask, n0, &prefix, &wl, &pre_dump, l) };
                let r = run_once(&m, &wl, budget, &spin, &mut |_s, _en, _l| 0);
                emit(&id, mask, n0, &prefix, &wl, &pre_dump, &m, &r, &mut out);
                count += 1;
                (0..nth).map(|t| r.labels.iter().filter(|l| l.0 == t).count()).collect()
            };
            let per_case = maxsched.max(4);
            let total: usize = 2 * (lens[0] + 1) * (lens[1] + 1);
            let stride = total.div_ceil(per_case).max(1);
            let mut idx = r2.below(stride as u64) as usize;
            while idx < total {
                let first = idx % 2;
                let k1 = (idx / 2) % (lens[first] + 1);
                let k2 = 1 + (idx / 2) / (lens[first] + 1) % (lens[1 - first] + 1);
                idx += stride;
                let m = build_prefix(mask, n0, &prefix);
                let id = format!("{tag}{i}p{count}");
                let spin = |l: &[(usize, u8)]| { emit_spin(&outdir, &id, mask, n0, &prefix, &wl, &pre_dump, l) };
                let mut done = [0usize; 2];
                let r = run_once(&m, &wl, budget, &spin, &mut |_s, en, _l| {
                    let want = if done[first] < k1 {
                        first
                    } else if done[1 - first] < k2 {
                        1 - first
                    } else {
                        first
                    };
                    let t = if en.contains(&want) { want } else { en[0] };
                    if t < 2 {
                        done[t] += 1;
                    }
                    en.iter().position(|&x| x == t).unwrap()
                });
                emit(&id, mask, n0, &prefix, &wl, &pre_dump, &m, &r, &mut out);
                count += 1;
            }
        } else if small {
            let mut forced: Vec<usize> = Vec::new();
            let mut count = 0usize;
            loop {
                let m = build_prefix(mask, n0, &prefix);
                let f = forced.clone();
                let id = format!("{tag}{i}x{count}");
                let spin = |l: &[(usize, u8)]| { emit_spin(&outdir, &id, mask, n0, &prefix, &wl, &pre_dump, l) };
                let r = run_once(&m, &wl, budget, &spin, &mut |step, _en, _last| if step < f.len() { f[step] } else { 0 });
                emit(&id, mask, n0, &prefix, &wl, &pre_dump, &m, &r, &mut out);
                count += 1;
                if count >= maxsched {
                    break;
                }
                // next schedule in depth-first order
                let mut k = r.decisions.len();
                let mut next = None;
                while k > 0 {
                    k -= 1;
                    if r.decisions[k].0 + 1 < r.decisions[k].1 {
                        let mut p: Vec<usize> = r.decisions[..k].iter().map(|d| d.0).collect();
                        p.push(r.decisions[k].0 + 1);
                        next = Some(p);
                        break;
                    }
                }
                match next {
                    Some(p) => forced = p,
                    None => break,
                }
            }
        } else {
            for j in 0..nsched {
                let m = build_prefix(mask, n0, &prefix);
                let mut rs = Rng::new(r2.next());
                let stick = [50u64, 80, 20, 95][j % 4];
                let id = format!("{tag}{i}r{j}");
                let spin = |l: &[(usize, u8)]| { emit_spin(&outdir, &id, mask, n0, &prefix, &wl, &pre_dump, l) };
                let r = run_once(&m, &wl, budget, &spin, &mut |_step, en, last| {
                    if let Some(l) = last {
                        if let Some(p) = en.iter().position(|&x| x == l) {
                            if rs.chance(stick, 100) {
                                return p;
                            }
                        }
                    }
                    rs.below(en.len() as u64) as usize
                });
                emit(&id, mask, n0, &prefix, &wl, &pre_dump, &m, &r, &mut out);
            }
        }
    }
    out.cases.flush().unwrap();
    out.obs.flush().unwrap();
    out.ops.flush().unwrap();
}
