//! `sched`: several threads run transactions on one CMap2 under a deterministic scheduler (C07).
//!
//! fast-stm is replaced (Cargo `[patch.crates-io]`) by the same source with yield points
//! (sched/make_vendor.py): a worker thread parks at every first transactional read, every
//! non-transactional read, every commit and every `retry()` until the scheduler names it.
//!
//!   <out>/cases.txt : `ID mask n0 prefix-op* 20 nthreads (ntx (nitems item*)*)* nsched tid*`
//!   <out>/impl.txt  : `ID 0 0 0 0 dump` (after the prefix) and
//!                     `ID 1 0 0 0 hang nthreads (nouts (class code)*)* ncommits tid* nlabels (tid kind)* dump`
//!   <out>/ops.txt   : `ID 1 20 workload`
//! Modes: `exh` (small programs, all schedules depth-first up to --maxsched), `random`.

#[allow(dead_code, unused_imports, unused_variables)]
#[path = "../../../harness/src/bin/core2.rs"]
mod core2;

use core2::*;
use hc_harness::*;
use honeycomb_core::cmap::CMap2;
use honeycomb_core::stm::atomically_with_err;
use std::cell::Cell;
use std::fmt::Write as _;
use std::io::Write as _;
use std::panic::{AssertUnwindSafe, catch_unwind};
use std::sync::{Condvar, Mutex, OnceLock};

// ------------------------------------------------------------------ scheduler
#[derive(Default)]
struct State {
    parked: Vec<Option<u8>>,
    finished: Vec<bool>,
    granted: Option<usize>,
    abort: bool,
}
struct Sched {
    state: Mutex<State>,
    cv: Condvar,
}
static S: OnceLock<Sched> = OnceLock::new();
thread_local! { static TID: Cell<Option<usize>> = const { Cell::new(None) }; }

fn sched() -> &'static Sched {
    S.get_or_init(|| Sched { state: Mutex::new(State::default()), cv: Condvar::new() })
}

/// the hook called by the patched fast-stm at every yield point
fn hook(kind: u8) -> bool {
    let Some(i) = TID.with(Cell::get) else { return false };
    let s = sched();
    let mut st = s.state.lock().unwrap();
    st.parked[i] = Some(kind);
    s.cv.notify_all();
    while st.granted != Some(i) && !st.abort {
        st = s.cv.wait(st).unwrap();
    }
    if st.abort {
        st.parked[i] = None;
        drop(st);
        panic!("sched-abort");
    }
    st.granted = None;
    st.parked[i] = None;
    s.cv.notify_all();
    true
}

type Tx = Vec<Item>;

fn run_items(m: &CMap2<f64>, t: &mut honeycomb_core::stm::Transaction, items: &[Item]) -> honeycomb_core::stm::TransactionClosureResult<(), u32> {
    for it in items {
        match it {
            Item::C(c) => match call_tx(m, t, c) {
                Ok(()) => {}
                Err(honeycomb_core::stm::TransactionError::Abort(e)) => return honeycomb_core::stm::abort(sew_err_code(&e)),
                Err(honeycomb_core::stm::TransactionError::Stm(e)) => return Err(honeycomb_core::stm::TransactionError::Stm(e)),
            },
            Item::K(k) => kcall_tx(m, t, k)?,
        }
    }
    Ok(())
}

struct RunResult {
    hang: bool,
    outs: Vec<Vec<(u32, u32)>>,
    commits: Vec<usize>,
    labels: Vec<(usize, u8)>,
    /// (choice index, number of enabled threads) at every scheduling decision
    decisions: Vec<(usize, usize)>,
}

/// one execution of the workload on `m`; `choose(step, enabled, last)` picks an index into `enabled`
fn run_once(m: &CMap2<f64>, wl: &[Vec<Tx>], budget: usize, choose: &mut dyn FnMut(usize, &[usize], Option<usize>) -> usize) -> RunResult {
    let n = wl.len();
    let s = sched();
    {
        let mut st = s.state.lock().unwrap();
        *st = State { parked: vec![None; n], finished: vec![false; n], granted: None, abort: false };
    }
    let outs: Vec<Mutex<Vec<(u32, u32)>>> = (0..n).map(|_| Mutex::new(Vec::new())).collect();
    let commits: Mutex<Vec<usize>> = Mutex::new(Vec::new());
    let mut labels = Vec::new();
    let mut decisions = Vec::new();
    let mut hang = false;
    std::thread::scope(|sc| {
        for i in 0..n {
            let (outs, commits, txs) = (&outs, &commits, &wl[i]);
            sc.spawn(move || {
                TID.with(|t| t.set(Some(i)));
                for items in txs {
                    let r = catch_unwind(AssertUnwindSafe(|| atomically_with_err(|t| run_items(m, t, items))));
                    match r {
                        Ok(Ok(())) => {
                            commits.lock().unwrap().push(i);
                            outs[i].lock().unwrap().push((0, 0));
                        }
                        Ok(Err(c)) => outs[i].lock().unwrap().push((1, c)),
                        Err(_) => {
                            // a panic kills the thread (as in the model); a scheduler abort records nothing
                            if !sched().state.lock().unwrap().abort {
                                outs[i].lock().unwrap().push((2, 0));
                            }
                            break;
                        }
                    }
                }
                let s = sched();
                let mut st = s.state.lock().unwrap();
                st.finished[i] = true;
                s.cv.notify_all();
            });
        }
        let mut last: Option<usize> = None;
        loop {
            let mut st = s.state.lock().unwrap();
            while !(0..n).all(|i| st.finished[i] || st.parked[i].is_some()) {
                st = s.cv.wait(st).unwrap();
            }
            let enabled: Vec<usize> = (0..n).filter(|&i| !st.finished[i]).collect();
            if enabled.is_empty() {
                break;
            }
            if labels.len() >= budget {
                hang = true;
                st.abort = true;
                s.cv.notify_all();
                while !(0..n).all(|i| st.finished[i]) {
                    st = s.cv.wait(st).unwrap();
                }
                break;
            }
            let c = choose(labels.len(), &enabled, last).min(enabled.len() - 1);
            decisions.push((c, enabled.len()));
            let pick = enabled[c];
            last = Some(pick);
            labels.push((pick, st.parked[pick].unwrap()));
            st.granted = Some(pick);
            s.cv.notify_all();
            while st.granted.is_some() || !(st.finished[pick] || st.parked[pick].is_some()) {
                st = s.cv.wait(st).unwrap();
            }
        }
    });
    RunResult {
        hang,
        outs: outs.into_iter().map(|m| m.into_inner().unwrap()).collect(),
        commits: commits.into_inner().unwrap(),
        labels,
        decisions,
    }
}

fn item_toks(it: &Item, s: &mut String) {
    match it {
        Item::C(c) => {
            s.push_str(" 0");
            call_toks(c, s);
        }
        Item::K(k) => {
            s.push_str(" 1");
            kcall_toks(k, s);
        }
    }
}

fn workload_toks(wl: &[Vec<Tx>], s: &mut String) {
    write!(s, " 20 {}", wl.len()).unwrap();
    for th in wl {
        write!(s, " {}", th.len()).unwrap();
        for tx in th {
            write!(s, " {}", tx.len()).unwrap();
            for it in tx {
                item_toks(it, s);
            }
        }
    }
}

struct Out {
    cases: std::io::BufWriter<std::fs::File>,
    obs: std::io::BufWriter<std::fs::File>,
    ops: std::io::BufWriter<std::fs::File>,
}

fn build_prefix(mask: u32, n0: u32, prefix: &[Op]) -> CMap2<f64> {
    let mut m = build2(n0 as usize, mask);
    for o in prefix {
        exec(&mut m, o);
    }
    m
}

fn emit(id: &str, mask: u32, n0: u32, prefix: &[Op], wl: &[Vec<Tx>], pre_dump: &str, m: &CMap2<f64>, r: &RunResult, out: &mut Out) {
    let mut case = format!("{id} {mask} {n0}");
    for o in prefix {
        op_toks(o, &mut case);
    }
    workload_toks(wl, &mut case);
    write!(case, " {}", r.labels.len()).unwrap();
    for (t, _) in &r.labels {
        write!(case, " {t}").unwrap();
    }
    writeln!(out.cases, "{case}").unwrap();
    writeln!(out.obs, "{id} 0 0 0 0{pre_dump}").unwrap();
    let mut line = format!("{id} 1 0 0 0 {} {}", u8::from(r.hang), wl.len());
    for o in &r.outs {
        write!(line, " {}", o.len()).unwrap();
        for (c, code) in o {
            write!(line, " {c} {code}").unwrap();
        }
    }
    write!(line, " {}", r.commits.len()).unwrap();
    for t in &r.commits {
        write!(line, " {t}").unwrap();
    }
    write!(line, " {}", r.labels.len()).unwrap();
    for (t, k) in &r.labels {
        write!(line, " {t} {k}").unwrap();
    }
    dump2(m, mask, &mut line);
    writeln!(out.obs, "{line}").unwrap();
    let mut op = format!("{id} 1");
    workload_toks(wl, &mut op);
    writeln!(out.ops, "{op}").unwrap();
}

/// a small call touching few variables (exhaustive mode)
fn gen_small(r: &mut Rng, m: &CMap2<f64>, mask: u32) -> Call {
    let v = view(m);
    let n = v_n(&v);
    let d = |r: &mut Rng| 1 + r.below(u64::from(n.max(2) - 1)) as u32;
    match r.below(10) {
        0 | 1 => Call::Link1(d(r), d(r)),
        2 | 3 => Call::Link2(d(r), d(r)),
        4 => Call::Unlink1(d(r)),
        5 => Call::Unlink2(d(r)),
        6 => Call::WriteVertex(d(r), r.below(4) as f64, r.below(4) as f64),
        7 if mask != 0 => {
            let ks: Vec<u32> = (0..4).filter(|k| mask & (1 << k) != 0).collect();
            if ks.is_empty() { Call::RemoveVertex(d(r)) } else { Call::WriteAttr(*r.pick(&ks), d(r), r.below(30)) }
        }
        8 => Call::Unsew1(d(r)),
        _ => Call::RemoveVertex(d(r)),
    }
}
/// the attribute manager keeps the storages of a cell kind in a HashMap whose iteration order changes from
/// run to run: with two storages on one cell kind, the number of reads made before a failing merge is not
/// reproducible. Scheduled runs therefore register at most one storage per cell kind (vertex: 0 or 3).
fn one_storage_per_cell(mask: u32, r: &mut Rng) -> u32 {
    if mask & 9 == 9 { mask & !(if r.chance(1, 2) { 1 } else { 8 }) } else { mask }
}
fn v_n(v: &View) -> u32 {
    // `View`'s fields are private to core2: recompute the dart count from a dump-free accessor
    view_n(v)
}

fn main() {
    let args: Vec<String> = std::env::args().collect();
    let get = |name: &str, dflt: &str| -> String {
        args.iter().position(|a| a == name).and_then(|i| args.get(i + 1).cloned()).unwrap_or_else(|| dflt.to_string())
    };
    let seed: u64 = get("--seed", "1").parse().unwrap();
    let mode = get("--mode", "random");
    let outdir = get("--out", ".");
    let ncases: usize = get("--cases", "50").parse().unwrap();
    let maxsched: usize = get("--maxsched", "300").parse().unwrap();
    let nsched: usize = get("--scheds", "6").parse().unwrap();
    let budget: usize = get("--budget", "3000").parse().unwrap();
    let tag = get("--tag", "s");
    let threads: usize = get("--threads", "0").parse().unwrap();
    if std::env::var("HC_LOUD").is_err() {
        quiet_panics();
    }
    fast_stm::sched::install(hook);
    let mk = |f: &str| std::io::BufWriter::new(std::fs::File::create(format!("{outdir}/{f}")).unwrap());
    let mut out = Out { cases: mk("cases.txt"), obs: mk("impl.txt"), ops: mk("ops.txt") };
    let mut rng = Rng::new(seed);
    for i in 0..ncases {
        let mut r2 = Rng::new(rng.next());
        let small = mode == "exh";
        // ---- prefix: a small random map (exh) or a triangle mesh with spare darts (random)
        let (mask, n0, prefix): (u32, u32, Vec<Op>) = if small {
            let mask = one_storage_per_cell(if r2.chance(1, 2) { 0 } else { r2.below(16) as u32 }, &mut r2);
            let n0 = 3 + r2.below(5) as u32;
            let mut m = build2(n0 as usize, mask);
            let mut p = Vec::new();
            for _ in 0..r2.below(8) {
                let o = Op::Force(None, gen_call(&mut r2, &view(&m), mask, 0));
                exec(&mut m, &o);
                p.push(o);
            }
            (mask, n0, p)
        } else {
            let anchors = if r2.chance(1, 3) { 0x70 } else { 0 };
            let user = if anchors == 0 && r2.chance(1, 2) { one_storage_per_cell(r2.below(16) as u32, &mut r2) } else { 0 };
            let (nx, ny) = (1 + r2.below(3) as u32, 1 + r2.below(3) as u32);
            let (mut p, used) = prefix_trimesh(&mut r2, nx, ny, anchors != 0);
            p.retain(|o| !matches!(o, Op::Obs(_)));
            p.push(Op::AddDarts(48));
            (user | anchors, used, p)
        };
        let m0 = build_prefix(mask, n0, &prefix);
        let mut pre_dump = String::new();
        dump2(&m0, mask, &mut pre_dump);
        // ---- workload
        let nth = if threads > 0 { threads } else { 2 + usize::from(r2.chance(1, 4)) };
        let fresh0 = if small { 0 } else { m0.n_darts() as u32 - 48 };
        let mut wl: Vec<Vec<Tx>> = Vec::new();
        let mut slot = 0u32;
        for _ in 0..nth {
            let ntx = 1 + r2.below(if small { 2 } else { 3 }) as usize;
            let mut th = Vec::new();
            for _ in 0..ntx {
                let nit = 1 + usize::from(r2.chance(1, 4));
                let mut tx = Vec::new();
                for _ in 0..nit {
                    if small {
                        tx.push(Item::C(gen_small(&mut r2, &m0, mask)));
                    } else if r2.chance(1, 2) && slot < 5 {
                        tx.push(Item::K(gen_kcall(&mut r2, &m0, fresh0 + 8 * slot, None, "all")));
                        slot += 1;
                    } else if r2.chance(2, 3) {
                        tx.push(Item::C(gen_sewish(&mut r2, &view(&m0))));
                    } else {
                        tx.push(Item::C(gen_call(&mut r2, &view(&m0), mask & 15, 0)));
                    }
                }
                th.push(tx);
            }
            wl.push(th);
        }
        // ---- schedules
        if small {
            let mut forced: Vec<usize> = Vec::new();
            let mut count = 0usize;
            loop {
                let m = build_prefix(mask, n0, &prefix);
                let f = forced.clone();
                let r = run_once(&m, &wl, budget, &mut |step, _en, _last| if step < f.len() { f[step] } else { 0 });
                emit(&format!("{tag}{i}x{count}"), mask, n0, &prefix, &wl, &pre_dump, &m, &r, &mut out);
                count += 1;
                if count >= maxsched {
                    break;
                }
                // next schedule in depth-first order
                let mut k = r.decisions.len();
                let mut next = None;
                while k > 0 {
                    k -= 1;
                    if r.decisions[k].0 + 1 < r.decisions[k].1 {
                        let mut p: Vec<usize> = r.decisions[..k].iter().map(|d| d.0).collect();
                        p.push(r.decisions[k].0 + 1);
                        next = Some(p);
                        break;
                    }
                }
                match next {
                    Some(p) => forced = p,
                    None => break,
                }
            }
        } else {
            for j in 0..nsched {
                let m = build_prefix(mask, n0, &prefix);
                let mut rs = Rng::new(r2.next());
                let stick = [50u64, 80, 20, 95][j % 4];
                let r = run_once(&m, &wl, budget, &mut |_step, en, last| {
                    if let Some(l) = last {
                        if let Some(p) = en.iter().position(|&x| x == l) {
                            if rs.chance(stick, 100) {
                                return p;
                            }
                        }
                    }
                    rs.below(en.len() as u64) as usize
                });
                emit(&format!("{tag}{i}r{j}"), mask, n0, &prefix, &wl, &pre_dump, &m, &r, &mut out);
            }
        }
    }
    out.cases.flush().unwrap();
    out.obs.flush().unwrap();
    out.ops.flush().unwrap();
}
